"""C06 - molecule assignment equals the ground-truth duplicate structure; exactly one primary per molecule.
Extension (Model/C06x.v): pooling_method=0, every_fragment_as_molecule, order of the capacity test, two-iterator histories.

K: simulated libraries with known truth -> in-memory pysam reads -> the REAL MoleculeIterator
(check_eject_every=None) + Molecule.write_tags / Fragment.write_tags  vs  the Coq model (Model/C06.v).
The abstraction read -> abstract fragment uses the implementation's own accessors (impl_c06.abstract).
"""
import itertools, json, os
import fw
import c06_gen

BASES = 'ACGT'
CONTIGS = ['chr1', 'chr2', 'chr3']
CLS = {0: 'Fragment', 1: 'NlaIIIFragment', 2: 'CHICFragment'}


# ----------------------------------------------------------------------------- read geometry
def rand_seq(rng, n):
    return ''.join(rng.choice(BASES) for _ in range(n))


def mutate(rng, umi, k):
    pos = rng.sample(range(len(umi)), min(k, len(umi)))
    u = list(umi)
    for p in pos:
        u[p] = rng.choice([b for b in BASES if b != u[p]])
    return ''.join(u)


def r1_part(cls, site, rev, clip, trimmed, motif_ok, rng, L=20):
    """alignment of R1 so that the implementation's site accessor gives `site` (C09 owns the geometry;
    a mismatch here only changes the input distribution, the abstraction is read from the implementation)"""
    body = rand_seq(rng, L - 4)
    if cls == 1:
        motif = 'CATG' if motif_ok else rng.choice(['CTTG', 'GATG', 'CATC'])
        seq = (body + motif) if rev else (motif + body)
        start = site - (L - 4) if rev else site + clip
    elif cls == 2:
        seq = rand_seq(rng, L)
        if rev:
            start = site - L - (1 if trimmed else 0)
        else:
            start = site + clip + (2 if trimmed else 1)
    else:
        seq = rand_seq(rng, L)
        start = site          # plain: span start = reference_start (soft clip does not enter)
    if clip:
        cigar = ('%dM%dS' % (L - clip, clip)) if rev else ('%dS%dM' % (clip, L - clip))
    else:
        cigar = '%dM' % L
    return {'start': max(0, start), 'rev': bool(rev), 'seq': seq, 'cigar': cigar}


def r2_part(r1, offset, same_orientation, rng, L=20):
    rev = r1['rev'] if same_orientation else (not r1['rev'])
    start = r1['start'] - offset if r1['rev'] else r1['start'] + offset
    return {'start': max(0, start), 'rev': bool(rev), 'seq': rand_seq(rng, L), 'cigar': '%dM' % L}


# ----------------------------------------------------------------------------- library simulation
def gen_cfg(rng):
    cls = rng.choice([0, 1, 1, 2, 2])
    d = rng.choice([0, 0, 1, 1, 2])
    if cls == 2:
        r = rng.choice([0, 0, 1, 2, 5])
    elif cls == 0:
        r = rng.choice([0, 0, 2, 5])
    else:
        r = rng.choice([0, 1000])
    cap = rng.choice([None] * 7 + [1, 2, 3])
    if rng.random() < 0.02:
        cap = 0
    mol = None
    if cls == 1 and rng.random() < 0.2:
        mol = 'Molecule'       # tests/test_molecule.py pairs Molecule with NlaIIIFragment
    return {'cls': cls, 'mol': mol, 'd': d, 'r': r, 'cap': cap,
            'yinv': rng.random() < 0.6, 'yover': rng.random() < 0.75}


def gen_lib(rng, big=False):
    cfg = gen_cfg(rng)
    cls, r = cfg['cls'], cfg['r']
    ncell = rng.randint(1, 8 if big else 3)
    nsite = rng.randint(1, 40 if big else 6)
    ncontig = rng.randint(1, 3)
    ulen = rng.choice([3, 3, 4, 6])
    trimmed = rng.random() < 0.5
    hist = rng.choice(['none', 'none', 'some', 'some', 'all'])
    npos = max(1, nsite // 2)
    positions = [1000 + 37 * i for i in range(npos)]
    if cls == 0 and rng.random() < 0.4:
        positions.append(0)
    upool = {}
    for p in positions:
        base = rand_seq(rng, ulen)
        pool = [base]
        for _ in range(rng.randint(0, 5)):
            kind = rng.choice(['d1', 'd1', 'd2', 'N', 'far', 'len'])
            src = rng.choice(pool)
            if kind == 'd1':
                u = mutate(rng, src, 1)
            elif kind == 'd2':
                u = mutate(rng, src, 2)
            elif kind == 'N':
                i = rng.randrange(len(src))
                u = src[:i] + 'N' + src[i + 1:]
            elif kind == 'far':
                u = rand_seq(rng, ulen)
            else:
                u = src + rng.choice(BASES) if rng.random() < 0.5 else src[:-1]
            if u and u not in pool:
                pool.append(u)
        upool[p] = pool
    reads, truth = [], []
    n = 0
    for s in range(nsite):
        pos = rng.choice(positions)
        contig = CONTIGS[rng.randrange(ncontig)]
        rev = rng.random() < 0.5
        for cell in rng.sample(range(ncell), rng.randint(1, min(ncell, 3))):
            pool = upool[pos]
            for umi in rng.sample(pool, rng.randint(1, min(len(pool), 6 if big else 3))):
                copies = rng.randint(1, 5 if big else 4)
                truth.append({'cell': cell, 'contig': contig, 'pos': pos, 'rev': rev, 'umi': umi, 'copies': copies})
                for c in range(copies):
                    u = mutate(rng, umi, 1) if rng.random() < 0.08 else umi
                    site = pos
                    if r > 0 and cls != 1 and rng.random() < 0.5:
                        site = pos + rng.randint(-r - 1, r + 1)
                    clip = rng.choice([0, 0, 0, 0, 1, 2, 3])
                    bad = rng.random() < 0.06
                    r1 = r1_part(cls, site, rev, clip, trimmed, not (bad and cls == 1), rng)
                    r2 = None
                    if rng.random() < 0.6:
                        r2 = r2_part(r1, rng.randint(25, 120), bad and cls == 2, rng)
                    spec = {'name': 'q%d' % n, 'sample': 'CELL_%d' % cell, 'umi': u, 'contig': contig, 'r1': r1, 'r2': r2,
                            'dup': False, 'qcfail': bad and (cls == 0 or rng.random() < 0.3), 'rc': None,
                            'mx': ('scCHIC384C8U3' if (cls == 2 and trimmed) else None)}
                    if hist == 'all' or (hist == 'some' and rng.random() < 0.5):
                        spec['dup'] = True
                    if hist != 'none' and rng.random() < 0.7:
                        spec['rc'] = rng.randint(0, 3)
                    reads.append(spec)
                    n += 1
    order = rng.choice(['sorted', 'shuffled', 'shuffled'])
    if order == 'sorted':
        reads.sort(key=lambda s: (s['contig'], s['r1']['start']))
    else:
        rng.shuffle(reads)
    return {'cfg': cfg, 'reads': reads, 'retag': rng.random() < 0.4, 'bam': False,
            'meta': {'truth_molecules': len(truth), 'hist': hist, 'order': order}}


def gen_truth_lib(rng, eject, big=False):
    """ground-truth stream: the generator chooses the TRUE (cell, contig, cut site, strand, UMI) of every fragment;
    PCR copies differ in soft clip at the read start (both strands), R1 length, R2 end and input duplicate flags.
    distance 0, radius 0, no cap: the molecules must be exactly the truth classes.  With eject != None the real
    ejection runs (check_eject_every small, cache_size 1000, input ordered like a coordinate-sorted BAM read
    by the mate-pair iterator: by contig and the start of the later mate); forward inserts stay below
    cache_size/2, reverse-strand R1 may have a long insert (R2 far upstream; its span END stays at the stream position)"""
    cls = rng.choice([0, 1, 1, 2, 2])
    cfg = {'cls': cls, 'mol': None, 'd': 0, 'r': 0, 'cap': None, 'yinv': True, 'yover': True}
    if eject is not None:
        cfg['eject'] = eject
        cfg['cache'] = 1000
    ncell = rng.randint(1, 8 if big else 3)
    npos = rng.randint(1, 40 if big else 8)
    ncontig = rng.randint(1, 3)
    trimmed = rng.random() < 0.5
    spacing = 1500 if cls == 0 else 37
    positions = rng.sample(range(2000, 2000 + spacing * 60, spacing), npos)
    if cls == 0 and rng.random() < 0.6:
        # first base of a contig: forward R1 at reference_start 0; reverse R1 at 25 whose R2 starts at 0
        positions += rng.sample([0, 25], rng.randint(1, 2))
    nclass_max = npos * 2 * ncell * 6 + 10
    umis = set()
    while len(umis) < min(nclass_max, 3000):
        umis.add(rand_seq(rng, 6))
    umis = sorted(umis)
    rng.shuffle(umis)
    reads, n, classes = [], 0, 0
    for pos in positions:
        # the same UMIs are reused by the twins of a position (other strand / contig / cell)
        pool = [umis.pop() for _ in range(rng.randint(1, 6 if big else 3))]
        sites = [(CONTIGS[rng.randrange(ncontig)], rng.random() < 0.5)]
        if rng.random() < 0.4:
            sites.append((sites[0][0], not sites[0][1]))
        if ncontig > 1 and rng.random() < 0.3:
            sites.append((rng.choice([c for c in CONTIGS[:ncontig] if c != sites[0][0]]), sites[0][1]))
        for contig, rev in sites:
            for cell in rng.sample(range(ncell), rng.randint(1, min(ncell, 3))):
                for umi in rng.sample(pool, rng.randint(1, len(pool))):
                    classes += 1
                    for c in range(rng.randint(1, 5 if big else 4)):
                        clip = rng.choice([0, 0, 1, 2, 3])
                        L = 20 if cls == 0 else rng.randint(20, 40)
                        r1 = r1_part(cls, pos, rev, clip if cls != 0 else 0, trimmed, True, rng, L=L)
                        r2 = None
                        if rng.random() < 0.7:
                            off = rng.randint(25, 120)
                            if rev and cls != 0 and rng.random() < 0.15:
                                off = rng.randint(600, 1900)      # long insert, R2 far upstream of a reverse R1
                            r2 = r2_part(r1, off, False, rng)
                        reads.append({'name': 'q%d' % n, 'sample': 'CELL_%d' % cell, 'umi': umi, 'contig': contig, 'r1': r1, 'r2': r2,
                                      'dup': rng.random() < 0.3, 'qcfail': False, 'rc': (rng.randint(0, 3) if rng.random() < 0.3 else None),
                                      'mx': ('scCHIC384C8U3' if (cls == 2 and trimmed) else None),
                                      'truth': [cell, contig, pos, 1 if rev else 0, umi]})
                        n += 1
    if eject is None and rng.random() < 0.6:
        rng.shuffle(reads)
    else:
        rng.shuffle(reads)
        reads.sort(key=lambda s: (s['contig'], max(s['r1']['start'], s['r2']['start'] if s['r2'] else 0)))
    return {'cfg': cfg, 'reads': reads, 'retag': False, 'bam': False, 'truth': True,
            'meta': {'truth_molecules': classes, 'eject': eject}}


def gen_cap_lib(rng):
    """one cell, one or two sites of one strand, 2-3 UMIs (some at distance 1), many PCR copies, cap 1..3, shuffled:
    several molecules share a pool and the early ones fill up (the order of the capacity test against the match test)"""
    cls = rng.choice([1, 1, 2])
    cfg = {'cls': cls, 'mol': None, 'd': rng.choice([0, 0, 1]), 'r': 0, 'cap': rng.choice([1, 1, 2, 2, 3]),
           'yinv': True, 'yover': rng.random() < 0.8, 'pool': rng.choice([0, 1])}
    base = rand_seq(rng, 4)
    umis = [base, mutate(rng, base, rng.choice([1, 2, 3])), rand_seq(rng, 4)][:rng.randint(2, 3)]
    reads, n = [], 0
    rev = rng.random() < 0.5
    for pos in [1000, 1037][:rng.randint(1, 2)]:
        for u in umis:
            for _ in range(rng.randint(1, 5)):
                r1 = r1_part(cls, pos, rev, 0, False, True, rng)
                reads.append({'name': 'q%d' % n, 'sample': 'CELL_0', 'umi': u, 'contig': 'chr1', 'r1': r1, 'r2': None,
                              'dup': rng.random() < 0.3, 'qcfail': False, 'rc': None, 'mx': None})
                n += 1
    rng.shuffle(reads)
    return {'cfg': cfg, 'reads': reads, 'retag': False, 'bam': False, 'meta': {'cap_stream': True}}


def truth_violations(lib, res):
    """C06_exact / C06_one_primary / C06_tags instantiated with the GENERATOR's keys (not the implementation's accessors)"""
    out = []
    if res.get('error'):
        return [('truth:error', 'the iterator raised %s' % res['error'])]
    truth = {}
    for s in lib['reads']:
        truth.setdefault(tuple(s['truth']), []).append(s['name'])
    tkey = {s['name']: tuple(s['truth']) for s in lib['reads']}
    spec = {s['name']: s for s in lib['reads']}
    cm = canon_impl_mols(res['pass1'])

    def show(names):
        return [{'name': x, 'truth(cell,contig,site,strand,umi)': list(tkey[x]), 'R1': '%s:%d %s %s' % (
            spec[x]['contig'], spec[x]['r1']['start'], '-' if spec[x]['r1']['rev'] else '+', spec[x]['r1']['cigar'])} for x in names]
    bad = [f['name'] for f in res['frags'] if not f['valid']]
    if bad:
        out.append(('truth:invalid', 'fragments simulated as valid were rejected: %r' % show(bad[:3])))
    got = [[x[0] for x in m[1]] for m in cm]
    for names in got:
        ks = set(tkey[x] for x in names)
        if len(ks) > 1:
            out.append(('truth:merged', 'one molecule holds fragments of %d different true molecules: %r' % (len(ks), show(names[:4]))))
    where = {}
    for i, names in enumerate(got):
        for x in names:
            where.setdefault(tkey[x], set()).add(i)
    for k, idx in where.items():
        if len(idx) > 1:
            parts = [got[i] for i in sorted(idx)]
            out.append(('truth:split', 'the PCR copies of one true molecule %r were split into %d molecules: %r'
                        % (list(k), len(idx), [show(p_[:3]) for p_ in parts[:3]])))
    for k, names in truth.items():
        flags = {x[0]: x for m in cm for x in m[1]}
        nd = [x for x in names if x in flags and flags[x][2] is False]
        if len(nd) != 1:
            out.append(('truth:primary', 'true molecule %r (%d fragments) has %d fragments not flagged duplicate: %r'
                        % (list(k), len(names), len(nd), show(nd[:4]))))
        if any(x in flags and (flags[x][3] != len(names) or flags[x][4] != len(names)) for x in names) and not out:
            out.append(('truth:tags', 'true molecule %r has %d fragments but af/TF %r'
                        % (list(k), len(names), [(flags[x][3], flags[x][4]) for x in names if x in flags][:4])))
    return out


def seq_lib(cfg, types, seq, tag):
    """a library from a sequence of fragment types (exhaustive small scopes); deterministic sequences"""
    import random
    rng = random.Random(7)
    reads = []
    for n, t in enumerate(seq):
        ty = types[t]
        r1 = r1_part(cfg['cls'], ty['site'], ty['rev'], 0, False, not ty.get('invalid'), rng)
        reads.append({'name': 'q%d' % n, 'sample': ty.get('sample', 'CELL_0'), 'umi': ty['umi'], 'contig': ty.get('contig', 'chr1'),
                      'r1': r1, 'r2': None, 'dup': bool(ty.get('dup')), 'qcfail': bool(ty.get('invalid')) and cfg['cls'] != 1,
                      'rc': None, 'mx': None})
    return {'cfg': cfg, 'reads': reads, 'retag': False, 'bam': False, 'meta': {'exhaustive': tag, 'seq': list(seq)}}


NLA_TYPES = [{'site': 1000, 'rev': False, 'umi': 'AAA'}, {'site': 1000, 'rev': False, 'umi': 'AAT', 'dup': True},
             {'site': 1000, 'rev': False, 'umi': 'ATT'}, {'site': 1000, 'rev': False, 'umi': 'ANA'},
             {'site': 1000, 'rev': True, 'umi': 'AAA'}, {'site': 1000, 'rev': False, 'umi': 'AAA', 'invalid': True}]
CHIC_TYPES = [{'site': 1000 + o, 'rev': False, 'umi': u} for o in (0, 1, 2, 3) for u in ('AAA', 'AAT')]
PLAIN_TYPES = [{'site': 1000, 'rev': False, 'umi': 'AAA'}, {'site': 1000, 'rev': False, 'umi': 'AAT'},
               {'site': 1000, 'rev': False, 'umi': 'AAA', 'contig': 'chr2'}, {'site': 1000, 'rev': True, 'umi': 'AAA'},
               {'site': 1002, 'rev': False, 'umi': 'AAA'}, {'site': 1000, 'rev': False, 'umi': 'AAA', 'sample': 'CELL_1'},
               {'site': 0, 'rev': False, 'umi': 'AAA'}]


def exhaustive_libs(tier):
    L = 4 if tier == 'quick' else 5
    libs = []

    def base(cls, d, r, cap):
        return {'cls': cls, 'mol': None, 'd': d, 'r': r, 'cap': cap, 'yinv': True, 'yover': True}
    for d in (0, 1, 2):
        for cap in (None, 2):
            if tier == 'quick' and d == 2 and cap == 2:
                continue
            for n in range(1, L + 1):
                for seq in itertools.product(range(len(NLA_TYPES)), repeat=n):
                    libs.append(seq_lib(base(1, d, 0, cap), NLA_TYPES, seq, 'nla'))
    Lc = 3 if tier == 'quick' else 4
    for d in (0, 1):
        for r in (1, 2):
            for n in range(1, Lc + 1):
                for seq in itertools.product(range(len(CHIC_TYPES)), repeat=n):
                    libs.append(seq_lib(base(2, d, r, None), CHIC_TYPES, seq, 'chic'))
    for d in (0, 1):
        for r in (0, 2):
            for n in range(1, Lc + 1):
                for seq in itertools.product(range(len(PLAIN_TYPES)), repeat=n):
                    libs.append(seq_lib(base(0, d, r, None), PLAIN_TYPES, seq, 'plain'))
    return libs


# ----------------------------------------------------------------------------- abstraction / canonical forms
def model_input(lib, frags):
    cfg = lib['cfg']
    cells = sorted(set(str(f['sample']) for f in frags))
    contigs = sorted(set(str(f['contig']) for f in frags))
    fl = []
    for i, f in enumerate(frags):
        fl.append([i, cells.index(str(f['sample'])), f['strand'], contigs.index(str(f['contig'])),
                   f['site'] if f['site'] is not None else 0, f['end'] if f['end'] is not None else 0,
                   [ord(c) for c in (f['umi'] or '')], 1 if f['valid'] else 0, 1 if f['dup'] else 0])
    c = [cfg['cls'], cfg['d'], cfg['r'], ([] if cfg['cap'] is None else [cfg['cap']]),
         1 if cfg['yinv'] else 0, 1 if cfg['yover'] else 0, 1,
         1 if cfg.get('pool', 1) == 0 else 0, 1 if cfg.get('efm') else 0]
    return [c, fl]


def is_ext(cfg):
    return cfg.get('pool', 1) == 0 or bool(cfg.get('efm'))


def unordered(mols):
    """the statements about pooling_method=0 / every_fragment_as_molecule speak of the SET of molecules"""
    return sorted(mols, key=lambda m: (str(m[1][0][0]) if m[1] else '', repr(m))) if isinstance(mols, list) else mols


def canon_model(out, frags, with_overflow=True):
    if out[0] == 0:
        return 'error:OverflowError'
    res = []
    for kind, over, tags in out[1]:
        res.append([(kind == 1) if with_overflow else None, [[frags[t[0]]['name'], t[1], bool(t[2]), t[3], t[4], bool(t[5])] for t in tags]])
    return res


def first_diff(exp, got):
    if not (isinstance(exp, list) and isinstance(got, list)):
        return exp, got
    k = next((k for k in range(max(len(exp), len(got))) if k >= len(exp) or k >= len(got) or exp[k] != got[k]), 0)
    return exp[k:k + 1], got[k:k + 1]


def uni(l):
    return l[0] if all(x == l[0] for x in l) else 'mixed:%r' % (l,)


def canon_impl_mols(mols, with_overflow=True):
    # the 'overflow' rejection reason (RR tag) is only compared on first passes: a re-read BAM carries stale RR tags
    res = []
    for m in mols:
        res.append([uni([uni(f['overflow']) for f in m]) if with_overflow else None,
                    [[f['name'], uni(f['RC']), uni(f['dup']), uni(f['af']), uni(f['TF']), uni(f['qc'])] for f in m]])
    return res


def canon_impl(res, which='pass1'):
    if res.get('error'):
        return 'error:' + res['error'].split(':')[0]
    return canon_impl_mols(res[which])


# ----------------------------------------------------------------------------- specification (python transcription
# of the statements of Props/C06.v, evaluated on the IMPLEMENTATION's output; needs no model)
def hamming(a, b):
    return sum(1 for x, y in zip(a, b) if x != y and x != 'N' and y != 'N')


def umi_close(d, a, b):
    return a == b or (d != 0 and len(a) == len(b) and hamming(a, b) <= d)


def most_common(umis):
    cnt = {}
    for u in umis:
        cnt[u] = cnt.get(u, 0) + 1
    best = None
    for u, n in cnt.items():
        if best is None or n > best[1]:
            best = (u, n)
    return best[0]


def py_accepts(cfg, f, p):
    """transcription of Model/C06.v `accepts` (= fragment.__eq__(molecule)) for a molecule consisting of the
    fragments p (no overflow fragments); used for the maximality clause C06_greedy"""
    rep = most_common([g['umi'] for g in p])
    d = cfg['d']
    ueq = f['umi'] == rep or (d != 0 and len(f['umi']) == len(rep) and hamming(f['umi'], rep) <= d)
    last = p[-1]
    if cfg['cls'] == 1 or (cfg['cls'] == 2 and cfg['r'] == 0):
        return (f['strand'], str(f['contig']), f['site'], str(f['sample'])) == \
               (last['strand'], str(last['contig']), last['site'], str(last['sample'])) and ueq
    if cfg['cls'] == 2:
        if (f['strand'], str(f['contig']), str(f['sample'])) != (last['strand'], str(last['contig']), str(last['sample'])):
            return False
        s = p[0]['site']
        for g in p[1:]:
            s = max(g['site'], s) if g['strand'] == 1 else min(g['site'], s)
        if cfg['r'] > 0 and abs(f['site'] - s) > cfg['r']:
            return False
        return ueq
    strand = 2
    for g in p:
        if g['strand'] != 2:
            strand = g['strand']
    if str(f['sample']) != str(p[0]['sample']) or f['strand'] != strand or str(f['contig']) != str(last['contig']):
        return False
    if min(abs(f['site'] - min(g['site'] for g in p)), abs(f['end'] - max(g['end'] for g in p))) > cfg['r']:
        return False
    return ueq


def py_feq(cfg, g, f):
    """transcription of Model/C06x.v feq (member g .__eq__ incoming f)"""
    d = cfg['d']
    ueq = umi_close(d, g['umi'], f['umi'])
    if cfg['cls'] == 1 or (cfg['cls'] == 2 and cfg['r'] == 0):
        return (g['strand'], str(g['contig']), g['site'], str(g['sample'])) == \
               (f['strand'], str(f['contig']), f['site'], str(f['sample'])) and ueq
    if cfg['cls'] == 2:
        if (g['strand'], str(g['contig']), str(g['sample'])) != (f['strand'], str(f['contig']), str(f['sample'])):
            return False
        return abs(g['site'] - f['site']) <= cfg['r'] and ueq
    if (str(g['sample']), g['strand'], str(g['contig'])) != (str(f['sample']), f['strand'], str(f['contig'])):
        return False
    return min(abs(g['site'] - f['site']), abs(g['end'] - f['end'])) <= cfg['r'] and ueq


def spec_violations(lib, res):
    """list of (key, text).  keys are stable identities of the violated clause."""
    cfg = lib['cfg']
    out = []
    if lib.get('truth'):
        out += truth_violations(lib, res)
        if cfg.get('eject') is not None:
            return out          # the clauses below assume the no-ejection arrival-order semantics (C07 owns the schedule)
    if res.get('error'):
        if not (cfg['cap'] is not None and cfg['cap'] <= 0):
            out.append(('error', 'the iterator raised %s' % res['error']))
        return out
    frags = {f['name']: f for f in res['frags']}
    order = {f['name']: i for i, f in enumerate(res['frags'])}
    pool0 = cfg.get('pool', 1) == 0
    efm = bool(cfg.get('efm'))
    for which in ('pass1', 'pass2'):
        mols = res.get(which)
        if mols is None:
            continue
        cm = canon_impl_mols(mols)
        # partition: every valid fragment in exactly one molecule (C06_partition)
        names = [f[0] for m in cm for f in m[1]]
        want = [f['name'] for f in res['frags'] if f['valid'] or cfg['yinv']]
        if cfg['yover'] and sorted(names) != sorted(want):
            out.append(('partition', '%s: fragments in molecules %r differ from the offered valid fragments %r'
                        % (which, sorted(names), sorted(want))))
        if len(set(names)) != len(names):
            out.append(('partition', '%s: a fragment is in two molecules' % which))
        valid_total = sum(1 for f in res['frags'] if f['valid'])
        tf_total = 0
        for over, m in cm:
            fs = [frags[x[0]] for x in m]
            n = len(m)
            # exactly one primary, RC = rank, af = size (C06_one_primary)
            nd = [x[0] for x in m if x[2] is False]
            if len(nd) != 1 or m[0][2] is not False:
                out.append(('tags:one_primary', '%s: molecule %r has %d fragments not flagged duplicate (flags %r; input flags %r)'
                            % (which, [x[0] for x in m], len(nd), [x[2] for x in m], [f['dup'] for f in fs])))
            if [x[1] for x in m] != list(range(n)):
                out.append(('tags:RC', '%s: molecule %r has RC %r' % (which, [x[0] for x in m], [x[1] for x in m])))
            if any(x[3] != n for x in m):
                out.append(('tags:af', '%s: molecule %r of size %d has af %r' % (which, [x[0] for x in m], n, [x[3] for x in m])))
            if any(x[4] != m[0][4] for x in m) or not isinstance(m[0][4], int) or m[0][4] < n or (cfg['cap'] is None and m[0][4] != n):
                out.append(('tags:TF', '%s: molecule %r of size %d has TF %r' % (which, [x[0] for x in m], n, [x[4] for x in m])))
            if all(f['valid'] for f in fs) and over is not True and isinstance(m[0][4], int):
                tf_total += m[0][4]
            if any(x[5] != (not frags[x[0]]['valid']) for x in m):
                out.append(('tags:qcfail', '%s: qcfail bits %r do not mirror validity' % (which, [(x[0], x[5]) for x in m])))
            if efm and (n != 1 or m[0][1] != 0 or m[0][2] is not False or m[0][3] != 1 or m[0][4] != 1):
                # C06_efm / C06_efm_tags: every fragment its own molecule, RC 0, not duplicate, af = TF = 1
                out.append(('efm', '%s: every_fragment_as_molecule: molecule %r has (name, RC, duplicate, af, TF, qcfail) %r'
                            % (which, [x[0] for x in m], m)))
            if n < 2:
                continue
            # soundness (C06_sound): arrival order inside the molecule, shared cell/strand/contig, site, UMI link
            if [order[x[0]] for x in m] != sorted(order[x[0]] for x in m):
                out.append(('sound:order', '%s: molecule %r not in arrival order' % (which, [x[0] for x in m])))
            for fld in ('sample', 'strand', 'contig'):
                if len(set(str(f[fld]) for f in fs)) != 1:
                    out.append(('sound:' + fld, '%s: molecule %r mixes %s %r' % (which, [x[0] for x in m], fld, [f[fld] for f in fs])))
            if not all(f['valid'] for f in fs):
                out.append(('sound:valid', '%s: molecule %r contains an invalid fragment' % (which, [x[0] for x in m])))
            if cfg['cls'] == 1 or (cfg['cls'] == 2 and cfg['r'] == 0):
                if len(set(f['site'] for f in fs)) != 1:
                    out.append(('sound:site', '%s: molecule %r mixes sites %r' % (which, [x[0] for x in m], [f['site'] for f in fs])))
            for i in range(1, n):
                pre, f = fs[:i], fs[i]
                if pool0:
                    # C06_pool0_sound: accepted by SOME earlier member (its UMI within d, its site within the radius)
                    if not any(py_feq(cfg, g, f) for g in pre):
                        out.append(('sound0:link', '%s: pooling_method=0: %s (UMI %s, site %r) joined a molecule none of whose '
                                    'members %r accepts it (distance allowed %d, radius %d)'
                                    % (which, f['name'], f['umi'], f['site'], [(g['name'], g['umi'], g['site']) for g in pre],
                                       cfg['d'], cfg['r'])))
                    continue
                if not umi_close(cfg['d'], f['umi'], most_common([g['umi'] for g in pre])):
                    out.append(('sound:umi', '%s: %s (UMI %s) joined a molecule whose representative UMI was %s (distance allowed %d)'
                                % (which, f['name'], f['umi'], most_common([g['umi'] for g in pre]), cfg['d'])))
                if cfg['cls'] == 2 and cfg['r'] > 0:
                    s = pre[0]['site']
                    for g in pre[1:]:
                        s = max(g['site'], s) if g['strand'] == 1 else min(g['site'], s)
                    if abs(f['site'] - s) > cfg['r']:
                        out.append(('sound:radius', '%s: %s (site %d) joined a molecule at site %d, radius %d'
                                    % (which, f['name'], f['site'], s, cfg['r'])))
                if cfg['cls'] == 0:
                    s = min(g['site'] for g in pre)
                    e = max(g['end'] for g in pre)
                    if min(abs(f['site'] - s), abs(f['end'] - e)) > cfg['r']:
                        out.append(('sound:radius', '%s: %s (span %d-%d) joined a molecule spanning %d-%d, radius %d'
                                    % (which, f['name'], f['site'], f['end'], s, e, cfg['r'])))
        # cap (C06_cap)
        if cfg['cap'] is not None:
            for over, m in cm:
                if len(m) > cfg['cap']:
                    out.append(('cap', '%s: molecule %r has %d fragments, max_associated_fragments = %d'
                                % (which, [x[0] for x in m], len(m), cfg['cap'])))
        # maximality (C06_greedy), evaluated without cap (no overflow fragments to account for)
        if cfg['cap'] is None and not pool0 and not efm:
            norm = [[frags[x[0]] for x in m] for over, m in cm if all(frags[x[0]]['valid'] for x in m)]
            bykey = {}
            for fs in norm:
                bykey.setdefault((fs[0]['strand'], str(fs[0]['contig']), str(fs[0]['sample'])) if cfg['cls'] else (), []).append(fs)
            for grp in bykey.values():
                for i in range(len(grp)):
                    for j in range(i + 1, len(grp)):
                        a, b = grp[i], grp[j]
                        sep = any(not py_accepts(cfg, b[0], a[:k]) for k in range(1, len(a) + 1)) or \
                            any(not py_accepts(cfg, a[0], b[:k]) for k in range(1, len(b) + 1))
                        if not sep:
                            out.append(('greedy', '%s: molecules %r and %r were split although each would have accepted the first '
                                        'fragment of the other at every moment (UMIs %r / %r, sites %r / %r, distance %d, radius %d)'
                                        % (which, [g['name'] for g in a], [g['name'] for g in b], [g['umi'] for g in a],
                                           [g['umi'] for g in b], [g['site'] for g in a], [g['site'] for g in b], cfg['d'], cfg['r'])))
        # overflow fragments (C06_overflow_singletons): one valid fragment each; as many as the molecules count in TF
        n_over = sum(1 for over, m in cm if over is True)
        for over, m in (cm if which == 'pass1' else []):
            if over is True and (len(m) != 1 or not frags[m[0][0]]['valid'] or m[0][4] != 1):
                out.append(('overflow', '%s: overflow molecule %r is not one valid fragment with TF 1' % (which, m)))
        refused = sum(m[0][4] - len(m) for over, m in cm if over is not True and isinstance(m[0][4], int)
                      and all(frags[x[0]]['valid'] for x in m))
        if which == 'pass1' and not out and ((cfg['yover'] and n_over != refused) or (not cfg['yover'] and n_over != 0)):
            out.append(('overflow', '%s: %d molecules are marked overflow, the assigned molecules count %d refused fragments '
                        'in TF (yield_overflow=%r)' % (which, n_over, refused, cfg['yover'])))
        if tf_total != valid_total and not out:
            out.append(('tags:TF_total', '%s: TF summed over the molecules = %d, valid fragments = %d' % (which, tf_total, valid_total)))
        # exactness (C06_exact): d = 0, exact site classes, no cap
        if cfg['d'] == 0 and cfg['cap'] is None and not efm and (cfg['cls'] == 1 or (cfg['cls'] == 2 and cfg['r'] == 0)):
            cl = {}
            for f in res['frags']:
                if f['valid']:
                    cl.setdefault((str(f['sample']), f['strand'], str(f['contig']), f['site'], f['umi']), []).append(f['name'])
            got = sorted(sorted(x[0] for x in m[1]) for m in cm if all(frags[x[0]]['valid'] for x in m[1]))
            exp = sorted(sorted(v) for v in cl.values())
            if got != exp:
                diff = [g for g in got if g not in exp][:3]
                out.append(('exact', '%s: with distance 0 the molecules are not the classes of identical (cell, strand, contig, site, UMI); '
                            'molecules that are no class: %r' % (which, diff)))
        # exactness with a cap (C06_exact_cap): first k of every class = the molecule, TF = class size
        if cfg['d'] == 0 and cfg['cap'] is not None and cfg['cap'] >= 1 and not efm and (cfg['cls'] == 1 or (cfg['cls'] == 2 and cfg['r'] == 0)):
            cl = {}
            for f in res['frags']:
                if f['valid']:
                    cl.setdefault((str(f['sample']), f['strand'], str(f['contig']), f['site'], f['umi']), []).append(f['name'])
            bymol = {tuple(x[0] for x in m[1]): m for m in cm}
            for v in cl.values():
                m = bymol.get(tuple(v[:cfg['cap']]))
                if m is None or m[1][0][4] != len(v):
                    out.append(('exact_cap', '%s: class %r (cap %d): expected molecule %r with TF %d, found %r'
                                % (which, v, cfg['cap'], v[:cfg['cap']], len(v), m)))
                elif cfg['yover'] and any((x,) not in bymol for x in v[cfg['cap']:]):
                    out.append(('exact_cap', '%s: class %r (cap %d): the fragments beyond the cap are not singleton molecules' % (which, v, cfg['cap'])))
    if isinstance(res.get('other'), list) and cfg['d'] == 0 and not efm and (cfg['cls'] == 1 or (cfg['cls'] == 2 and cfg['r'] == 0)):
        # C06_pool_equiv: distance 0, exact sites: pooling 0 and pooling 1 give the same molecules (any cap, any order)
        a, b = unordered(canon_impl_mols(res['pass1'])), unordered(canon_impl_mols(res['other']))
        if a != b:
            d_ = [(x, y) for x, y in zip(a, b) if x != y][:2]
            out.append(('pool_equiv', 'distance 0, exact sites: pooling_method %d and %d give different molecules; first differing %r'
                        % (cfg.get('pool', 1), 1 - cfg.get('pool', 1), d_)))
    if res.get('pass2') is not None and canon_impl_mols(res['pass2']) != canon_impl_mols(res['pass1']):
        a, b = canon_impl_mols(res['pass1']), canon_impl_mols(res['pass2'])
        d = [(x, y) for x, y in zip(a, b) if x != y][:2]
        out.append(('retag:idempotent', 're-tagging the tagged reads changed the result: first differing molecules %r' % (d,)))
    return out


# ----------------------------------------------------------------------------- the check
class Prop(fw.PropBase):
    ID = 'C06'
    PROPS = 'Props/C06.v'
    TRUSTED = [
        'tools/c06_gen.py (fail-closed translator of the __eq__ / umi_eq guard chains, the match_hash tuples composed with the '
        'stores of set_site, the add_fragment capacity decision and the write_tags tag expressions into Gen/GenAssign.v); the '
        'encoding of attributes as Z / bool parameters (None strand = 2) and the mapping of generated parameters to model '
        'attributes in Model/C06.v (accepts, key, decide, tags_from) are hand-written and sampled by K',
        'modelled not verified: the abstraction read -> (cell, strand, contig, site, span, UMI, valid) is the implementation\'s own '
        'Fragment accessors (sample, strand, site_location / span, umi, is_valid(), match_hash); the site geometry is C09\'s subject',
        'modelled not verified: pysam AlignedSegment flag/tag storage, collections.Counter / defaultdict insertion order, '
        'Python reflected __eq__ dispatch (Molecule has no __eq__)',
        'the model is the NO-ejection machine (check_eject_every=None) for pooling_method=1 (Model/C06.v) and for '
        'pooling_method=0 / every_fragment_as_molecule (Model/C06x.v); independence of the ejection schedule is C07; '
        'allele clustering is outside the model; two-iterator histories (different umi_hamming_distance / pooling / cap, '
        'advancing interleaved in one process) are tied by K only: each iterator is compared with the model of its own settings',
        'Model/C06x.v feq / accepts0 / step0 (member-by-member comparison of add_fragment(use_hash=False), flat buffer, '
        'every_fragment_as_molecule branch) are hand-written and tied by K; T regenerates only the use_hash=False decision of '
        'Molecule.add_fragment (g_add_decision0) and the use_hash keyword per pooling branch of the iterator (g_pool_use_hash; a '
        'restructured read loop falls back to the hand-held value, recorded under `generated`); offer_h / assign_h (capacity test '
        'before the match test) is NOT the code and only serves the refutation C06_cap_hoisted_refuted',
        'the two-iterator histories run each iterator in its own thread with a turn token (the source generators hand over after '
        'every read pair); CPython threads + pysam objects per thread are trusted to interleave at read-pair granularity',
        'tools/c06.py spec_violations: python transcription of the theorem statements used only to find a failing input',
    ]
    ASSUMPTIONS = ['every read carries SM and RX tags (the tagger sets them from the read name; C04/C05)',
                   'theorems about run assume it returned (max_associated_fragments >= 1 or None); cap <= 0 is modelled as the '
                   'OverflowError the Molecule constructor raises']

    def regen(self):
        return c06_gen.regen()

    # ---------------------------------------------------------------- streams
    def corpus_libs(self):
        d = os.path.join(fw.VERIF, 'corpus', 'C06')
        out = []
        if os.path.isdir(d):
            for fn in sorted(os.listdir(d)):
                if fn.endswith('.json'):
                    lib = json.load(open(os.path.join(d, fn)))
                    lib.setdefault('meta', {})['corpus'] = fn
                    out.append(lib)
        return out

    def libraries(self):
        quick = self.tier == 'quick'
        libs = self.corpus_libs()
        for _ in range(400 if quick else 5000):
            libs.append(gen_lib(self.rng, big=False))
        for _ in range(20 if quick else 500):
            libs.append(gen_lib(self.rng, big=True))
        if not quick:
            for lib in libs[::5]:
                lib['bam'] = True
        else:
            for lib in libs[:12]:
                lib['bam'] = True
        for _ in range(90 if quick else 1200):
            for eject in (None, 0, 2):
                libs.append(gen_truth_lib(self.rng, eject, big=False))
        for _ in range(4 if quick else 80):
            for eject in (None, 0, 3):
                libs.append(gen_truth_lib(self.rng, eject, big=True))
        # construction histories: one settings dict, several lazy iterators, settings changed in between
        for _ in range(40 if quick else 600):
            lib = gen_lib(self.rng, big=False)
            ds = [0, 1, 2]
            self.rng.shuffle(ds)
            lib['sweep'] = [{'d': d, 'cap': self.rng.choice([None, None, 1, 2, 3])} for d in ds]
            lib['retag'] = False
            libs.append(lib)
        libs += exhaustive_libs(self.tier)
        libs += self.extension_libs()
        return libs

    def extension_libs(self):
        """streams for Model/C06x.v (generated AFTER the streams above, which stay as they were): pooling_method=0,
        every_fragment_as_molecule, the cap stream, two-iterator histories, exhaustive small scopes with pooling 0"""
        quick = self.tier == 'quick'
        libs = []
        for k in range(160 if quick else 2500):
            lib = gen_lib(self.rng, big=(k % 16 == 15))
            lib['cfg']['pool'] = 0
            lib['retag'] = False
            lib['both'] = True
            libs.append(lib)
        for _ in range(40 if quick else 600):
            lib = gen_truth_lib(self.rng, None, big=False)
            lib['cfg']['pool'] = 0
            libs.append(lib)
        for _ in range(40 if quick else 600):
            lib = gen_lib(self.rng, big=False)
            lib['cfg']['efm'] = True
            lib['cfg']['pool'] = self.rng.choice([0, 1])
            lib['retag'] = False
            libs.append(lib)
        for _ in range(80 if quick else 1200):
            libs.append(dict(gen_cap_lib(self.rng), both=True))
        # two iterators with different settings advancing interleaved in one process
        for _ in range(40 if quick else 600):
            lib = gen_lib(self.rng, big=False)
            ds = self.rng.sample([0, 1, 2], 2)
            if self.rng.random() < 0.6:
                ds = self.rng.choice([[2, 1], [1, 2]])
            lib['duo'] = [{'d': ds[0], 'pool': self.rng.choice([0, 1, 1]), 'cap': self.rng.choice([None, None, 2])},
                          {'d': ds[1], 'pool': self.rng.choice([0, 1, 1]), 'cap': self.rng.choice([None, None, 2])}]
            lib['schedule'] = [self.rng.randrange(2) for _ in range(self.rng.randint(2, 7))]
            lib['retag'] = False
            libs.append(lib)
        L = 4 if quick else 5

        def base(cls, d, r, cap):
            return {'cls': cls, 'mol': None, 'd': d, 'r': r, 'cap': cap, 'yinv': True, 'yover': True, 'pool': 0}
        for d, cap in ((0, None), (1, None), (1, 2)) if quick else ((0, None), (0, 2), (1, None), (1, 2)):
            for n in range(1, L + 1):
                for seq in itertools.product(range(len(NLA_TYPES)), repeat=n):
                    libs.append(dict(seq_lib(base(1, d, 0, cap), NLA_TYPES, seq, 'nla-pool0'), both=(d == 0)))
        Lc = 3 if quick else 4
        for d, r in ((0, 2),) if quick else ((0, 2), (1, 2)):
            for n in range(1, Lc + 1):
                for seq in itertools.product(range(len(CHIC_TYPES)), repeat=n):
                    libs.append(seq_lib(base(2, d, r, None), CHIC_TYPES, seq, 'chic-pool0'))
        return libs

    def run_impl_libs(self, libs):
        chunks = [libs[i::4] for i in range(4)]
        from concurrent.futures import ThreadPoolExecutor
        with ThreadPoolExecutor(max_workers=4) as ex:
            rs = list(ex.map(lambda c: fw.run_impl('impl_c06.py', {'libs': [{k: v for k, v in l.items() if k != 'meta'} for l in c]})['libs'] if c else [], chunks))
        out = [None] * len(libs)
        for i in range(4):
            for j, r in enumerate(rs[i]):
                out[i + 4 * j] = r
        return out

    # ---------------------------------------------------------------- K
    def correspondence(self):
        libs = self.libraries()
        res = self.run_impl_libs(libs)
        # every iterator of a construction history becomes a library of its own (self-contained: `history` replays it)
        for l, r in list(zip(libs, res)):
            if l.get('sweep') and not r.get('error'):
                for k, sw in enumerate(l['sweep']):
                    libs.append({'cfg': dict(l['cfg'], d=sw['d'], cap=sw['cap']), 'reads': l['reads'], 'retag': False, 'bam': False,
                                 'history': {'sweep': l['sweep'], 'index': k}, 'meta': {'history_of': len(l['sweep'])}})
                    res.append(r['sweep'][k])
        for l, r in list(zip(libs, res)):
            if l.get('duo') and not r.get('error'):
                for k, sw in enumerate(l['duo']):
                    libs.append({'cfg': dict(l['cfg'], **sw), 'reads': l['reads'], 'retag': False, 'bam': False,
                                 'history': {'duo': l['duo'], 'schedule': l.get('schedule'), 'index': k},
                                 'meta': {'history_of': 2}})
                    res.append(r['duo'][k])
        self.libs, self.res = libs, res
        cov = self.cov
        nfr = sum(len(l['reads']) for l in libs)
        hist_cls, hist_d, hist_size = {}, {}, {}
        nontrivial = set()
        stats = {'libraries': len(libs), 'fragments': nfr, 'with_input_duplicate_flags': 0, 'with_invalid_fragments': 0,
                 'with_cap': 0, 'overflow_events': 0, 'radius_gt0': 0, 'retag_histories': 0, 'bam_round_trips': 0,
                 'implementation_raised': 0, 'construction_history_iterators': 0, 'plain_fragments_at_position_0': 0, 'truth_libraries': 0, 'truth_with_real_ejection': 0, 'truth_soft_clipped_reverse_R1': 0, 'molecules': 0, 'molecules_ge2': 0, 'strand_or_contig_twins': 0, 'umi_tie_events': 0,
                 'pooling_method_0': 0, 'every_fragment_as_molecule': 0, 'two_iterator_history_iterators': 0,
                 'pool0_overflow_events': 0, 'pool0_vs_pool1_partitions_differ': 0, 'pool0_vs_pool1_compared': 0}
        for l, r in zip(libs, res):
            c = l['cfg']
            stats['pooling_method_0'] += c.get('pool', 1) == 0
            stats['every_fragment_as_molecule'] += bool(c.get('efm'))
            stats['two_iterator_history_iterators'] += bool(l.get('history') and l['history'].get('duo'))
            if isinstance(r.get('other'), list) and not r.get('error'):
                stats['pool0_vs_pool1_compared'] += 1
                stats['pool0_vs_pool1_partitions_differ'] += sorted(sorted(f['name'] for f in m) for m in r['pass1']) != \
                    sorted(sorted(f['name'] for f in m) for m in r['other'])
            if c.get('pool', 1) == 0 and not r.get('error'):
                stats['pool0_overflow_events'] += sum(1 for m in r['pass1'] if any(any(f['overflow']) for f in m))
            hist_cls[CLS[c['cls']]] = hist_cls.get(CLS[c['cls']], 0) + 1
            hist_d[str(c['d'])] = hist_d.get(str(c['d']), 0) + 1
            b = min(len(l['reads']) // 10 * 10, 200)
            hist_size['%d-%d' % (b, b + 9)] = hist_size.get('%d-%d' % (b, b + 9), 0) + 1
            stats['with_cap'] += c['cap'] is not None
            stats['construction_history_iterators'] += bool(l.get('history') and l['history'].get('sweep'))
            if c['cls'] == 0:
                stats['plain_fragments_at_position_0'] += sum(1 for s_ in l['reads'] if s_['r1']['start'] == 0 or (s_['r2'] and s_['r2']['start'] == 0))
            stats['truth_libraries'] += bool(l.get('truth'))
            stats['truth_with_real_ejection'] += bool(l.get('truth')) and c.get('eject') is not None
            if l.get('truth'):
                stats['truth_soft_clipped_reverse_R1'] += sum(1 for s_ in l['reads'] if s_['r1']['rev'] and 'S' in s_['r1']['cigar'])
            stats['radius_gt0'] += (c['r'] > 0 and c['cls'] != 1)
            stats['retag_histories'] += bool(l.get('retag'))
            if r.get('error'):
                stats['implementation_raised'] += 1
                continue
            stats['bam_round_trips'] += r.get('bam') is not None
            stats['with_input_duplicate_flags'] += any(f['dup'] for f in r['frags'])
            stats['with_invalid_fragments'] += any(not f['valid'] for f in r['frags'])
            stats['molecules'] += len(r['pass1'])
            big = [m for m in r['pass1'] if len(m) >= 2]
            stats['molecules_ge2'] += len(big)
            stats['overflow_events'] += sum(1 for m in r['pass1'] if any(any(f['overflow']) for f in m))
            seen = {}
            for f in r['frags']:
                if f['valid']:
                    seen.setdefault((f['site'], f['umi'], str(f['sample'])), set()).add((f['strand'], str(f['contig'])))
            stats['strand_or_contig_twins'] += sum(1 for v in seen.values() if len(v) > 1)
            for m in big:
                us = [next(f['umi'] for f in r['frags'] if f['name'] == x['name']) for x in m]
                cnt = {}
                for u in us:
                    cnt[u] = cnt.get(u, 0) + 1
                stats['umi_tie_events'] += (sorted(cnt.values())[-2:] == [max(cnt.values())] * 2 if len(cnt) > 1 else False)
            if len(big) >= 1 and len(r['pass1']) >= 2:
                nontrivial.add(fw.canon_hash(model_input(l, r['frags'])))
        sample_idx = [i for i in (0, len(libs) // 3, len(libs) - 1) if not res[i].get('error')]
        for pred in (lambda l: l['cfg'].get('pool', 1) == 0 and l['cfg'].get('cap') and len(l['reads']) > 4,
                     lambda l: bool(l['cfg'].get('efm')) and len(l['reads']) > 2,
                     lambda l: bool(l.get('history') and l['history'].get('duo'))):
            k = next((i for i, l in enumerate(libs) if pred(l) and not res[i].get('error')), None)
            if k is not None:
                sample_idx.append(k)
        cov.update({
            'evaluations': len(libs) + stats['retag_histories'] + stats['bam_round_trips'],
            'distinct_nontrivial': len(nontrivial),
            'rule': 'simulated libraries with known truth (cells x sites on both strands and several contigs x UMI pools with distance-1/2 '
                    'neighbours, N and other lengths x PCR copies with R2 ends, soft clips, UMI errors, broken motifs/orientation/qcfail, '
                    'input duplicate flags and RC/af/TF tags, sorted or shuffled arrival) as in-memory pysam reads through the real '
                    'MoleculeIterator(check_eject_every=None) + write_tags; plus ALL sequences up to a small length over a fixed alphabet '
                    'of fragment types (single site; UMIs AAA/AAT/ATT/ANA, other strand, invalid; CHIC offsets 0..3; plain other contig/'
                    'strand/cell) for d, radius and cap variants.  non-trivial = at least one molecule with >= 2 fragments and >= 2 '
                    'molecules; distinct by hash of the abstract library (cfg + abstract fragments).  TRUTH stream: libraries whose true '
                    '(cell, contig, cut site, strand, UMI) per fragment is chosen by the generator (soft clips at the read start on both '
                    'strands, R1 lengths, R2 ends, long reverse inserts, input flags), distance 0 / radius 0: molecules of the real iterator '
                    'must be exactly the truth classes with one primary each - without ejection and with check_eject_every 0/2/3, cache 1000.  '
                    'EXTENSION streams (Model/C06x.v): the same generators with pooling_method=0 (each such library also through pooling 1: '
                    'C06_pool_equiv evaluated on the two implementation outputs when distance 0 / exact sites, difference counted otherwise), '
                    'every_fragment_as_molecule, a cap stream (one pool, 2-3 UMIs, many copies, cap 1..3, both poolings), histories of TWO '
                    'iterators with different umi_hamming_distance / pooling / cap advancing interleaved fragment by fragment in one process '
                    '(threads handing over a turn token), each compared with the model of its own settings; exhaustive NLA / CHIC scopes with pooling 0',
            'stats': stats, 'fragment_class_histogram': hist_cls, 'umi_distance_histogram': hist_d, 'library_size_histogram': hist_size,
            'samples': [{'cfg': libs[i]['cfg'], 'reads': libs[i]['reads'][:6], 'n_reads': len(libs[i]['reads']),
                         'impl_molecules': canon_impl(res[i])[:4],
                         **({'history': libs[i]['history']} if libs[i].get('history') else {})} for i in sample_idx],
            'exhaustive': False,
            'exhaustive_scopes': 'all fragment-type sequences of length <= %d (NLA alphabet 6) / <= %d (CHIC alphabet 8, plain alphabet 6); '
                                 'the NLA and CHIC scopes again with pooling_method=0'
                                 % ((4, 3) if self.tier == 'quick' else (5, 4)),
        })
        # the theorem statements (python transcription) evaluated on the implementation's output, every library
        self.spec_viol = []
        for i, (l, r) in enumerate(zip(libs, res)):
            v = spec_violations(l, r)
            if v:
                self.spec_viol.append((i, v))
        cov['spec_evaluations'] = len(libs)
        cov['spec_violations'] = len(self.spec_viol)
        if not self.model_ok:
            if self.spec_viol:
                raise fw.Broken('specification', 'the implementation violates the stated theorems on %d libraries; first: %s'
                                % (len(self.spec_viol), self.spec_viol[0][1][0][1]))
            return
        inputs, idx = [], []
        for i, (l, r) in enumerate(zip(libs, res)):
            if r.get('error'):
                # abstraction unavailable: the model can only confirm the raise for cap <= 0 (no fragments needed: any valid one)
                inputs.append(model_input(l, [{'name': 'x', 'sample': 'a', 'strand': 0, 'contig': 'c', 'site': 0, 'end': 0,
                                               'umi': 'A', 'valid': True, 'dup': False}]))
            else:
                inputs.append(model_input(l, r['frags']))
            idx.append(i)
        mo = fw.run_model('C06', 0, inputs)
        pre = fw.run_model('C06', 1, inputs)
        dis = []
        for i, (l, r) in enumerate(zip(libs, res)):
            if r.get('error'):
                exp = canon_model(mo[i], None) if mo[i][0] == 0 else 'ok'
                if exp != canon_impl(r):
                    dis.append({'lib': i, 'what': 'implementation raised', 'impl': r['error'], 'model': exp})
                continue
            if l['cfg'].get('eject') is not None:
                continue        # real ejection schedule: compared with the generator's truth only (spec_violations)
            exp = canon_model(mo[i], r['frags'])
            got = canon_impl(r)
            if is_ext(l['cfg']):
                exp, got = unordered(exp), unordered(got)
            if exp != got:
                a, b = first_diff(exp, got)
                dis.append({'lib': i, 'what': 'molecules/tags differ (first differing molecule shown)', 'model': a, 'impl': b})
            # key function: match_hash equal <=> model key equal
            kk = {}
            for f, mf in zip(r['frags'], inputs[i][1]):
                if f['valid']:
                    c = l['cfg']
                    mk = tuple(mf[1:5]) if (c['cls'] == 1 or (c['cls'] == 2 and c['r'] == 0)) else \
                        ((mf[1], mf[2], mf[3]) if c['cls'] == 2 else ())
                    kk.setdefault(f['hash'], set()).add(mk)
            rev = {}
            for h, s in kk.items():
                for mk in s:
                    rev.setdefault(mk, set()).add(h)
            if any(len(s) > 1 for s in kk.values()) or any(len(s) > 1 for s in rev.values()):
                dis.append({'lib': i, 'what': 'match_hash does not separate fragments like (strand, contig, site, cell)',
                            'impl': {h: sorted(s) for h, s in list(kk.items())[:4]}})
        # re-tagging histories: second pass on the tagged reads vs model mode 3, and vs the first pass
        rt = [i for i, (l, r) in enumerate(zip(libs, res)) if l.get('retag') and not r.get('error')]
        m3 = fw.run_model('C06', 3, [inputs[i] for i in rt]) if rt else []
        for i, o in zip(rt, m3):
            exp = canon_model(o, res[i]['frags'])
            got = canon_impl(res[i], 'pass2')
            if exp != got:
                a, b = first_diff(exp, got)
                dis.append({'lib': i, 'what': 'second pass over the tagged reads differs from the model of the re-tagging history',
                            'model': a, 'impl': b})
        # BAM round trips: the re-read file is a fresh library carrying the tags of the first run
        bt = [i for i, r in enumerate(res) if not r.get('error') and r.get('bam')]
        bin_ = [model_input(libs[i], res[i]['bam']['frags']) for i in bt]
        mb = fw.run_model('C06', 0, bin_) if bt else []
        for i, o in zip(bt, mb):
            exp = canon_model(o, res[i]['bam']['frags'], False)
            got = canon_impl_mols(res[i]['bam']['mols'], False)
            if exp != got:
                a, b = first_diff(exp, got)
                dis.append({'lib': i, 'what': 'tagging the written BAM again differs from the model', 'model': a, 'impl': b})
        cov['traces_validated_against_impl'] = len(libs) + len(rt) + len(bt)
        cov['precondition_hit_rate'] = round(sum(1 for p in pre if p == 1) / max(1, len(pre)), 4)
        cov['disagreements'] = len(dis)
        small = sorted(range(len(libs)), key=lambda i: (len(inputs[i][1]) < 3, len(inputs[i][1]) > 14, i))[:100]
        ext = [i for i in small if is_ext(libs[i]['cfg'])]
        small = small[:100 - min(40, len(ext))] + [i for i in sorted(range(len(libs)), key=lambda i: (not is_ext(libs[i]['cfg']), len(inputs[i][1]) < 3, len(inputs[i][1]) > 14, i))[:40] if i not in small[:100 - min(40, len(ext))]]
        small = small[:100]
        ok, nm, log = fw.vm_crosscheck('C06', 0, [(inputs[i], mo[i]) for i in small], run_name='run_C06x', require='Model.C06x')
        cov['vm_compute_crosscheck'] = {'cases': len(small), 'mismatches': nm}
        if not ok:
            raise fw.Broken('extraction', 'vm_compute and extracted model disagree: ' + log[-800:])
        if self.spec_viol and not dis:
            raise fw.Broken('specification', 'the implementation violates the stated theorems on %d libraries; first: %s'
                            % (len(self.spec_viol), self.spec_viol[0][1][0][1]))
        if dis:
            self.dis = dis
            d0 = dis[0]
            raise fw.Broken('correspondence', 'model and implementation disagree on %d libraries; first: %s; cfg %r; model %r; impl %r'
                            % (len(set(d['lib'] for d in dis)), d0['what'], libs[d0['lib']]['cfg'], d0.get('model'), d0.get('impl')))

    # ---------------------------------------------------------------- search
    def search(self):
        libs, res = getattr(self, 'libs', None), getattr(self, 'res', None)
        if libs is None:
            libs = self.libraries()
            res = self.run_impl_libs(libs)
        best = {}
        for l, r in zip(libs, res):
            for key, text in spec_violations(l, r):
                if key not in best or len(l['reads']) < len(best[key][0]['reads']):
                    best[key] = (l, text)
        for key, (lib, text) in sorted(best.items()):
            lib, text = self.shrink(lib, key, text)
            self.witnesses.append({'key': key, 'what': text,
                                   'input': {k_: lib[k_] for k_ in ('cfg', 'reads', 'retag', 'truth', 'history', 'both') if k_ in lib},
                                   'expected': 'see Props/C06.v: ' + {'tags': 'C06_one_primary', 'sound': 'C06_sound', 'exact': 'C06_exact',
                                                                       'partition': 'C06_partition', 'retag': 'C06_retag_idempotent',
                                                                       'error': 'C06_run_total', 'truth': 'C06_exact / C06_one_primary / C06_tags with the generator\'s truth keys', 'cap': 'C06_cap', 'greedy': 'C06_greedy', 'exact_cap': 'C06_exact_cap', 'efm': 'C06_efm / C06_efm_tags', 'pool_equiv': 'C06_pool_equiv', 'overflow': 'C06_overflow_singletons', 'sound0': 'C06_pool0_sound', 'duo': 'two iterators in one process: each must behave as if it ran alone (per-iterator umi_hamming_distance)'}.get(key.split(':')[0], 'C06')})

    def shrink(self, lib, key, text):
        """delta debugging on the read list, batches of candidates through the real implementation"""
        cur = lib
        for _ in range(14):
            n = len(cur['reads'])
            if n <= 1:
                break
            cands = []
            for k in (2, 4, 8, n):
                k = min(k, n)
                size = (n + k - 1) // k
                for j in range(k):
                    reads = cur['reads'][:j * size] + cur['reads'][(j + 1) * size:]
                    if reads and len(reads) < n:
                        cands.append(dict(cur, reads=reads, bam=False))
                if len(cands) > 60:
                    break
            rs = fw.run_impl('impl_c06.py', {'libs': [{k: v for k, v in c.items() if k != 'meta'} for c in cands]})['libs']
            nxt = None
            for c, r in sorted(zip(cands, rs), key=lambda x: len(x[0]['reads'])):
                v = [t for k2, t in spec_violations(c, r) if k2 == key]
                if v:
                    nxt = (c, v[0])
                    break
            if nxt is None:
                break
            cur, text = nxt
        return cur, text

    def replay(self, data):
        w = data.get('witness')
        if w and isinstance(w.get('input'), dict):
            lib = dict(w['input'], bam=False)
            r = fw.run_impl('impl_c06.py', {'libs': [lib]})['libs'][0]
            v = spec_violations(lib, r)
            print(json.dumps({'witness': w['what'], 'molecules_now': canon_impl(r), 'violations_now': v}, indent=1, default=str)[:6000])
            return 1 if v else 0
        return super().replay(data)
