"""C18 - allele lookups agree with the VCF in every loading mode (AlleleResolver).

K: generated VCFs x histories of runs (each run = constructor flags + query sequence) are executed on the
real class (tools/impl_c18.py) and on the extracted Coq model (mode 0); answers and the cache files left on
disk must agree exactly.  Under the theorems' precondition the answers must also equal the mode-independent
specification (Coq spec_run, mode 3) and its python transcription used by search()."""
import ast, hashlib, itertools, json, os, random, time
from concurrent.futures import ThreadPoolExecutor
import fw, py2coq
from py2coq import Untranslatable

SRC = 'singlecellmultiomics/alleleTools/alleleTools.py'
LETTERS = 'UVWXYZ'
SPACE = set(list(range(9, 14)) + list(range(28, 33)) + [133, 160, 5760] + list(range(8192, 8203)) +
            [8232, 8233, 8239, 8287, 12288])


# ============================================================================= T: translator tie
# The kernel the refinement proof hinges on is regenerated from the current source into coq/Gen/GenAlleles.v on
# every run; the machine of Model/C18.v is written WITH these definitions; Proofs/C18_s.v ("shape lemmas") connects
# them to the reference definitions the specification and the large proofs use.  Statement shapes that are not
# recognised raise Untranslatable (fail closed): the Gen file is removed and nothing is proved for that source.
CLS = 'AlleleResolver'


def _sha(t):
    return hashlib.sha256(t.encode()).hexdigest()


def U(n):
    return ast.unparse(n)


def codes(s):
    return '[' + '; '.join(str(ord(ch)) for ch in s) + ']'


class _Gen:
    def __init__(self, repo):
        self.path = os.path.join(repo, SRC)
        self.src = open(self.path).read()
        self.tree = ast.parse(self.src)
        self.chunks, self.meta = [], []

    def fn(self, name):
        f = py2coq.find_function(self.tree, CLS + '.' + name)
        if not isinstance(f, ast.FunctionDef):
            raise Untranslatable('%s is not a function' % name)
        return f

    def emit(self, node, coqname, params, body, note=''):
        seg = ast.get_source_segment(self.src, node) or U(node)
        self.chunks.append('(* source: %s line %d-%d sha256 %s %s\n   %s *)\nDefinition %s %s :=\n  %s.' % (
            SRC, node.lineno, node.end_lineno, _sha(seg), note, ' '.join(seg.split()).replace('*)', '* )').replace('(*', '( *')[:300],
            coqname, params, body))
        self.meta.append({'source': SRC, 'lines': [node.lineno, node.end_lineno], 'sha256': _sha(seg), 'coq': coqname})

    # ---- small recognisers
    @staticmethod
    def is_verbose(st):
        return isinstance(st, ast.If) and U(st.test) == 'self.verbose' and not st.orelse and \
            all(isinstance(x, ast.Expr) and isinstance(x.value, ast.Call) and U(x.value.func) == 'print' for x in st.body)

    def plain(self, stmts):
        """statements without docstrings, verbose prints and `pass`"""
        out = []
        for st in stmts:
            if isinstance(st, ast.Expr) and isinstance(st.value, ast.Constant) and isinstance(st.value.value, str):
                continue
            if self.is_verbose(st) or isinstance(st, ast.Pass):
                continue
            out.append(st)
        return out

    def expect(self, cond, what):
        if not cond:
            raise Untranslatable(what)

    def bexp(self, node, env, bools=()):
        tr = py2coq.ExprTranslator(env=env, bool_names=bools)
        return tr.b(node)

    def zexp(self, node, env):
        return py2coq.ExprTranslator(env=env).z(node)

    def const_str(self, node, what):
        self.expect(isinstance(node, ast.Constant) and isinstance(node.value, str), '%s: expected a string constant, got %s' % (what, U(node)[:80]))
        return node.value

    def fstring(self, node, env, what):
        """f'..{x}..' / plain constant / a + b  ->  Coq list Z expression over the names in env (keys: unparsed sub-expressions)"""
        u = U(node)
        if u in env:
            return env[u]
        if isinstance(node, ast.Constant) and isinstance(node.value, str):
            return codes(node.value)
        if isinstance(node, ast.JoinedStr):
            parts = []
            for v in node.values:
                if isinstance(v, ast.Constant):
                    parts.append(codes(v.value))
                elif isinstance(v, ast.FormattedValue) and v.conversion == -1 and v.format_spec is None:
                    parts.append(self.fstring(v.value, env, what))
                else:
                    raise Untranslatable('%s: f-string part outside subset: %s' % (what, U(v)[:80]))
            return '(' + ' ++ '.join(parts or ['[]']) + ')'
        if isinstance(node, ast.BinOp) and isinstance(node.op, ast.Add):
            return '(%s ++ %s)' % (self.fstring(node.left, env, what), self.fstring(node.right, env, what))
        raise Untranslatable('%s: string expression outside subset: %s' % (what, u[:120]))

    def bad_chain(self, stmts, env, bools, what):
        """a sequence of if/elif/else statements whose leaves assign True/False to `bad`  ->  let-chain over bad"""
        def leaf(body, cur):
            for st in body:
                cur = one(st, cur)
            return cur

        def one(st, cur):
            if isinstance(st, ast.Assign) and len(st.targets) == 1 and U(st.targets[0]) == 'bad' and \
                    isinstance(st.value, ast.Constant) and isinstance(st.value.value, bool):
                return 'true' if st.value.value else 'false'
            if isinstance(st, ast.If):
                return '(if %s then %s else %s)' % (self.bexp(st.test, env, bools), leaf(st.body, cur), leaf(st.orelse, cur))
            raise Untranslatable('%s: statement outside subset: %s' % (what, U(st)[:100]))
        lets = []
        for st in stmts:
            lets.append('let bad := %s in' % one(st, 'bad'))
        return '\n  '.join(lets + ['bad'])

    # ---- __init__
    def init(self):
        cls = [c for c in self.tree.body if isinstance(c, ast.ClassDef) and c.name == CLS]
        self.expect(len(cls) == 1, 'class %s not found' % CLS)
        for st in cls[0].body:
            if isinstance(st, (ast.Assign, ast.AnnAssign, ast.AugAssign)) and 'locationToAllele' in U(st):
                raise Untranslatable('locationToAllele is assigned at class level (line %d): the table would be shared by all '
                                     'resolver objects; only a per-instance table is modelled' % st.lineno)
        f = self.fn('__init__')
        top = self.plain(f.body)
        ret = [i for i, st in enumerate(top) if isinstance(st, ast.If) and U(st.test) == 'vcffile is None']
        self.expect(len(ret) == 1 and U(top[ret[0]].body[0]) == 'return', '__init__: expected `if vcffile is None: return`')
        tab = [i for i, st in enumerate(top) if U(st) == 'self.locationToAllele = get_allele_dict()']
        self.expect(len(tab) == 1 and tab[0] < ret[0], '__init__: expected one unconditional `self.locationToAllele = get_allele_dict()` '
                    'before the early return (per-instance table)')
        self.emit(top[tab[0]], 'g_table_per_instance', ': bool', 'true')
        uc = [st for st in top if isinstance(st, ast.If) and U(st.test) == 'use_cache']
        self.expect(len(uc) == 1 and not uc[0].orelse, '__init__: expected one `if use_cache:`')
        body = [U(x) for x in uc[0].body]
        self.expect('lazyLoad = True' in body and set(body) <= {'lazyLoad = True', 'self.lazyLoad = True'},
                    '__init__: body of `if use_cache:` is %r' % (body,))
        first = [i for i, st in enumerate(top) if U(st) == 'self.lazyLoad = lazyLoad']
        self.expect(len(first) == 1 and first[0] < top.index(uc[0]), '__init__: expected `self.lazyLoad = lazyLoad` before `if use_cache:`')
        others = [st for st in ast.walk(f) if isinstance(st, ast.Assign) and U(st.targets[0]) == 'self.lazyLoad'
                  and U(st) not in ('self.lazyLoad = lazyLoad', 'self.lazyLoad = True')]
        self.expect(not others, '__init__: further assignment to self.lazyLoad: %s' % (others and U(others[0])))
        self.emit(uc[0], 'g_cache_forces_lazy', ': bool', 'true' if 'self.lazyLoad = True' in body else 'false',
                  note='(use_cache also sets self.lazyLoad)')
        # region-restricted loading: the two constructor options are stored as given, before the early return, and nothing
        # else in the class assigns them (fetchChromosome / read_cached read self.region_start / self.region_end)
        for opt_ in ('region_start', 'region_end'):
            self.expect(opt_ in [a.arg for a in f.args.args], '__init__: no parameter %s' % opt_)
            st_ = [i for i, st in enumerate(top) if U(st) == 'self.%s = %s' % (opt_, opt_)]
            self.expect(len(st_) == 1 and st_[0] < ret[0], '__init__: expected one unconditional `self.%s = %s` before the early return' % (opt_, opt_))
            for n in ast.walk(cls[0]):
                tg = n.targets if isinstance(n, ast.Assign) else ([n.target] if isinstance(n, (ast.AugAssign, ast.AnnAssign)) else [])
                for t_ in tg:
                    for sub in ast.walk(t_):
                        if isinstance(sub, ast.Attribute) and sub.attr == opt_ and n is not top[st_[0]]:
                            raise Untranslatable('self.%s is assigned a second time (line %d)' % (opt_, n.lineno))
        # eager load:  if uglyMode: ... else: if not lazyLoad: self.fetchChromosome(vcffile, chrom)
        last = top[-1]
        self.expect(isinstance(last, ast.If) and U(last.test) == 'uglyMode' and len(self.plain(last.orelse)) == 1, '__init__: expected final `if uglyMode: ... else: ...`')
        el = self.plain(last.orelse)[0]
        self.expect(isinstance(el, ast.If) and U(el.test) == 'not lazyLoad' and [U(x) for x in self.plain(el.body)] == ['self.fetchChromosome(vcffile, chrom)']
                    and not self.plain(el.orelse), '__init__: eager branch is not `if not lazyLoad: self.fetchChromosome(vcffile, chrom)`')

    # ---- fetchChromosome
    def fetch(self):
        f = self.fn('fetchChromosome')
        self.expect([a.arg for a in f.args.args] == ['self', 'vcffile', 'chrom', 'clear'], 'fetchChromosome: arguments')
        top = self.plain(f.body)
        names = [U(st)[:60] for st in top]
        self.expect(len(top) == 10, 'fetchChromosome: expected 10 top-level statements, found %d: %r' % (len(top), names))
        clr, cln, flag0, flagif, cacheif, sent, untr, added, withst, wr = top
        self.expect(isinstance(clr, ast.If) and U(clr.test) == 'clear' and [U(x) for x in clr.body] == ['self.locationToAllele = get_allele_dict()']
                    and not clr.orelse, 'fetchChromosome: first statement is not `if clear: self.locationToAllele = get_allele_dict()`')
        self.expect(U(cln) == 'vcffile = self.clean_vcf_name(vcffile)', 'fetchChromosome: second statement')
        self.expect(U(flag0) == 'write_cache_file_flag = False', 'fetchChromosome: write_cache_file_flag initialisation')
        # which contigs are cached
        self.expect(isinstance(flagif, ast.If) and U(flagif.test) == 'self.use_cache' and not flagif.orelse and len(flagif.body) == 1
                    and isinstance(flagif.body[0], ast.If), 'fetchChromosome: `if self.use_cache:` deciding write_cache_file_flag')
        inner = flagif.body[0]
        self.expect([U(x) for x in inner.body] == ['write_cache_file_flag = False'] and [U(x) for x in inner.orelse] == ['write_cache_file_flag = True'],
                    'fetchChromosome: branches of the contig-name test')
        vals = inner.test.values if isinstance(inner.test, ast.BoolOp) and isinstance(inner.test.op, ast.Or) else [inner.test]
        rules = []
        for v in vals:
            if isinstance(v, ast.Call) and U(v.func) in ('chrom.startswith', 'chrom.endswith') and len(v.args) == 1 and not v.keywords:
                rules.append('(%d, %s)' % (0 if U(v.func).endswith('startswith') else 1, codes(self.const_str(v.args[0], 'contig rule'))))
            elif isinstance(v, ast.Compare) and len(v.ops) == 1 and isinstance(v.ops[0], ast.In) and U(v.comparators[0]) == 'chrom':
                rules.append('(2, %s)' % codes(self.const_str(v.left, 'contig rule')))
            else:
                raise Untranslatable('fetchChromosome: contig-name rule outside subset: %s' % U(v))
        self.emit(inner.test, 'g_nocache_rules', ': list (Z * list Z)', '[' + '; '.join(rules) + ']',
                  note='(0 startswith, 1 endswith, 2 contains: such contigs are never cached)')
        # the cache block
        self.expect(isinstance(cacheif, ast.If) and U(cacheif.test) == 'self.use_cache and write_cache_file_flag' and not cacheif.orelse,
                    'fetchChromosome: `if self.use_cache and write_cache_file_flag:`')
        cb = self.plain(cacheif.body)
        self.expect(len(cb) == 8, 'fetchChromosome: cache block has %d statements: %r' % (len(cb), [U(x)[:50] for x in cb]))
        adir, mk, name0, selif, phif, igif, suffix, exists = cb
        self.expect(U(adir) == "allele_dir = f'{os.path.abspath(vcffile)}_allele_cache/'", 'cache directory: %s' % U(adir))
        self.expect(isinstance(mk, ast.If) and U(mk.test) == 'not os.path.exists(allele_dir)', 'cache directory creation')
        self.expect(U(name0) == "cache_file_name = f'{allele_dir}/{chrom}'", 'cache file name starts as %s' % U(name0))
        self.expect(isinstance(selif, ast.If) and U(selif.test) == 'self.select_samples is not None' and not selif.orelse and len(selif.body) == 2,
                    'cache name: selection part')
        sid, app = selif.body
        self.expect(isinstance(sid, ast.Assign) and U(sid.targets[0]) == 'sample_list_id' and isinstance(sid.value, ast.Call)
                    and isinstance(sid.value.func, ast.Attribute) and sid.value.func.attr == 'join'
                    and [U(a) for a in sid.value.args] == ['sorted(list(self.select_samples))'], 'cache name: sample_list_id = %s' % U(sid.value))
        self.emit(sid, 'g_name_sel_join', ': list Z', codes(self.const_str(sid.value.func.value, 'join')))
        self.expect(isinstance(app, ast.Assign) and U(app.targets[0]) == 'cache_file_name', 'cache name: selection append')
        self.emit(app, 'g_name_sel', '(name ids : list Z) : list Z', self.fstring(app.value, {'cache_file_name': 'name', 'sample_list_id': 'ids'}, 'cache name'))

        def aug(st, test, what):
            self.expect(isinstance(st, ast.If) and U(st.test) == test and not st.orelse and len(st.body) == 1
                        and isinstance(st.body[0], ast.AugAssign) and isinstance(st.body[0].op, ast.Add)
                        and U(st.body[0].target) == 'cache_file_name', 'cache name: %s part' % what)
            return st.body[0].value
        v = aug(phif, 'not self.phased', 'phased')
        self.emit(phif, 'g_name_unphased', ': list Z', self.fstring(v, {}, 'cache name'))
        v = aug(igif, 'self.ignore_conversions', 'ignore_conversions')
        self.expect(isinstance(v, ast.BinOp) and isinstance(v.op, ast.Add) and isinstance(v.right, ast.Call)
                    and isinstance(v.right.func, ast.Attribute) and v.right.func.attr == 'join' and len(v.right.args) == 1,
                    'cache name: ignore part is %s' % U(v))
        self.emit(v.left, 'g_name_ignore_prefix', ': list Z', codes(self.const_str(v.left, 'ignore prefix')))
        self.emit(v.right.func, 'g_name_ignore_join', ': list Z', codes(self.const_str(v.right.func.value, 'join')))
        srt = v.right.args[0]
        self.expect(isinstance(srt, ast.Call) and U(srt.func) == 'sorted' and len(srt.args) == 1 and isinstance(srt.args[0], ast.GeneratorExp)
                    and len(srt.args[0].generators) == 1 and U(srt.args[0].generators[0].target) == '(ref, alt)'
                    and U(srt.args[0].generators[0].iter) == 'self.ignore_conversions' and not srt.args[0].generators[0].ifs,
                    'cache name: ignore part is not sorted(<f-string> for ref, alt in self.ignore_conversions)')
        self.emit(srt.args[0].elt, 'g_name_conv', '(ref alt : list Z) : list Z', self.fstring(srt.args[0].elt, {'ref': 'ref', 'alt': 'alt'}, 'conversion name'))
        self.expect(isinstance(suffix, ast.AugAssign) and U(suffix.target) == 'cache_file_name' and isinstance(suffix.op, ast.Add), 'cache name: suffix')
        self.emit(suffix, 'g_name_suffix', ': list Z', codes(self.const_str(suffix.value, 'suffix')))
        self.expect(isinstance(exists, ast.If) and U(exists.test) == 'os.path.exists(cache_file_name)' and not exists.orelse
                    and [U(x) for x in self.plain(exists.body)] == ['self.read_cached(cache_file_name, chrom)', 'return'],
                    'fetchChromosome: an existing cache file is not simply read and returned')
        # sentinel
        self.expect(isinstance(sent, ast.Expr) and isinstance(sent.value, ast.Call) and isinstance(sent.value.func, ast.Attribute)
                    and sent.value.func.attr == 'add' and len(sent.value.args) == 1, 'fetchChromosome: sentinel statement: %s' % U(sent))
        sub = sent.value.func.value
        self.expect(isinstance(sub, ast.Subscript) and isinstance(sub.value, ast.Subscript) and U(sub.value.value) == 'self.locationToAllele[chrom]',
                    'fetchChromosome: sentinel statement: %s' % U(sent))
        self.emit(sent, 'g_sentinel_pos', ': Z', self.zexp(sub.value.slice, {}))
        self.emit(sent, 'g_sentinel_base', ': list Z', codes(self.const_str(sub.slice, 'sentinel base')))
        self.emit(sent, 'g_sentinel_name', ': list Z', codes(self.const_str(sent.value.args[0], 'sentinel name')))
        self.expect(U(untr) == 'unTrusted = []' and U(added) == 'added = 0', 'fetchChromosome: unTrusted / added')
        # writing the cache
        self.expect(isinstance(wr, ast.If) and U(wr.test) == 'self.use_cache and write_cache_file_flag' and not wr.orelse, 'fetchChromosome: final cache write test')
        wb = self.plain(wr.body)
        self.expect(len(wb) == 1 and isinstance(wb[0], ast.Try) and [U(x) for x in self.plain(wb[0].body)] == ['self.write_cache(cache_file_name, chrom)'],
                    'fetchChromosome: final cache write')
        # the record loop
        self.expect(isinstance(withst, ast.With) and U(withst.items[0].context_expr) == 'pysam.VariantFile(vcffile)' and len(withst.body) == 1
                    and isinstance(withst.body[0], ast.Try) and len(withst.body[0].body) == 1 and isinstance(withst.body[0].body[0], ast.For),
                    'fetchChromosome: `with pysam.VariantFile(vcffile) as v: try: for rec in ...`')
        tr = withst.body[0]
        self.expect(all(len(h.body) == 1 and isinstance(h.body[0], ast.Raise) for h in tr.handlers) and not tr.orelse and not tr.finalbody,
                    'fetchChromosome: exceptions of the record loop are not simply re-raised')
        loop = tr.body[0]
        self.expect(U(loop.target) == 'rec' and U(loop.iter) == 'v.fetch(chrom, start=self.region_start, stop=self.region_end)' and not loop.orelse,
                    'fetchChromosome: record loop is `for %s in %s`' % (U(loop.target), U(loop.iter)))
        self.record(self.plain(loop.body))

    def record(self, rb):
        self.expect(len(rb) == 6, 'record loop body has %d statements: %r' % (len(rb), [U(x)[:50] for x in rb]))
        self.expect([U(x) for x in rb[:3]] == ['used = False', 'bad = False', 'bases_to_alleles = collections.defaultdict(set)'],
                    'record loop does not start with used = False; bad = False; bases_to_alleles = defaultdict(set): %r' % [U(x)[:40] for x in rb[:3]])
        ph, ig, st = rb[3:]
        self.expect(isinstance(ph, ast.If) and U(ph.test) == 'self.phased' and len(ph.body) == 1 and isinstance(ph.body[0], ast.If)
                    and U(ph.body[0].test) == 'len(rec.samples) == 0', 'record loop: `if self.phased:` / `if len(rec.samples)==0:`')
        pb = self.plain(ph.body[0].orelse)
        self.expect(len(pb) == 6, 'phased branch has %d statements: %r' % (len(pb), [U(x)[:50] for x in pb]))
        self.expect([U(x) for x in pb[:3]] == ['samples_assigned = set()', 'most_assigned_base = 0', 'monomorphic = False'],
                    'phased branch of the record loop does not start with samples_assigned = set(); most_assigned_base = 0; monomorphic = False '
                    '(the per-record reset of `monomorphic`): %r' % [U(x)[:40] for x in pb[:3]])
        sl = pb[3]
        self.expect(isinstance(sl, ast.For) and U(sl.target) == '(sample, sampleData)' and U(sl.iter) == 'rec.samples.items()' and not sl.orelse,
                    'phased branch: sample loop')
        sb = self.plain(sl.body)
        self.expect(len(sb) == 2 and isinstance(sb[0], ast.If) and [U(x) for x in sb[0].body] == ['continue'] and not sb[0].orelse,
                    'sample loop: expected `if <selection test>: continue` then the allele loop')
        self.emit(sb[0].test, 'g_select_skip', '(sel_some in_sel : bool) : bool',
                  self.bexp(sb[0].test, {'self.select_samples is not None': 'sel_some', 'sample not in self.select_samples': '(negb in_sel)',
                                         'sample in self.select_samples': 'in_sel'}))
        al = sb[1]
        self.expect(isinstance(al, ast.For) and U(al.target) == 'base' and U(al.iter) == 'sampleData.alleles' and not al.orelse, 'allele loop')
        ab = self.plain(al.body)
        self.expect(len(ab) == 2 and isinstance(ab[0], ast.If) and U(ab[0].test) == 'base is None' and not ab[0].orelse and len(ab[0].body) == 2
                    and U(ab[0].body[0]) == 'monomorphic = True' and isinstance(ab[0].body[1], (ast.Continue, ast.Break)),
                    'allele loop: expected `if base is None: monomorphic=True; continue`')
        self.emit(ab[0], 'g_missing_break', ': bool', 'true' if isinstance(ab[0].body[1], ast.Break) else 'false',
                  note='(a missing allele ends the allele loop of that sample)')
        one = ab[1]
        self.expect(isinstance(one, ast.If) and [U(x) for x in one.body] == ['bases_to_alleles[base].add(sample)', 'used = True', 'samples_assigned.add(sample)']
                    and [U(x) for x in self.plain(one.orelse)] == ['bad = True'], 'allele loop: single-base / multi-base branches: %s' % U(one)[:200])
        self.emit(one.test, 'g_single', '(n : Z) : bool', self.bexp(one.test, {'len(base)': 'n'}))
        env = {'self.select_samples is not None': 'sel_some', 'len(samples_assigned)': 'nassigned', 'len(self.select_samples)': 'nsel',
               'len(bases_to_alleles)': 'nbases', 'monomorphic': 'mono'}
        self.emit(pb[4], 'g_bad_after', '(sel_some used : bool) (nassigned nsel : Z) (mono : bool) (nbases : Z) (bad : bool) : bool',
                  self.bad_chain(pb[4:], env, ('used', 'monomorphic', 'bad'), 'flag logic after the sample loop'),
                  note='(the statements after the sample loop, first of %d)' % len(pb[4:]))
        # unphased
        ub = self.plain(ph.orelse)
        self.expect(len(ub) == 1 and isinstance(ub[0], ast.If), 'unphased branch')
        ut = ub[0].test
        self.expect(isinstance(ut, ast.UnaryOp) and isinstance(ut.op, ast.Not) and isinstance(ut.operand, ast.Call) and U(ut.operand.func) == 'all'
                    and len(ut.operand.args) == 1 and isinstance(ut.operand.args[0], ast.GeneratorExp)
                    and U(ut.operand.args[0].generators[0].target) == 'allele' and U(ut.operand.args[0].generators[0].iter) == 'rec.alleles'
                    and not ut.operand.args[0].generators[0].ifs and [U(x) for x in ub[0].body] == ['bad = True'], 'unphased branch: SNV test')
        self.emit(ut.operand.args[0].elt, 'g_unphased_single', '(n : Z) : bool', self.bexp(ut.operand.args[0].elt, {'len(allele)': 'n'}))
        ue = self.plain(ub[0].orelse)
        self.expect(len(ue) == 2 and U(ue[0]) == 'bad = False' and isinstance(ue[1], ast.For) and U(ue[1].target) == '(allele, base)'
                    and isinstance(ue[1].iter, ast.Call) and U(ue[1].iter.func) == 'zip' and len(ue[1].iter.args) == 2 and U(ue[1].iter.args[1]) == 'rec.alleles'
                    and [U(x) for x in ue[1].body] == ['bases_to_alleles[base].add(allele)', 'used = True'], 'unphased branch: naming loop')
        self.emit(ue[1].iter.args[0], 'g_letters', ': list Z', codes(self.const_str(ue[1].iter.args[0], 'allele letters')))
        # ignore_conversions
        self.expect(isinstance(ig, ast.If) and not ig.orelse and len(ig.body) == 1, 'ignore_conversions step')
        self.emit(ig.test, 'g_ignore_guard', '(bad ign_some : bool) : bool',
                  self.bexp(ig.test, {'self.ignore_conversions is not None': 'ign_some'}, ('bad',)))
        a = ig.body[0]
        ok = (isinstance(a, ast.Assign) and U(a.targets[0]) == 'bad' and isinstance(a.value, ast.Call) and U(a.value.func) == 'any'
              and len(a.value.args) == 1 and isinstance(a.value.args[0], ast.GeneratorExp))
        self.expect(ok, 'ignore_conversions step: %s' % U(a)[:120])
        ge = a.value.args[0]
        self.expect(len(ge.generators) == 1 and U(ge.generators[0].target) == 'base' and U(ge.generators[0].iter) == 'bases_to_alleles'
                    and not ge.generators[0].ifs and isinstance(ge.elt, ast.Compare) and len(ge.elt.ops) == 1 and isinstance(ge.elt.ops[0], ast.In)
                    and U(ge.elt.comparators[0]) == 'self.ignore_conversions' and isinstance(ge.elt.left, ast.Tuple) and len(ge.elt.left.elts) == 2
                    and all(U(e) in ('rec.ref', 'base') for e in ge.elt.left.elts), 'ignore_conversions test: %s' % U(ge)[:160])
        nm = {'rec.ref': 'ref', 'base': 'base'}
        self.emit(ge.elt, 'g_ignore_key', '(ref base : list Z) : list Z * list Z', '(%s, %s)' % tuple(nm[U(e)] for e in ge.elt.left.elts))
        # store
        self.expect(isinstance(st, ast.If) and not st.orelse and len(st.body) == 2 and U(st.body[1]) == 'added += 1'
                    and isinstance(st.body[0], ast.Assign) and U(st.body[0].value) == 'bases_to_alleles'
                    and isinstance(st.body[0].targets[0], ast.Subscript) and U(st.body[0].targets[0].value) == 'self.locationToAllele[rec.chrom]',
                    'store step: %s' % U(st)[:160])
        self.emit(st.test, 'g_store', '(used bad : bool) : bool', self.bexp(st.test, {}, ('used', 'bad')))
        self.emit(st.body[0], 'g_store_pos', '(pos : Z) : Z', self.zexp(st.body[0].targets[0].slice, {'rec.pos': 'pos'}))

    # ---- write_cache / read_cached
    def cache_io(self):
        f = self.fn('write_cache')
        b = self.plain(f.body)
        self.expect(len(b) == 3 and U(b[0]) == "temp_path = path + '.unfinished'" and U(b[2]) == 'os.rename(temp_path, path)'
                    and isinstance(b[1], ast.With) and U(b[1].items[0].context_expr) == "gzip.open(temp_path, 'wt')" and len(b[1].body) == 1,
                    'write_cache: expected temp file, one `with gzip.open(temp_path, \'wt\')`, rename')
        l1 = b[1].body[0]
        self.expect(isinstance(l1, ast.For) and U(l1.target) == 'position' and U(l1.iter) == 'sorted(list(self.locationToAllele[chrom].keys()))'
                    and len(l1.body) == 1 and not l1.orelse, 'write_cache: the loop over positions is not `for position in sorted(list(keys)):` with one statement '
                    '(every position of the contig is written): %s' % U(l1)[:200])
        l2 = l1.body[0]
        self.expect(isinstance(l2, ast.For) and U(l2.target) == 'base' and U(l2.iter) == 'self.locationToAllele[chrom][position]' and len(l2.body) == 1
                    and not l2.orelse and isinstance(l2.body[0], ast.Expr) and isinstance(l2.body[0].value, ast.Call)
                    and U(l2.body[0].value.func) == 'f.write' and len(l2.body[0].value.args) == 1, 'write_cache: the loop over bases')
        line = l2.body[0].value.args[0]
        joins = [n for n in ast.walk(line) if isinstance(n, ast.Call) and isinstance(n.func, ast.Attribute) and n.func.attr == 'join']
        self.expect(len(joins) == 1 and [U(a) for a in joins[0].args] == ['sorted(list(self.locationToAllele[chrom][position][base]))'],
                    'write_cache: samples are not written as <sep>.join(sorted(list(samples)))')
        self.emit(joins[0], 'g_sample_join', ': Z', str(ord(self.const_str(joins[0].func.value, 'sample separator')))
                  if len(self.const_str(joins[0].func.value, 'sample separator')) == 1 else self.expect(False, 'sample separator is not one character'))
        self.emit(line, 'g_line', '(pos base samples : list Z) : list Z',
                  self.fstring(line, {'position': 'pos', 'base': 'base', U(joins[0]): 'samples'}, 'cache line'))
        f = self.fn('read_cached')
        b = self.plain(f.body)
        self.expect(len(b) == 1 and isinstance(b[0], ast.With) and U(b[0].items[0].context_expr) == "gzip.open(path, 'rt')" and len(b[0].body) == 1
                    and isinstance(b[0].body[0], ast.For) and U(b[0].body[0].target) == 'line' and U(b[0].body[0].iter) == 'f', 'read_cached: file loop')
        lb = self.plain(b[0].body[0].body)
        self.expect(len(lb) == 5, 'read_cached: loop body has %d statements: %r' % (len(lb), [U(x)[:60] for x in lb]))
        sp, cv, skip, stop, store = lb
        ok = (isinstance(sp, ast.Assign) and U(sp.targets[0]) == '(position, base, samples)' and isinstance(sp.value, ast.Call)
              and U(sp.value.func) == 'line.strip().split' and 1 <= len(sp.value.args) <= 2 and not sp.value.keywords)
        self.expect(ok, 'read_cached: field split: %s' % U(sp)[:120])
        sep = self.const_str(sp.value.args[0], 'field separator')
        self.expect(len(sep) == 1, 'field separator is not one character')
        if len(sp.value.args) == 2:
            self.expect(isinstance(sp.value.args[1], ast.Constant) and sp.value.args[1].value == 3, 'read_cached: maxsplit is not 3')
        self.emit(sp, 'g_field_sep', ': Z', str(ord(sep)))
        self.expect(U(cv) == 'position = int(position)', 'read_cached: position = int(position)')
        self.expect(isinstance(skip, ast.If) and [U(x) for x in skip.body] == ['continue'] and not skip.orelse, 'read_cached: region_start filter')
        self.expect(isinstance(stop, ast.If) and [U(x) for x in stop.body] == ['break'] and not stop.orelse, 'read_cached: region_end filter')
        self.emit(skip.test, 'g_read_skip', '(has_start : bool) (position start : Z) : bool',
                  self.bexp(skip.test, {'self.region_start is not None': 'has_start', 'self.region_start': 'start'}))
        self.emit(stop.test, 'g_read_stop', '(has_end : bool) (position end_ : Z) : bool',
                  self.bexp(stop.test, {'self.region_end is not None': 'has_end', 'self.region_end': 'end_'}))
        ok = (isinstance(store, ast.Assign) and U(store.targets[0]) == 'self.locationToAllele[chrom][position][base]' and isinstance(store.value, ast.Call)
              and U(store.value.func) == 'set' and len(store.value.args) == 1 and isinstance(store.value.args[0], ast.Call)
              and U(store.value.args[0].func) == 'samples.split' and len(store.value.args[0].args) == 1)
        self.expect(ok, 'read_cached: store statement: %s' % U(store)[:120])
        ssep = self.const_str(store.value.args[0].args[0], 'sample separator')
        self.expect(len(ssep) == 1, 'sample separator is not one character')
        self.emit(store, 'g_sample_split', ': Z', str(ord(ssep)))

    # ---- the two lookups
    def lookups(self):
        for name in ('has_location', 'getAllelesAt'):
            f = self.fn(name)
            b = self.plain(f.body)
            first = b[0]
            ok = (isinstance(first, ast.If) and U(first.test) == 'self.lazyLoad and chrom not in self.locationToAllele' and not first.orelse
                  and len(first.body) == 1 and isinstance(first.body[0], ast.Try)
                  and [U(x) for x in first.body[0].body] == ['self.fetchChromosome(self.vcffile, chrom, clear=True)'] and len(first.body[0].handlers) == 1)
            self.expect(ok, '%s: lazy fetch is not `if self.lazyLoad and chrom not in self.locationToAllele: try: self.fetchChromosome(self.vcffile, chrom, clear=True)`' % name)
            hb = self.plain(first.body[0].handlers[0].body)
            rest = [U(x) for x in b[1:]]
            if name == 'has_location':
                inv = [x for x in hb if isinstance(x, ast.If) and U(x.test) == "'invalid contig' in str(e)"]
                self.expect(len(inv) == 1 and len(self.plain(inv[0].body)) == 1 and isinstance(self.plain(inv[0].body)[0], ast.Return)
                            and isinstance(self.plain(inv[0].body)[0].value, ast.Constant) and isinstance(self.plain(inv[0].body)[0].value.value, bool),
                            'has_location: the `invalid contig` handler does not return a constant')
                self.emit(inv[0], 'g_has_invalid_contig', ': bool', 'true' if self.plain(inv[0].body)[0].value.value else 'false')
                others = [x for x in hb if x is not inv[0] and not (isinstance(x, ast.If) and 'fetch requires an index' in U(x.test))
                          and not (isinstance(x, ast.Expr) and U(x).startswith('print('))]
                self.expect(not others, 'has_location: handler statement outside subset: %s' % (others and U(others[0])[:80]))
                self.expect(rest == ['if chrom not in self.locationToAllele or pos not in self.locationToAllele[chrom]:\n    return False', 'return True'],
                            'has_location: final tests: %r' % (rest,))
            else:
                others = [x for x in hb if not (isinstance(x, ast.If) and 'fetch requires an index' in U(x.test))
                          and not (isinstance(x, ast.Expr) and U(x).startswith('print('))]
                self.expect(not others, 'getAllelesAt: handler statement outside subset: %s' % (others and U(others[0])[:80]))
                self.expect(rest == ['if chrom not in self.locationToAllele or pos not in self.locationToAllele[chrom]:\n    return None',
                                     'if base not in self.locationToAllele[chrom][pos]:\n    return None',
                                     'return self.locationToAllele[chrom][pos][base]'], 'getAllelesAt: final tests: %r' % (rest,))


    # ---- getAllele(reads): a fresh set, filled from getAllelesAt answers; the table's own sets are never modified
    def get_allele(self):
        f = self.fn('getAllele')
        b = self.plain(f.body)
        self.expect(len(b) == 3 and U(b[0]) == 'alleles = set()' and U(b[2]) == 'return alleles' and isinstance(b[1], ast.For)
                    and U(b[1].target) == 'read' and U(b[1].iter) == 'reads' and not b[1].orelse,
                    'getAllele: expected `alleles = set()`, one loop over reads, `return alleles` (a fresh result set): %r' % [U(x)[:50] for x in b])
        rb = self.plain(b[1].body)
        self.expect(len(rb) == 3 and isinstance(rb[0], ast.If) and U(rb[0].test) == 'read is None or read.is_unmapped'
                    and [U(x) for x in rb[0].body] == ['continue'] and U(rb[1]) == 'chrom = read.reference_name'
                    and isinstance(rb[2], ast.For) and U(rb[2].target) == '(readPos, refPos)'
                    and U(rb[2].iter) == 'read.get_aligned_pairs(matches_only=True)' and not rb[2].orelse, 'getAllele: read loop')
        pb = self.plain(rb[2].body)
        self.expect(len(pb) == 3 and U(pb[0]) == 'readBase = read.query_sequence[readPos]'
                    and U(pb[1]) == 'c = self.getAllelesAt(chrom, refPos, readBase)' and isinstance(pb[2], ast.If) and not pb[2].orelse
                    and [U(x) for x in pb[2].body] == ['alleles.update(c)'], 'getAllele: aligned-pair loop: %r' % [U(x)[:60] for x in pb])
        self.emit(pb[2].test, 'g_allele_keep', '(some : bool) (n : Z) : bool', self.bexp(pb[2].test, {'c is not None': 'some', 'len(c)': 'n'}))
        # no other method may modify a set or dict of the table in place
        for fn_ in [n for n in ast.walk(self.tree) if isinstance(n, ast.FunctionDef)]:
            if fn_.name in ('fetchChromosome', 'read_cached', 'addAlleleInfoOneBased', '__init__'):
                continue
            for n in ast.walk(fn_):
                if isinstance(n, ast.Call) and isinstance(n.func, ast.Attribute) and n.func.attr in ('update', 'add', 'discard', 'remove', 'pop', 'clear') \
                        and U(n.func.value) != 'alleles':
                    raise Untranslatable('%s: in-place modification %s (line %d) outside the loaders' % (fn_.name, U(n)[:60], n.lineno))
                if isinstance(n, (ast.Assign, ast.AugAssign)) and 'locationToAllele' in U(n.targets[0] if isinstance(n, ast.Assign) else n.target):
                    raise Untranslatable('%s: assignment into the allele table (line %d) outside the loaders' % (fn_.name, n.lineno))


def regen_alleles():
    g = _Gen(fw.REPO)
    g.init()
    g.fetch()
    g.cache_io()
    g.lookups()
    g.get_allele()
    py2coq.write_gen(os.path.join(fw.COQ, 'Gen', 'GenAlleles.v'), '', g.chunks)
    return g.meta


# ----------------------------------------------------------------------------- abstraction of a case
def rec_alleles(r):
    return [r['ref']] + list(r['alts'])


def rec_gts(r):
    """what pysam reports as sampleData.alleles: GT indices resolved to allele strings, '.' -> None"""
    al = rec_alleles(r)
    return [[None if a is None else al[a] for a in g] for g in r['gts']]


def opt(x, f=lambda y: y):
    return [] if x is None else [f(x)]


def cfg_val(cf):
    return [1 if cf['phased'] else 0, opt(cf['select'], lambda l: [fw.to_val(s) for s in l]),
            opt(cf['ignore'], lambda l: [[fw.to_val(a), fw.to_val(b)] for a, b in l]),
            1 if cf['lazy'] else 0, 1 if cf['cache'] else 0, opt(cf['chrom'], fw.to_val)]


# ---- region-restricted loading: a run's settings may carry 'rstart' / 'rend' (region_start / region_end; absent = None)
MAXPOS = 2 ** 31 - 1


def win_of(cf):
    return (cf.get('rstart'), cf.get('rend'))


def has_window(cf):
    return win_of(cf) != (None, None)


def case_windowed(case):
    return any(has_window(run['cfg']) for run in case['history'])


def xcfg_val(cf):
    """Model/C18x.dec_xcfg: the six settings of cfg_val followed by [region_start] / [] and [region_end] / []"""
    return cfg_val(cf) + [opt(cf.get('rstart')), opt(cf.get('rend'))]


def win_bounds(w):
    return (0 if w[0] is None else w[0], MAXPOS if w[1] is None else w[1])


def win_valid(w):
    """HTSFile.parse_region accepts the coordinates (Model/C18x.win_valid)"""
    lo, hi = win_bounds(w)
    return 0 <= lo < MAXPOS and hi <= MAXPOS and lo <= hi


def rec_in_win(w, r):
    """the tabix iterator returns the record: [pos-1, pos-1+len(REF)) meets [lo, hi)  (Model/C18x.rec_in_win)"""
    lo, hi = win_bounds(w)
    return lo < hi and r['pos'] - 1 < hi and lo < r['pos'] - 1 + len(r['ref'])


def in_win(w, p):
    lo, hi = win_bounds(w)
    return lo <= p < hi


def veff(vcf, cf):
    """the records a run can see (Model/C18x.veff): everything for the eager load of all contigs (v.fetch(None, start,
    stop) ignores the coordinates), nothing under unacceptable coordinates, else the records overlapping the window"""
    w = win_of(cf)
    if w == (None, None) or (not is_lazy(cf) and cf['chrom'] is None):
        return vcf
    if not win_valid(w):
        return dict(vcf, records=[])
    return dict(vcf, records=[r for r in vcf['records'] if rec_in_win(w, r)])


def hist_inside(case):
    """every query of every run lies inside that run's (acceptable) window (Model/C18x.hist_inside)"""
    for run in expand_case(case)['history']:
        w = win_of(run['cfg'])
        if not win_valid(w) or not all(in_win(w, q[2]) for q in run['queries']):
            return False
    return True


# ---- getAllele(reads): an operation [2, reads]; a read = {'chrom','pos','seq','cigar'} or None
def aligned_pairs(read):
    """pysam's get_aligned_pairs(matches_only=True) for M/=/X, I, D, N, S operations"""
    out, qp, rp = [], 0, read['pos']
    for op, ln in read['cigar']:
        if op in (0, 7, 8):
            out += [(qp + k, rp + k) for k in range(ln)]
            qp += ln; rp += ln
        elif op in (1, 4):
            qp += ln
        elif op in (2, 3):
            rp += ln
    return out


def read_sites(reads):
    """the getAllelesAt calls getAllele(reads) makes, in order"""
    out = []
    for r in reads:
        if r is None or r.get('unmapped'):
            continue
        for qp, rp in aligned_pairs(r):
            out.append([0, r['chrom'], rp, r['seq'][qp]])
    return out


def expand_run(run):
    """(run with getAllele operations replaced by their getAllelesAt calls, plan to fold the answers back)"""
    qs, plan = [], []
    for q in run['queries']:
        if q[0] == 2:
            sub = read_sites(q[1])
            plan.append(('all', list(range(len(qs), len(qs) + len(sub)))))
            qs += sub
        else:
            plan.append(('q', len(qs)))
            qs.append(q)
    return dict(run, queries=qs), plan


def fold_alleles(answers):
    """alleles = set(); for c in answers: if c is not None and len(c) == 1: alleles.update(c)"""
    if any(a == -1 for a in answers):
        return -1
    names = set()
    for a in answers:
        if isinstance(a, list) and len(a) == 1 and len(a[0]) == 1:
            names.add(tuple(a[0][0]))
    return [[list(n) for n in sorted(names)]]


def fold_run(plan, answers):
    if answers == [-1]:
        return [-1]
    return [answers[e[1]] if e[0] == 'q' else fold_alleles([answers[k] for k in e[1]]) for e in plan]


def expand_case(case):
    return {'vcf': case['vcf'], 'history': [expand_run(run)[0] for run in case['history']]}


def case_val(case, x=False):
    """model input; x=True: settings with the window fields (modes 10.. of Model/C18x.run_C18x)"""
    case = expand_case(case)
    v = case['vcf']
    recs = [[fw.to_val(r['chrom']), r['pos'], fw.to_val(r['ref']), [fw.to_val(a) for a in r['alts']],
             [[opt(a, fw.to_val) for a in g] for g in rec_gts(r)]] for r in v['records']]
    hist = [[(xcfg_val if x else cfg_val)(run['cfg']), [[q[0], fw.to_val(q[1]), q[2]] + ([fw.to_val(q[3])] if q[0] == 0 else [])
                                                         for q in run['queries']]] for run in case['history']]
    return [[[fw.to_val(c) for c in v['contigs']], [fw.to_val(s) for s in v['samples']], recs], hist]


def canon_impl_run(run):
    """impl answers -> the model's encoding (None -> [], set -> [[names]], bool -> 0/1, ctor raise -> [-1])"""
    if run and run[0] == 'RAISE':
        return [-1]
    out = []
    for a in run:
        if a is None:
            out.append([])
        elif isinstance(a, bool):
            out.append(1 if a else 0)
        elif isinstance(a, list):
            out.append([[fw.to_val(s) for s in a]])
        else:
            out.append(['ERR', a.get('error', '?')])
    return out


# ----------------------------------------------------------------------------- python transcription of the Coq specification
def single(a):
    return len(a) == 1


def selected(cf, s):
    return cf['select'] is None or s in cf['select']


def ign_mem(cf, a, b):
    return cf['ignore'] is not None and any(x[0] == a and x[1] == b for x in cf['ignore'])


def informativeb(cf, samples, r):
    if cf['phased']:
        gts = rec_gts(r)
        sel = [al for s, g in zip(samples, gts) if selected(cf, s) for al in g]
        bases = sorted(set(a for a in sel if a is not None and single(a)))
        assigned = set(s for s, g in zip(samples, gts) if selected(cf, s) and any(a is not None and single(a) for a in g))
        if not bases:
            return False
        if not any(a is None for a in sel):
            if len(bases) < 2 or any(a is not None and not single(a) for a in sel):
                return False
            if cf['select'] is not None and len(assigned) != len(cf['select']):
                return False
        return not any(ign_mem(cf, r['ref'], b) for b in bases)
    al = rec_alleles(r)
    return all(single(a) for a in al) and not any(ign_mem(cf, r['ref'], b) for b in al[:6])


def carriers(cf, samples, r, b):
    if cf['phased']:
        return sorted(set(s for s, g in zip(samples, rec_gts(r)) if selected(cf, s) and single(b) and b in g))
    return sorted(set(l for l, a in zip(LETTERS, rec_alleles(r)) if a == b))


def is_lazy(cf):
    return cf['lazy'] or cf['cache']


def spec_run(vcf, run):
    xr, plan = expand_run(run)
    return fold_run(plan, spec_run_raw(vcf, xr))


def spec_run_raw(vcf, run):
    cf = run['cfg']
    if not is_lazy(cf) and cf['chrom'] is not None and cf['chrom'] not in vcf['contigs']:
        return [-1]
    if has_window(cf):
        # Model/C18x.spec_run_x: the eager load of one contig raises for unacceptable coordinates; otherwise the
        # specification below on the records the run can see
        if not is_lazy(cf) and cf['chrom'] is not None and not win_valid(win_of(cf)):
            return [-1]
        vcf = veff(vcf, cf)
    out = []
    for q in run['queries']:
        c, p = q[1], q[2]
        rec = None
        if is_lazy(cf) or cf['chrom'] is None or cf['chrom'] == c:
            for r in vcf['records']:
                if r['chrom'] == c and r['pos'] - 1 == p and informativeb(cf, vcf['samples'], r):
                    rec = r
        if q[0] == 0:
            ss = carriers(cf, vcf['samples'], rec, q[3]) if rec is not None else []
            out.append([[fw.to_val(s) for s in ss]] if ss else [])
        else:
            out.append(1 if rec is not None else 0)
    return out


def cacheable(c):
    return not (c.startswith('KN') or c.startswith('KZ') or c.startswith('chrUn') or c.endswith('_random') or 'ERCC' in c)


def cache_name(cf, c):
    n = c
    if cf['select'] is not None:
        n += '_' + '-'.join(sorted(cf['select']))
    if not cf['phased']:
        n += '_unphased'
    if cf['ignore']:
        n += '_ignore-' + '-'.join(sorted('%sto%s' % (a, b) for a, b in cf['ignore']))
    return n + '.tsv.gz'


def same_sem(a, b):
    if a['phased'] != b['phased']:
        return False
    if (a['select'] is None) != (b['select'] is None):
        return False
    if a['select'] is not None and (len(a['select']) != len(b['select']) or set(a['select']) != set(b['select'])):
        return False
    return set(map(tuple, a['ignore'] or [])) == set(map(tuple, b['ignore'] or []))


def name_ok(s):
    """what the cache line format supports: no tab/newline/comma; blanks allowed except as the last character"""
    return len(s) > 0 and ord(s[-1]) not in SPACE and all(ch not in '\t\n\r,' for ch in s)


def precondition(case):
    """python transcription of  vcf_ok && hist_ok  (Model/C18.v); for a history with windows of  vcf_ok_x && hist_ok_x
    (Model/C18x.v) - the same conditions plus the three window clauses marked below"""
    v = case['vcf']
    if not v['samples'] or not all(name_ok(s) for s in v['samples']):
        if v['records']:
            return False
    for r in v['records']:
        if r['chrom'] not in v['contigs']:
            return False
        if any(ch in '\t\n\r' for a in rec_alleles(r) for ch in a):
            return False
    if case_windowed(case):
        # vcf_ok_x: 1-based positions below 2^31, a non-empty REF
        if not all(1 <= r['pos'] <= MAXPOS and len(r['ref']) >= 1 for r in v['records']):
            return False
    keys = []
    for run in expand_case(case)['history']:
        for q in run['queries']:
            if q[2] < 0:
                return False
            # qpos_ok: a run through the cache is not asked about positions before its region_start
            if run['cfg']['cache'] and run['cfg'].get('rstart') is not None and q[2] < run['cfg']['rstart']:
                return False
            keys.append((run['cfg'], q[1]))
    seen = {}
    for cf, c in keys:
        n = cache_name(cf, c)
        for cf2, c2 in seen.get(n, []):
            if not (c == c2 and same_sem(cf, cf2)):
                return False
            # names_ok_x: two runs going through one cache file use the same window
            if cf['cache'] and cf2['cache'] and win_of(cf) != win_of(cf2):
                return False
        seen.setdefault(n, []).append((cf, c))
    return True


# ----------------------------------------------------------------------------- generators
CONTIG_POOL = ['chr1', 'chr2', '1', 'X', 'chr1_S1', 'chr2_unphased', 'chrUn_7', 'KN1', 'c_random', 'xERCCy', 'chrM']
SAMPLE_POOL = ['S1', 'S2', 'S3', 'A', 'B-1', 'x_y', 'NA12878', 'S1-S2', 'unphased', 'b6', 'CAST.EiJ', 'donor 1', 'my sample x',
               ' lead', 'donor  2', 'tail ']
BASES = 'ACGT'


def gen_vcf(rng, big=False):
    nc = rng.choice([1, 2, 2, 3, 4])
    contigs = rng.sample(CONTIG_POOL, nc)
    if rng.random() < 0.6 and 'chr1' not in contigs:
        contigs[0] = 'chr1'
    ns = rng.choice([1, 2, 2, 3, 3, 4])
    samples = rng.sample(SAMPLE_POOL, ns)
    if rng.random() < 0.5:
        samples = ['S%d' % (i + 1) for i in range(ns)]
    records = []
    maxpos = 12 if not big else 40
    for c in contigs:
        if rng.random() < 0.15:
            continue                      # declared contig without records
        n = rng.choice([1, 2, 3, 4, 6] if not big else [5, 10, 20])
        poss = sorted(rng.randint(1, maxpos) for _ in range(n))
        for pos in poss:
            kind = rng.random()
            ref = rng.choice(BASES)
            if kind < 0.12:
                ref = ref + rng.choice(BASES)               # deletion-like site
            nalt = rng.choice([0, 1, 1, 1, 1, 2, 2, 3])
            alts = []
            while len(alts) < nalt:
                k = rng.random()
                a = rng.choice(BASES) if k < 0.72 else (rng.choice(BASES) + rng.choice(BASES) if k < 0.86 else ('*' if k < 0.93 else '<DEL>'))
                if a != ref and a not in alts:
                    alts.append(a)
            gts = []
            style = rng.random()
            for s in samples:
                ploidy = rng.choice([1, 2, 2, 2, 2, 3])
                if style < 0.25:
                    g = [rng.randint(0, len(alts))] * ploidy            # homozygous everywhere
                elif style < 0.35:
                    g = [0] * ploidy                                    # monomorphic site
                else:
                    g = [None if rng.random() < 0.12 else rng.randint(0, len(alts)) for _ in range(ploidy)]
                if rng.random() < 0.07:
                    g = [None] * ploidy
                gts.append(g)
            records.append({'chrom': c, 'pos': pos, 'ref': ref, 'alts': alts, 'gts': gts,
                            'sep': rng.choice(['|', '|', '/'])})
    return {'contigs': contigs, 'samples': samples, 'records': records}


def gen_cfg(rng, vcf):
    samples = vcf['samples']
    k = rng.random()
    if k < 0.45:
        select = None
    else:
        select = rng.sample(samples, rng.randint(1, len(samples)))
        if rng.random() < 0.1:
            select.append('ZZ')
        if rng.random() < 0.06:
            select.append(select[0])
        if rng.random() < 0.04:
            select = []
    k = rng.random()
    if k < 0.45:
        ignore = None
    elif k < 0.52:
        ignore = []
    elif k < 0.75:
        ignore = [['C', 'T'], ['G', 'A']]
    else:
        ignore = [[rng.choice(BASES), rng.choice(BASES + '*')] for _ in range(rng.randint(1, 3))]
        ignore = [list(x) for x in sorted(set(map(tuple, ignore)))]
    k = rng.random()
    chrom = None if k < 0.75 else (rng.choice(vcf['contigs']) if k < 0.95 else 'chrZ')
    return {'phased': rng.random() < 0.75, 'select': select, 'ignore': ignore, 'lazy': rng.random() < 0.5,
            'cache': rng.random() < 0.5, 'chrom': chrom}


def gen_read(rng, vcf, contig=None):
    """an aligned read over several sites of one contig; at a site its base is one of the record's alleles (so the
    bases of one read usually belong to different samples), elsewhere a random base"""
    recs = vcf['records']
    contig = contig or (rng.choice(recs)['chrom'] if recs and rng.random() < 0.9 else rng.choice(vcf['contigs'] + ['chrZ']))
    here = sorted(r['pos'] - 1 for r in recs if r['chrom'] == contig)
    start = max(0, (rng.choice(here) if here else rng.randint(0, 8)) - rng.randint(0, 3))
    k = rng.random()
    if k < 0.6:
        cigar = [[0, rng.randint(4, 14)]]
    elif k < 0.8:
        cigar = [[4, rng.randint(1, 2)], [0, rng.randint(2, 6)], [2, rng.randint(1, 2)], [0, rng.randint(2, 6)]]
    else:
        cigar = [[0, rng.randint(2, 6)], [1, rng.randint(1, 2)], [0, rng.randint(2, 6)], [4, 1]]
    qlen = sum(l for o, l in cigar if o in (0, 1, 4))
    seq = [rng.choice(BASES) for _ in range(qlen)]
    read = {'chrom': contig, 'pos': start, 'seq': '', 'cigar': cigar}
    for qp, rp in aligned_pairs(read):
        at = [r for r in recs if r['chrom'] == contig and r['pos'] - 1 == rp]
        if at and rng.random() < 0.9:
            al = [a for a in rec_alleles(rng.choice(at)) if len(a) == 1 and a in 'ACGTN']     # BAM cannot store '*'
            if al:
                seq[qp] = rng.choice(al)
    read['seq'] = ''.join(seq)
    if rng.random() < 0.04:
        read['unmapped'] = True
    return read


def gen_reads(rng, vcf):
    reads = [gen_read(rng, vcf) for _ in range(rng.choice([1, 1, 2]))]
    if rng.random() < 0.1:
        reads.insert(rng.randrange(len(reads) + 1), None)
    return reads


def gen_getallele_case(rng):
    """getAllele(reads) must not change the table: lookups before and after a read that shows S1's base at one site
    and S2's base at a later one"""
    samples = ['S1', 'S2'] + (['S3'] if rng.random() < 0.4 else [])
    contig = rng.choice(['chr1', 'chr2', 'X'])
    poss = sorted(rng.sample(range(2, 13), rng.choice([2, 3, 4])))
    records = []
    for pos in poss:
        ref = rng.choice(BASES)
        alt = rng.choice([b for b in BASES if b != ref])
        g = [[0, 0], [1, 1]] + ([[rng.choice([0, 1])] * 2] if len(samples) == 3 else [])
        if rng.random() < 0.5:
            g[0], g[1] = g[1], g[0]
        records.append({'chrom': contig, 'pos': pos, 'ref': ref, 'alts': [alt], 'gts': g, 'sep': '|'})
    vcf = {'contigs': [contig, 'chrM'], 'samples': samples, 'records': records}
    start = poss[0] - 1 - rng.randint(0, 1)
    ln = poss[-1] - start + rng.randint(0, 2)
    seq = [rng.choice(BASES) for _ in range(ln)]
    for k, r in enumerate(records):
        who = k % 2                                    # alternate between the two samples along the read
        seq[r['pos'] - 1 - start] = rec_alleles(r)[r['gts'][who][0]]
    read = {'chrom': contig, 'pos': start, 'seq': ''.join(seq), 'cigar': [[0, ln]]}
    look = [[0, contig, r['pos'] - 1, b] for r in records for b in rec_alleles(r)]
    rng.shuffle(look)
    qs = look[:4] + [[2, [read]]] + look + [[2, [read]]] + look[:3]
    sel = None if len(samples) == 2 or rng.random() < 0.5 else ['S1', 'S2']
    hist = []
    for lz, ca in rng.sample([(False, False), (True, False), (True, True), (False, True)], rng.choice([2, 3])):
        hist.append({'cfg': {'phased': True, 'select': sel, 'ignore': None, 'lazy': lz, 'cache': ca, 'chrom': None}, 'queries': qs})
    return {'vcf': vcf, 'history': hist}


def gen_queries(rng, vcf, n=None):
    contigs = list(vcf['contigs']) + (['chrZ'] if rng.random() < 0.5 else [])
    sites = [(r['chrom'], r['pos'] - 1, r) for r in vcf['records']]
    n = n or rng.randint(4, 14)
    qs = []
    cur = rng.choice(contigs)
    for _ in range(n):
        if rng.random() < 0.45:
            cur = rng.choice(contigs)      # hop (possibly back to an evicted contig)
        here = [s for s in sites if s[0] == cur]
        if here and rng.random() < 0.75:
            _, p, r = rng.choice(here)
            b = rng.choice(rec_alleles(r) + list(BASES)) if rng.random() < 0.85 else rng.choice(['N', '*', 'AT'])
        else:
            p = rng.randint(0, 13)
            b = rng.choice(BASES)
        if rng.random() < 0.22:
            qs.append([1, cur, p])
        elif rng.random() < 0.07:
            qs.append([2, gen_reads(rng, vcf)])
        else:
            qs.append([0, cur, p, b])
    return qs


def gen_cache_key_case(rng):
    """cache-key sensitivity: two (or three) cached runs on the same VCF and cache directory whose settings differ
    minimally in ONE thing the cached table depends on - one alt or one ref of an ignored conversion, one selected
    sample, phased - and which query every site with every base, so a cache file shared by mistake shows up"""
    samples = ['S1', 'S2', 'S3']
    contigs = rng.sample(['chr1', 'chr2', 'chr3', 'X'], rng.choice([1, 2]))
    records = []
    for c in contigs:
        pos = 0
        for ref in rng.sample(BASES, rng.choice([2, 3, 4])):
            for alt in rng.sample([b for b in BASES if b != ref], rng.choice([1, 2, 3])):
                pos += rng.randint(1, 3)
                g = [[0], [1], [rng.choice([0, 1]), rng.choice([0, 1])]]
                rng.shuffle(g)
                records.append({'chrom': c, 'pos': pos, 'ref': ref, 'alts': [alt], 'gts': g, 'sep': '|'})
    vcf = {'contigs': contigs, 'samples': samples, 'records': records}
    qs = []
    for r in records:
        for b in (r['ref'], r['alts'][0]):
            qs.append([0, r['chrom'], r['pos'] - 1, b])
        if rng.random() < 0.3:
            qs.append([1, r['chrom'], r['pos'] - 1])
    rng.shuffle(qs)
    base = {'phased': True, 'select': None, 'ignore': None, 'lazy': rng.random() < 0.7, 'cache': True, 'chrom': None}
    kind = rng.choice(['alt', 'alt', 'alt', 'ref', 'subset', 'select', 'phased', 'extra'])
    r = rng.choice(records)
    ref, alt = r['ref'], r['alts'][0]
    other_alt = rng.choice([b for b in BASES if b not in (ref, alt)])
    other_ref = rng.choice([b for b in BASES if b not in (ref, alt)])
    a, b = dict(base), dict(base)
    if kind == 'alt':            # same ref, other alt
        a['ignore'], b['ignore'] = [[ref, alt]], [[ref, other_alt]]
    elif kind == 'ref':          # same alt, other ref
        a['ignore'], b['ignore'] = [[ref, alt]], [[other_ref, alt]]
    elif kind == 'subset':       # one conversion more
        a['ignore'], b['ignore'] = [[ref, alt]], [[ref, alt], [ref, other_alt]]
    elif kind == 'extra':        # the TAPS pair against one of its halves
        a['ignore'], b['ignore'] = [['C', 'T'], ['G', 'A']], [['C', 'T']]
    elif kind == 'select':
        a['select'], b['select'] = ['S1', 'S2'], ['S1', 'S3']
    else:
        b['phased'] = False
    if rng.random() < 0.5:
        a, b = b, a
    hist = [{'cfg': a, 'queries': qs}, {'cfg': b, 'queries': qs}]
    if rng.random() < 0.4:
        hist.append({'cfg': dict(a, lazy=True), 'queries': qs})
    return {'vcf': vcf, 'history': hist}


def gen_case(rng, big=False):
    vcf = gen_vcf(rng, big)
    style = rng.random()
    hist = []
    if style < 0.45:
        # the same settings and queries under the four flag combinations, cache twice (write, then read)
        cf = gen_cfg(rng, vcf)
        qs = gen_queries(rng, vcf, n=(None if not big else 40))
        combos = [(False, False), (True, False), (False, True), (True, True), (False, True)]
        rng.shuffle(combos)
        for lz, ca in combos:
            c2 = dict(cf); c2['lazy'] = lz; c2['cache'] = ca
            hist.append({'cfg': c2, 'queries': qs if rng.random() < 0.7 else gen_queries(rng, vcf)})
    elif style < 0.8:
        # cache histories: a writer, then readers whose settings differ in one field
        cf = gen_cfg(rng, vcf); cf['cache'] = True
        hist.append({'cfg': cf, 'queries': gen_queries(rng, vcf)})
        for _ in range(rng.randint(1, 3)):
            c2 = dict(cf)
            f = rng.choice(['ignore', 'phased', 'select', 'same', 'lazy', 'all'])
            o = gen_cfg(rng, vcf)
            if f == 'all':
                c2 = o
            elif f != 'same':
                c2[f] = o[f]
            c2['cache'] = rng.random() < 0.85
            hist.append({'cfg': c2, 'queries': gen_queries(rng, vcf)})
    else:
        for _ in range(rng.randint(1, 4)):
            hist.append({'cfg': gen_cfg(rng, vcf), 'queries': gen_queries(rng, vcf)})
    return {'vcf': vcf, 'history': hist}


def gen_cache_text(rng):
    """cache file contents: mostly well-formed lines, with the damage a foreign or truncated file could show"""
    lines = []
    for _ in range(rng.randint(0, 6)):
        pos = str(rng.choice([-1, 0, 3, 7, 12, 105]))
        base = rng.choice(['A', 'C', 'G', 'T', 'N', '*', 'AT', ''])
        samples = ','.join(rng.sample(['S1', 'S2', 'B-1', 'x y', '', 'NA12878'], rng.randint(1, 3)))
        k = rng.random()
        if k < 0.08:
            pos = rng.choice(['+5', ' 5', '5 ', '', 'x', '1.5', '--1', '-', '007', '5\x0b'])
        fields = [pos, base, samples]
        k = rng.random()
        if k < 0.06:
            fields = fields[:2]
        elif k < 0.12:
            fields.append('extra')
        elif k < 0.15:
            fields = [pos + ' ' + base, samples]
        line = '\t'.join(fields)
        k = rng.random()
        if k < 0.1:
            line = ' ' + line + ' '
        elif k < 0.14:
            line = ''
        lines.append(line + rng.choice(['\n', '\n', '\n', '\r\n', '\r']))
    text = ''.join(lines)
    if text and rng.random() < 0.15:
        text = text.rstrip('\r\n')
    return text


def exhaustive_cases(rng, limit=None):
    """one site, two samples: every genotype pair over a small allele menu x settings; each case runs the
    same queries eagerly, lazily, through a fresh cache and through the cache again"""
    gmenu = [[0], [1], [None], [0, 1], [1, 1], [0, 0], [None, None], [0, None], [2], [1, 2]]
    out = []
    for alts in ([], ['T'], ['AT'], ['T', 'G']):
        gm = [g for g in gmenu if all(a is None or a <= len(alts) for a in g)]
        for g1 in gm:
            for g2 in gm:
                vcf = {'contigs': ['chr1', 'chr2'], 'samples': ['S1', 'S2'],
                       'records': [{'chrom': 'chr1', 'pos': 5, 'ref': 'A', 'alts': alts, 'gts': [g1, g2], 'sep': '|'},
                                   {'chrom': 'chr2', 'pos': 5, 'ref': 'C', 'alts': ['T'], 'gts': [[0], [1]], 'sep': '|'}]}
                for phased in (True, False):
                    for select in (None, ['S1'], ['S1', 'S2']):
                        if not phased and select is not None:
                            continue
                        for ignore in (None, [['A', 'T']]):
                            out.append((vcf, phased, select, ignore))
    if limit is not None and len(out) > limit:
        out = rng.sample(out, limit)
    cases = []
    qs = [[1, 'chr1', 4], [0, 'chr1', 4, 'A'], [0, 'chr2', 4, 'T'], [0, 'chr1', 4, 'T'], [0, 'chr1', 4, 'G'],
          [0, 'chr1', 4, 'AT'], [1, 'chrZ', 4], [1, 'chrZ', 4], [0, 'chr1', 3, 'A'], [0, 'chr2', 4, 'C']]
    for vcf, phased, select, ignore in out:
        hist = []
        for lz, ca in ((False, False), (True, False), (False, True), (True, True)):
            hist.append({'cfg': {'phased': phased, 'select': select, 'ignore': ignore, 'lazy': lz, 'cache': ca, 'chrom': None},
                         'queries': qs})
        cases.append({'vcf': vcf, 'history': hist})
    return cases



# ----------------------------------------------------------------------------- region-restricted loading: generators
def gen_window_vcf(rng, big=False):
    """gen_vcf plus records whose REF is several bases long yet informative (every selected genotype carries a single
    base ALT), so that a record starting before region_start reaches into the window"""
    vcf = gen_vcf(rng, big)
    recs = vcf['records']
    for c in vcf['contigs']:
        for _ in range(rng.choice([0, 1, 1, 2])):
            ref = ''.join(rng.choice(BASES) for _ in range(rng.choice([2, 3, 4, 5])))
            alts = rng.sample([b for b in BASES if b != ref[0]], 2)
            gts = [[rng.choice([1, 2])] * rng.choice([1, 2]) for _ in vcf['samples']]
            if len(gts) > 1:
                gts[0] = [1] * len(gts[0]); gts[1] = [2] * len(gts[1])
            recs.append({'chrom': c, 'pos': rng.randint(1, 12 if not big else 40), 'ref': ref, 'alts': alts, 'gts': gts,
                         'sep': rng.choice(['|', '/'])})
    order = {c: i for i, c in enumerate(vcf['contigs'])}
    recs.sort(key=lambda r: (order[r['chrom']], r['pos']))          # stable: tabix wants sorted positions
    return vcf


def gen_window(rng, vcf, kind=None):
    """(region_start, region_end), boundary-biased: edges on / next to record positions (0-based), open ends, empty windows,
    and coordinates pysam refuses (start > stop, negative, beyond 2^31 - 1)"""
    edges = sorted(set(r['pos'] - 1 + d for r in vcf['records'] for d in (-1, 0, 1, len(r['ref']) - 1, len(r['ref']))) | {0, 14})
    edges = [e for e in edges if e >= 0] or [0, 5]
    kind = kind or rng.choice(['both'] * 9 + ['start', 'start', 'end', 'end', 'empty', 'invalid', 'wide'])
    if kind == 'start':
        return (rng.choice(edges), None)
    if kind == 'end':
        return (None, rng.choice(edges))
    if kind == 'empty':
        e = rng.choice(edges)
        return (e, e)
    if kind == 'wide':
        return (0, rng.choice([1000, 2 ** 29, MAXPOS]))
    if kind == 'invalid':
        a, b = rng.choice(edges), rng.choice(edges)
        return rng.choice([(max(a, b) + 1, min(a, b)), (-1, b), (-rng.randint(1, 5), None), (None, -1), (a, MAXPOS + 1),
                           (MAXPOS, None), (MAXPOS, MAXPOS)])
    a, b = rng.choice(edges), rng.choice(edges)
    return (min(a, b), max(a, b) + rng.choice([0, 1, 1, 2]))


def gen_window_queries(rng, vcf, w, n=None, floor=None):
    """lookups around the edges of the window and at record starts; floor: no position below it"""
    contigs = list(vcf['contigs']) + (['chrZ'] if rng.random() < 0.3 else [])
    lo, hi = win_bounds(w)
    near = [x for x in (lo - 1, lo, lo + 1, hi - 1, hi, hi + 1) if 0 <= x < 60]
    qs = []
    cur = rng.choice(contigs)
    for _ in range(n or rng.randint(5, 14)):
        if rng.random() < 0.35:
            cur = rng.choice(contigs)
        here = [r for r in vcf['records'] if r['chrom'] == cur]
        k = rng.random()
        if here and k < 0.55:
            r = rng.choice(here)
            p = r['pos'] - 1
            b = rng.choice(rec_alleles(r) + list(BASES)) if rng.random() < 0.9 else rng.choice(['N', 'AT'])
        elif near and k < 0.85:
            p = rng.choice(near)
            at = [r for r in here if r['pos'] - 1 == p]
            b = rng.choice(rec_alleles(rng.choice(at))) if at else rng.choice(BASES)
        else:
            p = rng.randint(0, 14)
            b = rng.choice(BASES)
        if floor is not None and p < floor:
            p = floor + rng.randint(0, 2)
        if rng.random() < 0.2:
            qs.append([1, cur, p])
        elif rng.random() < 0.04:
            qs.append([2, gen_reads(rng, vcf)])
        else:
            qs.append([0, cur, p, b])
    return qs


def with_window(cf, w):
    return dict(cf, rstart=w[0], rend=w[1])


def gen_window_case(rng, big=False):
    vcf = gen_window_vcf(rng, big)
    while not vcf['records']:
        vcf = gen_window_vcf(rng, big)
    style = rng.random()
    hist = []
    if style < 0.55:
        # ONE setting and ONE window under every loading mode (the eager load of one contig included), the cache twice
        cf = gen_cfg(rng, vcf)
        w = gen_window(rng, vcf, kind=rng.choice([None] * 4 + ['both']))
        # runs through the cache are (mostly) not asked about positions before region_start: there the run that writes the
        # cache and the runs that read it differ (window:long-REF-before-region_start)
        floor = w[0] if (w[0] is not None and w[0] >= 0 and rng.random() < 0.85) else None
        qs = gen_window_queries(rng, vcf, w)
        combos = [(False, False, None), (False, False, 'one'), (True, False, None), (False, True, None), (True, True, None), (False, True, None)]
        rng.shuffle(combos)
        for lz, ca, ch in combos[:rng.choice([4, 5, 6])]:
            c2 = with_window(dict(cf, lazy=lz, cache=ca, chrom=(rng.choice(vcf['contigs']) if ch else cf['chrom'])), w)
            q2 = qs if rng.random() < 0.75 else gen_window_queries(rng, vcf, w)
            if ca and floor is not None:
                q2 = [q for q in q2 if q[0] != 2 and q[2] >= floor] or [[1, vcf['contigs'][0], floor]]
            hist.append({'cfg': c2, 'queries': q2})
    elif style < 0.78:
        # one cache directory, several windows: a writer, then readers under the same, a wider, a narrower or no window
        cf = gen_cfg(rng, vcf); cf['cache'] = True
        w = gen_window(rng, vcf, kind=rng.choice(['both', 'both', 'start', 'end', None]))
        if rng.random() < 0.3:
            w = (None, None)
        hist.append({'cfg': with_window(cf, w), 'queries': gen_window_queries(rng, vcf, w)})
        for _ in range(rng.randint(1, 3)):
            k = rng.random()
            w2 = w if k < 0.35 else ((None, None) if k < 0.45 else gen_window(rng, vcf))
            c2 = dict(cf, cache=rng.random() < 0.8, lazy=rng.random() < 0.5)
            hist.append({'cfg': with_window(c2, w2), 'queries': gen_window_queries(rng, vcf, w2, floor=(w2[0] if w2[0] is not None and w2[0] >= 0 and rng.random() < 0.6 else None))})
    else:
        for _ in range(rng.randint(1, 4)):
            w = gen_window(rng, vcf) if rng.random() < 0.85 else (None, None)
            hist.append({'cfg': with_window(gen_cfg(rng, vcf), w), 'queries': gen_window_queries(rng, vcf, w)})
    return {'vcf': vcf, 'history': hist}


def window_small_scope(rng, limit=None):
    """one contig with a 4-base REF record at 5 (informative), SNVs at 10 and 12: EVERY window with edges in
    {None, 0..13} x the loading modes, every position 0..13 asked (has_location and getAllelesAt)"""
    vcf = {'contigs': ['chr1', 'chr2'], 'samples': ['S1', 'S2'],
           'records': [{'chrom': 'chr1', 'pos': 5, 'ref': 'ACGT', 'alts': ['C', 'G'], 'gts': [[1, 1], [2, 2]], 'sep': '|'},
                       {'chrom': 'chr1', 'pos': 10, 'ref': 'A', 'alts': ['T'], 'gts': [[0, 0], [1, 1]], 'sep': '|'},
                       {'chrom': 'chr1', 'pos': 12, 'ref': 'C', 'alts': ['T'], 'gts': [[0], [1]], 'sep': '|'},
                       {'chrom': 'chr2', 'pos': 10, 'ref': 'G', 'alts': ['A'], 'gts': [[0, 0], [1, 1]], 'sep': '|'}]}
    qs = []
    for p_ in range(0, 14):
        qs.append([1, 'chr1', p_])
        qs.append([0, 'chr1', p_, {4: 'C', 9: 'A', 11: 'T'}.get(p_, 'A')])
    qs += [[0, 'chr2', 9, 'A'], [1, 'chr2', 9]]
    edges = [None] + list(range(0, 14))
    wins = [(a, b) for a in edges for b in edges if (a, b) != (None, None)]
    if limit is not None and len(wins) > limit:
        wins = rng.sample(wins, limit)
    base = {'phased': True, 'select': None, 'ignore': None, 'chrom': None}
    cases = []
    for w in wins:
        hist = []
        # runs through the cache are asked from region_start on (below it the writing and the reading run differ)
        qc = [q for q in qs if w[0] is None or q[2] >= w[0]]
        for lz, ca, ch in ((False, False, None), (False, False, 'chr1'), (True, False, None), (False, True, None), (False, True, None), (True, True, None)):
            hist.append({'cfg': with_window(dict(base, lazy=lz, cache=ca, chrom=ch), w), 'queries': qc if ca else qs})
        cases.append({'vcf': vcf, 'history': hist})
    return cases


def gen_cache_window(rng):
    return rng.choice([(None, None), (None, None), (rng.choice([-1, 0, 3, 7]), None), (None, rng.choice([-1, 0, 7, 12])),
                       (rng.choice([0, 3, 7]), rng.choice([3, 7, 12, 105])), (12, 3)])


# the four ways in which the loading modes disagree for ONE window on the unchanged tree (Props/C18.v, C18_window_*_refuted;
# fixes/C18-D36): (key, what, case, (run a, run b) whose answers must be equal / None = compare run 1 with the VCF)
def _wrun(lz, ca, w, qs, chrom=None):
    return {'cfg': {'phased': True, 'select': None, 'ignore': None, 'lazy': lz, 'cache': ca, 'chrom': chrom, 'rstart': w[0], 'rend': w[1]},
            'queries': qs}


W_VCF = {'contigs': ['chr1'], 'samples': ['S1', 'S2'],
         'records': [{'chrom': 'chr1', 'pos': 5, 'ref': 'ACGT', 'alts': ['C', 'G'], 'gts': [[1, 1], [2, 2]], 'sep': '|'},
                     {'chrom': 'chr1', 'pos': 10, 'ref': 'A', 'alts': ['T'], 'gts': [[0, 0], [1, 1]], 'sep': '|'},
                     {'chrom': 'chr1', 'pos': 20, 'ref': 'C', 'alts': ['T'], 'gts': [[0, 0], [1, 1]], 'sep': '|'},
                     {'chrom': 'chr1', 'pos': 30, 'ref': 'C', 'alts': ['T'], 'gts': [[0, 0], [1, 1]], 'sep': '|'}]}
WINDOW_FINDINGS = [
    ('window:cache-file-shared-between-windows',
     'use_cache=True, region [0,20) then region [20,40) on the same VCF: the second run is served chr1.tsv.gz written under the first '
     'window (the file name does not mention the window) and getAllelesAt("chr1", 29, "T") - inside its own window - returns None; '
     'the VCF (and a lazy run with the same window) says {S2}',
     {'vcf': W_VCF, 'history': [_wrun(False, True, (0, 20), [[0, 'chr1', 9, 'A']]), _wrun(False, True, (20, 40), [[0, 'chr1', 29, 'T']]),
                                _wrun(True, False, (20, 40), [[0, 'chr1', 29, 'T']])]}, (1, 2)),
    ('window:region_end-inclusive-in-read_cached',
     'after an unrestricted use_cache run wrote chr1.tsv.gz, use_cache with region [9,19) answers getAllelesAt("chr1", 19, "T") = {S2} '
     '(read_cached stops at position > region_end) while lazyLoad with the same region answers None (VariantFile.fetch stop is exclusive)',
     {'vcf': W_VCF, 'history': [_wrun(False, True, (None, None), [[0, 'chr1', 19, 'T']]), _wrun(False, True, (9, 19), [[0, 'chr1', 19, 'T']]),
                                _wrun(True, False, (9, 19), [[0, 'chr1', 19, 'T']])]}, (1, 2)),
    ('window:long-REF-before-region_start',
     'use_cache with region [6,20) twice: the run that writes the cache loads the record chr1:5 ACGT>C,G (its REF reaches into the window) '
     'and answers getAllelesAt("chr1", 4, "C") = {S1}; the run that reads the cache skips position 4 < region_start and answers None',
     {'vcf': W_VCF, 'history': [_wrun(False, True, (6, 20), [[0, 'chr1', 4, 'C']]), _wrun(False, True, (6, 20), [[0, 'chr1', 4, 'C']])]}, (0, 1)),
    ('window:eager-load-of-all-contigs-ignores-region',
     'lazyLoad=False, use_cache=False, chrom=None with region [9,20): v.fetch(None, start, stop) ignores the coordinates, '
     'getAllelesAt("chr1", 29, "T") = {S2}; lazyLoad=True with the same region answers None',
     {'vcf': W_VCF, 'history': [_wrun(False, False, (9, 20), [[0, 'chr1', 29, 'T']]), _wrun(True, False, (9, 20), [[0, 'chr1', 29, 'T']])]}, (0, 1)),
]

# ----------------------------------------------------------------------------- several resolver objects in one process
def ctor_ok(vcf, cf):
    return is_lazy(cf) or cf['chrom'] is None or cf['chrom'] in vcf['contigs']


def group_spec(g):
    """what every operation must answer: the specification for THAT object's settings and VCF"""
    out = []
    for s_, i, q in g['ops']:
        sess = g['sessions'][s_]
        cf = sess['objects'][i]
        out.append(-1 if not ctor_ok(sess['vcf'], cf) else spec_run(sess['vcf'], {'cfg': cf, 'queries': [q]})[0])
    return out


def group_as_cases(g):
    """per session, the pseudo history with the same (settings, contig) keys: used for the precondition"""
    return [{'vcf': sess['vcf'], 'history': [{'cfg': sess['objects'][i], 'queries': [q]} for s_, i, q in g['ops'] if s_ == k]}
            for k, sess in enumerate(g['sessions'])]


def group_precondition(g):
    return all(precondition(c) for c in group_as_cases(g))


def group_vals(g):
    """model inputs (mode 6/7/8), one per session: [vcf; objects; ops of that session in order]"""
    out = []
    for k, sess in enumerate(g['sessions']):
        cv = case_val({'vcf': sess['vcf'], 'history': []})[0]
        ops = [[i, [q[0], fw.to_val(q[1]), q[2]] + ([fw.to_val(q[3])] if q[0] == 0 else [])]
               for s_, i, q0 in g['ops'] if s_ == k for q in (read_sites(q0[1]) if q0[0] == 2 else [q0])]
        out.append([cv, [cfg_val(cf) for cf in sess['objects']], ops])
    return out


def group_fold(g, k, answers):
    """answers of the expanded operations of session k -> answers of its original operations"""
    out, n = [], 0
    for s_, i, q in g['ops']:
        if s_ != k:
            continue
        if q[0] == 2:
            m = len(read_sites(q[1]))
            out.append(fold_alleles(answers[n:n + m]))
            n += m
        else:
            out.append(answers[n])
            n += 1
    return out


def canon_answer(a):
    if a == 'RAISE':
        return -1
    return canon_impl_run([a])[0]


def gen_group(rng):
    """several AlleleResolver objects alive at once, operations interleaved"""
    style = rng.random()
    vcf = gen_vcf(rng)
    while not vcf['records']:
        vcf = gen_vcf(rng)
    allq = []
    for r in vcf['records']:
        for b in rec_alleles(r)[:2]:
            allq.append([0, r['chrom'], r['pos'] - 1, b])
        allq.append([1, r['chrom'], r['pos'] - 1])
    rng.shuffle(allq)
    allq = allq[:10]
    base = {'phased': True, 'select': None, 'ignore': None, 'lazy': False, 'cache': False, 'chrom': None}
    smp = vcf['samples']
    sub = smp[:max(1, len(smp) - 1)]
    sessions = [{'vcf': vcf, 'objects': []}]
    if style < 0.25:
        # A eager on all samples, B lazy (or cached) on a selection, created after A was used; A / B / A
        sessions[0]['objects'] = [dict(base), dict(base, lazy=True, cache=rng.random() < 0.4, select=sub)]
        ops = [[0, 0, q] for q in allq] + [[0, 1, q] for q in allq] + [[0, 0, q] for q in allq[:4]]
    elif style < 0.5:
        # two (three) eager objects with different settings, strictly alternating
        o2 = dict(base, **rng.choice([{'select': sub}, {'ignore': [['C', 'T'], ['G', 'A']]}, {'phased': False},
                                      {'ignore': [[vcf['records'][0]['ref'], (vcf['records'][0]['alts'] or ['A'])[0]]]}]))
        sessions[0]['objects'] = [dict(base), o2, dict(base, chrom=rng.choice(vcf['contigs']))]
        ops = []
        for q in allq:
            for i in rng.sample([0, 1, 2], rng.choice([2, 3])):
                ops.append([0, i, q])
    elif style < 0.75:
        # two VCF files with the same contigs and positions but other genotypes / alleles
        v2 = json.loads(json.dumps(vcf))
        for r in v2['records']:
            r['gts'] = [list(reversed(g)) for g in reversed(r['gts'])]
            if rng.random() < 0.5 and r['alts']:
                r['alts'] = [a if a != 'T' else 'G' for a in r['alts']]
                if r['ref'] in r['alts']:
                    r['alts'] = [a for a in r['alts'] if a != r['ref']] or ['N']
                    r['gts'] = [[None if a is None else min(a, len(r['alts'])) for a in g] for g in r['gts']]
        sessions = [{'vcf': vcf, 'objects': [dict(base, lazy=rng.random() < 0.5), dict(base, lazy=True, cache=True)]},
                    {'vcf': v2, 'objects': [dict(base, lazy=rng.random() < 0.5), dict(base, lazy=True, cache=True)]}]
        ops = []
        for q in allq:
            for s_, i in rng.sample([(0, 0), (1, 0), (0, 1), (1, 1)], rng.choice([2, 3, 4])):
                ops.append([s_, i, q])
    else:
        n = rng.randint(2, 4)
        sessions[0]['objects'] = [gen_cfg(rng, vcf) for _ in range(n)]
        ops = [[0, rng.randrange(n), q] for q in gen_queries(rng, vcf, n=rng.randint(8, 20))]
    if rng.random() < 0.5:
        for _ in range(rng.choice([1, 2])):
            s_ = rng.randrange(len(sessions))
            ops.insert(rng.randrange(len(ops) // 2 + 1),
                       [s_, rng.randrange(len(sessions[s_]['objects'])), [2, gen_reads(rng, sessions[s_]['vcf'])]])
    return {'sessions': sessions, 'ops': ops}


# ----------------------------------------------------------------------------- running the implementation
def run_impl_groups(groups, jobs=4):
    if not groups:
        return []
    jobs = max(1, min(jobs, len(groups) // 10 or 1))
    chunks = [groups[i::jobs] for i in range(jobs)]
    with ThreadPoolExecutor(max_workers=jobs) as ex:
        res = list(ex.map(lambda ch: fw.run_impl('impl_c18.py', {'groups': ch})['groups'], chunks))
    out = [None] * len(groups)
    for j, r in enumerate(res):
        for k, x in enumerate(r):
            out[j + k * jobs] = x
    return out


def run_alone(items, kind):
    """every item in its OWN process of the real class (what a replay does)"""
    if not items:
        return []
    with ThreadPoolExecutor(max_workers=min(8, len(items))) as ex:
        return list(ex.map(lambda it: fw.run_impl('impl_c18.py', {kind: [it]})[kind][0], items))


def run_impl_cases(cases, jobs=8):
    if not cases:
        return []
    jobs = max(1, min(jobs, len(cases) // 20 or 1))
    chunks = [cases[i::jobs] for i in range(jobs)]
    with ThreadPoolExecutor(max_workers=jobs) as ex:
        res = list(ex.map(lambda ch: fw.run_impl('impl_c18.py', {'cases': ch})['cases'], chunks))
    out = [None] * len(cases)
    for j, r in enumerate(res):
        for k, x in enumerate(r):
            out[j + k * jobs] = x
    return out


def describe_query(q):
    if q[0] == 2:
        return 'getAllele(%s)' % ', '.join('None' if r is None else '<read %s:%d %s cigar %r>' % (r['chrom'], r['pos'], r['seq'], r['cigar'])
                                           for r in q[1])
    return ('getAllelesAt(%r, %d, %r)' % (q[1], q[2], q[3])) if q[0] == 0 else ('has_location(%r, %d)' % (q[1], q[2]))


def show_answer(a):
    if a == []:
        return 'None'
    if a in (0, 1):
        return str(bool(a))
    if a == -1 or a == [-1]:
        return 'constructor raises'
    if isinstance(a, list) and a and a[0] == 'ERR':
        return 'raises ' + str(a[1])
    try:
        return '{' + ', '.join(fw.as_str(s) for s in a[0]) + '}'
    except Exception:
        return repr(a)


def flags(cf):
    return 'lazyLoad=%s use_cache=%s phased=%s select_samples=%r ignore_conversions=%r chrom=%r' % (
        cf['lazy'], cf['cache'], cf['phased'], cf['select'], cf['ignore'], cf['chrom']) + (
        ' region_start=%r region_end=%r' % win_of(cf) if has_window(cf) else '')


def canon_cache(files):
    """cache files are compared as the set of their data rows: the statement constrains what a later run reads back from
    the cache (compared answer by answer); the reader does not depend on the order of the rows, and '#' comment / header
    rows carry no data"""
    return {n: sorted(l for l in t.split('\n') if not l.startswith('#')) if isinstance(t, str) else t for n, t in files.items()}


class Prop(fw.PropBase):
    ID = 'C18'
    PROPS = 'Props/C18.v'
    TRUSTED = [
        'T: tools/c18.py AST recognisers (regen_alleles -> coq/Gen/GenAlleles.v, 30 definitions): they locate, by position in '
        '__init__ / fetchChromosome / write_cache / read_cached / has_location / getAllelesAt, the single-nucleotide tests, the '
        'select_samples filter, continue-vs-break on a missing allele, the bad/monomorphic flag statements after the sample loop, '
        'the guard and the (ref, base) key of the ignore_conversions step, the store test and position, the sentinel, the contig '
        'rules and every piece of the cache file name, the cache line f-string, the field/sample separators and region filters '
        'of read_cached, the invalid-contig result of has_location, that use_cache sets self.lazyLoad and that locationToAllele '
        'is created per instance; they REFUSE (Untranslatable) other statement shapes (e.g. the per-record resets of '
        'used/bad/monomorphic not at the head of the record loop, extra statements in the write_cache / read_cached loops, a '
        'class-level table, clear != True in the lazy fetch); expressions go through py2coq.ExprTranslator / an f-string '
        'translator.  The loop structure (fold over samples and alleles, dict updates, the state machine) stays hand modelled '
        'around these pieces and is tied by K',
        'modelled not verified: pysam/htslib VCF parsing and tabix fetch (a record = chrom, pos, ref, alts, per-sample '
        'alleles in header order; fetch(c) = the records of contig c in file order, ValueError for a contig the file does '
        'not have) - the impl runner reports pysam\'s view of every generated record and K compares it with the abstraction',
        'modelled not verified: VariantFile.fetch(contig, start, stop) = the records of the contig that overlap the 0-based half-open '
        'window (None = 0 / 2^31-1), ValueError for start < 0, start >= 2^31-1, stop > 2^31-1 or start > stop (after the contig test), '
        'fetch(None, start, stop) = the whole file (Model/C18x.v: win_valid, rec_in_win, vwin) - tied by K on windows whose edges '
        'sit on / next to record starts and REF ends',
        'modelled not verified: gzip + text codec of the cache files (content = sequence of code points), os.rename, os.path.exists; '
        'python dict/set/defaultdict semantics (association lists, sorted lists); int() restricted to [+-]?[0-9]+',
        'python transcription of the Coq specification in tools/c18.py (used by search()); cross-checked against the Coq '
        'spec_run (mode 3) on every generated case',
    ]
    ASSUMPTIONS = [
        'the VCF is readable and indexed (uglyMode fallback and vcffile=None not covered), has at least one sample column, '
        'and every record contig is declared in the header',
        'region_start / region_end are None or integers; records have 1-based positions below 2^31 (below 2^29 in the generated '
        'files, the reach of a .tbi index), a non-empty REF and no INFO/END (a record occupies [pos-1, pos-1+len(REF)))',
        'windows (C18_window_history_spec): two runs of one history that go through the same cache file use the same window, and '
        'a run through the cache is not asked about positions before its region_start - outside these two conditions the '
        'loading modes really disagree (C18_window_*_refuted, fixes/C18-D36); measured as window.precondition_hit_rate',
        'queried positions are >= 0 (position -1 holds the loader\'s sentinel in lazy mode)',
        'sample names are non-empty without blanks or commas; alleles contain no tab/newline (needed by the cache line format)',
        'no two different (contig, settings) pairs used in one history map to the same cache file name (e.g. contig "chr1_S1" '
        'without selection and contig "chr1" with selection S1 do) - precondition names_ok, measured as precondition_hit_rate',
        'the VCF file is not modified between runs sharing a cache directory; cache writes succeed or leave no file',
    ]

    def replay_known(self, finding):
        """the recorded disagreements between loading modes under one window (WINDOW_FINDINGS): True while the real class
        still shows them"""
        for f in WINDOW_FINDINGS:
            if f[0] == finding.get('key'):
                r = fw.run_impl('impl_c18.py', {'cases': [f[2]]})['cases'][0]
                return (not r.get('error')) and self.finding_shows(f, r)
        return True

    def regen(self):
        try:
            return regen_alleles()
        except BaseException:
            # fail closed: never prove / run against definitions generated from another source
            for ext in ('.v', '.vo', '.vos', '.vok', '.glob'):
                try:
                    os.remove(os.path.join(fw.COQ, 'Gen', 'GenAlleles' + ext))
                except OSError:
                    pass
            raise

    # ---------------------------------------------------------------- case streams
    def corpus_cases(self):
        d = os.path.join(fw.VERIF, 'corpus', 'C18')
        out = []
        if os.path.isdir(d):
            for fn in sorted(os.listdir(d)):
                if fn.endswith('.json'):
                    out.append(json.load(open(os.path.join(d, fn))))
        # cases with region_start / region_end belong to the window stream (Model/C18x, mode 10)
        self.window_corpus = [c for c in out if case_windowed(c)]
        return [c for c in out if not case_windowed(c)]

    def make_cases(self):
        quick = self.tier == 'quick'
        corpus = self.corpus_cases()
        rnd = [gen_case(self.rng) for _ in range(260 if quick else 18000)]
        rnd += [gen_case(self.rng, big=True) for _ in range(6 if quick else 400)]
        rnd += [gen_cache_key_case(self.rng) for _ in range(60 if quick else 1200)]
        rnd += [gen_getallele_case(self.rng) for _ in range(40 if quick else 800)]
        exh = exhaustive_cases(self.rng, limit=(160 if quick else None))
        return corpus, rnd, exh

    def make_window_cases(self):
        """region-restricted loading: a stream of its own (drawn after all the others, so those are unchanged)"""
        quick = self.tier == 'quick'
        rnd = [gen_window_case(self.rng) for _ in range(170 if quick else 7000)]
        rnd += [gen_window_case(self.rng, big=True) for _ in range(4 if quick else 150)]
        exh = window_small_scope(self.rng, limit=(24 if quick else None))
        known = [dict(f[2]) for f in WINDOW_FINDINGS]
        if getattr(self, 'window_corpus', None) is None:
            self.corpus_cases()
        return known + self.window_corpus + rnd, exh

    # ---------------------------------------------------------------- K
    def correspondence(self):
        corpus, rnd, exh = self.make_cases()
        cases = corpus + rnd + exh
        self.cases = cases
        t0 = time.time()
        res = run_impl_cases(cases)
        self.cov['seconds_running_the_real_class'] = round(time.time() - t0, 1)
        self.impl_res = res
        pre = [precondition(c) for c in cases]
        spec = [[spec_run(c['vcf'], run) for run in c['history']] for c in cases]
        # ---- measured coverage
        nq = sum(len(run['queries']) for c in cases for run in c['history'])
        distinct = set()
        hist_modes, hist_sel, hist_ign, hist_ans = {}, {}, {}, {}
        returns = switches = served = 0
        self.cov['getAllele_calls'] = sum(1 for c in cases for run in c['history'] for q in run['queries'] if q[0] == 2)
        for c in cases:
            names_written = set()
            for run in c['history']:
                run = expand_run(run)[0]
                sa = spec_run_raw(c['vcf'], run)
                cf = run['cfg']
                m = ('cache' if cf['cache'] else '') + ('+lazy' if cf['lazy'] else '') or 'eager'
                hist_modes[m] = hist_modes.get(m, 0) + 1
                k = 'none' if cf['select'] is None else ('all' if set(cf['select']) == set(c['vcf']['samples']) else 'subset')
                hist_sel[k] = hist_sel.get(k, 0) + 1
                k = 'none' if cf['ignore'] is None else ('empty' if not cf['ignore'] else 'some')
                hist_ign[k] = hist_ign.get(k, 0) + 1
                seen, last = set(), None
                for q, a in zip(run['queries'], sa if sa != [-1] else [None] * len(run['queries'])):
                    if q[1] != last:
                        switches += 1
                        if q[1] in seen:
                            returns += 1
                        if cf['cache'] and cacheable(q[1]):
                            n = cache_name(cf, q[1])
                            if n in names_written:
                                served += 1
                            elif q[1] in c['vcf']['contigs']:
                                names_written.add(n)
                    seen.add(q[1]); last = q[1]
                    site = [(r['ref'], tuple(r['alts']), tuple(map(tuple, r['gts']))) for r in c['vcf']['records']
                            if r['chrom'] == q[1] and r['pos'] - 1 == q[2]]
                    kind = 'raise' if a is None else ('set' if isinstance(a, list) and a else ('none' if a == [] else 'bool'))
                    hist_ans[kind] = hist_ans.get(kind, 0) + 1
                    if site:
                        distinct.add(fw.canon_hash([repr(site), repr(sorted(cf.items(), key=str)), repr(q[2:]), q[0],
                                                    repr(c['vcf']['samples'])]))
        self.cov.update({
            'evaluations': nq,
            'distinct_nontrivial': len(distinct),
            'rule': 'one evaluation = one getAllelesAt/has_location call on the real class inside a history; non-trivial = the '
                    'queried (contig,pos) carries at least one VCF record; distinct by hash of (records at the site, all '
                    'constructor settings incl. mode flags, position/base/kind of the query, sample header)',
            'cases': len(cases), 'corpus_cases': len(corpus), 'random_cases': len(rnd), 'small_scope_cases': len(exh),
            'cache_key_sensitivity_cases': 60 if self.tier == 'quick' else 1200,
            'runs': sum(len(c['history']) for c in cases),
            'histogram_modes': hist_modes, 'histogram_selection': hist_sel, 'histogram_ignore': hist_ign,
            'histogram_expected_answer': hist_ans,
            'contig_switches': switches, 'returns_to_evicted_contig': returns, 'contig_loads_served_from_cache': served,
            'precondition_hit_rate': round(sum(pre) / max(1, len(pre)), 4),
            'exhaustive': False,
            'small_scope': ('complete' if self.tier == 'thorough' else 'sampled') + ': one site x two samples, all genotype pairs '
                           'from a 10-entry menu x 4 allele menus x phased/selection/ignore settings, each run eagerly, lazily, '
                           'through a fresh cache and through the cache again (%d cases)' % len(exh),
        })
        dis = []
        # ---- several resolver objects alive in one process, interleaved: each answer against the specification for
        #      that object's own settings (no model needed)
        groups = [gen_group(self.rng) for _ in range(70 if self.tier == 'quick' else 1500)]
        self.groups = groups
        gres = run_impl_groups(groups)
        self.gres = gres
        gspec = [group_spec(g) for g in groups]
        gpre = [group_precondition(g) for g in groups]
        nobj = 0
        for gi, (g, r) in enumerate(zip(groups, gres)):
            if r.get('error'):
                dis.append({'kind': 'impl-runner (several objects)', 'group': gi, 'error': r['error']})
                continue
            nobj += len(g['ops'])
            if gpre[gi] and [canon_answer(a) for a in r['answers']] != gspec[gi]:
                dis.append({'kind': 'impl-vs-spec (several objects)', 'group': gi})
        self.cov['multi_object_sessions'] = len(groups)
        self.cov['multi_object_operations'] = nobj
        self.cov['multi_object_precondition_hit_rate'] = round(sum(gpre) / max(1, len(gpre)), 4)
        self.cov['evaluations'] += nobj
        # ---- pysam's view of the generated VCF equals the abstraction handed to the model
        nview = nreads = 0
        for i, (c, r) in enumerate(zip(cases, res)):
            if r.get('error'):
                dis.append({'kind': 'impl-runner', 'case': i, 'error': r['error']})
                continue
            mine = [[x['chrom'], x['pos'], x['ref'], list(x['alts']), rec_gts(x)] for x in c['vcf']['records']]
            nview += len(mine)
            if mine != r['view'] or r['samples'] != c['vcf']['samples'] or r['contigs'] != c['vcf']['contigs']:
                dis.append({'kind': 'vcf-abstraction', 'case': i, 'mine': mine[:3], 'pysam': r['view'][:3]})
            exp_pairs = [[[list(x) for x in aligned_pairs(rd)] for rd in q[1] if rd is not None and not rd.get('unmapped')]
                         for run, got in zip(c['history'], r['runs']) if not (got and got[0] == 'RAISE')
                         for q in run['queries'] if q[0] == 2]
            nreads += sum(len(x) for x in exp_pairs)
            if exp_pairs != r['read_pairs']:
                dis.append({'kind': 'read-abstraction (aligned pairs)', 'case': i, 'mine': exp_pairs[:2], 'pysam': r['read_pairs'][:2]})
        self.cov['vcf_records_compared_with_pysam_view'] = nview
        self.cov['reads_compared_with_pysam_aligned_pairs'] = nreads
        # ---- implementation against the python specification (no model needed)
        nspec = 0
        for i, (c, r, sp, ok) in enumerate(zip(cases, res, spec, pre)):
            if not ok or r.get('error'):
                continue
            for j, (run, got) in enumerate(zip(c['history'], r['runs'])):
                g = canon_impl_run(got)
                nspec += len(g)
                if g != sp[j]:
                    dis.append({'kind': 'impl-vs-spec', 'case': i, 'run': j})
        self.cov['answers_compared_with_specification'] = nspec
        if self.model_ok:
            vals = [case_val(c) for c in cases]
            mo = fw.run_model('C18', 0, vals)
            mpre = fw.run_model('C18', 1, vals)
            mspec = fw.run_model('C18', 3, vals)
            ntr = n_outside = 0
            for i, (c, r) in enumerate(zip(cases, res)):
                if r.get('error'):
                    continue
                if bool(mpre[i]) != pre[i]:
                    dis.append({'kind': 'python-precondition-vs-coq', 'case': i, 'python': pre[i], 'coq': mpre[i]})
                plans = [expand_run(run)[1] for run in c['history']]
                fold = lambda runs: [fold_run(pl, a) for pl, a in zip(plans, runs)]
                if fold(mspec[i]) != spec[i]:
                    dis.append({'kind': 'python-spec-vs-coq-spec', 'case': i, 'python': spec[i], 'coq': mspec[i]})
                got = [canon_impl_run(x) for x in r['runs']]
                ntr += sum(len(x) for x in got)
                mruns = fold(mo[i][0])
                # outside the precondition of the statement (e.g. a sample name the cache line format cannot carry) the
                # loading modes may legitimately answer differently: counted, not compared
                if not pre[i]:
                    n_outside += 1
                    continue
                if got != mruns:
                    j = next((j for j in range(len(got)) if j >= len(mruns) or got[j] != mruns[j]), 0)
                    qd = None
                    if j < len(got) and j < len(mruns):
                        qd = next(([n, a, b] for n, (a, b) in enumerate(zip(got[j], mruns[j])) if a != b), None)
                    dis.append({'kind': 'model-vs-impl-answers', 'case': i, 'run': j, 'first_differing_answer[index, impl, model]': qd})
                mfs = {fw.as_str(n): fw.as_str(t) for n, t in mo[i][1]}
                if canon_cache(mfs) != canon_cache(r['cache']):
                    dis.append({'kind': 'model-vs-impl-cache-files', 'case': i,
                                'model': {k: mfs[k] for k in sorted(mfs)[:3]}, 'impl': {k: r['cache'][k] for k in sorted(r['cache'])[:3]}})
                if pre[i] and mo[i][0] != mspec[i]:
                    dis.append({'kind': 'model-vs-spec (theorem instance!)', 'case': i})
            self.cov['traces_validated_against_impl'] = ntr
            self.cov['histories_outside_the_precondition_not_compared'] = n_outside
            self.cov['cache_files_compared'] = sum(len(r.get('cache', {})) for r in res)
            # names / cacheable rule
            nm = [(c['history'][0]['cfg'], q[1]) for c in cases[:400] for q in expand_run(c['history'][0])[0]['queries'][:2]]
            mn = fw.run_model('C18', 5, [[cfg_val(cf), fw.to_val(ct)] for cf, ct in nm])
            for (cf, ct), o in zip(nm, mn):
                if fw.as_str(o[0]) != cache_name(cf, ct) or bool(o[1]) != cacheable(ct):
                    dis.append({'kind': 'python-cache-name-vs-coq', 'cfg': cf, 'contig': ct})
            # several objects alive in one process: model (mode 6) and Coq specification (mode 8)
            gv = [(gi, k, x) for gi, g in enumerate(groups) for k, x in enumerate(group_vals(g))]
            m6 = fw.run_model('C18', 6, [x for _, _, x in gv])
            m7 = fw.run_model('C18', 7, [x for _, _, x in gv])
            m8 = fw.run_model('C18', 8, [x for _, _, x in gv])
            for (gi, k, x), o6, o7, o8 in zip(gv, m6, m7, m8):
                g, r = groups[gi], gres[gi]
                if r.get('error'):
                    continue
                idx = [n for n, op in enumerate(g['ops']) if op[0] == k]
                got = [canon_answer(r['answers'][n]) for n in idx]
                if gpre[gi] and got != group_fold(g, k, o6[0]):
                    dis.append({'kind': 'model-vs-impl-answers (several objects)', 'group': gi, 'session': k})
                if gpre[gi] and canon_cache({fw.as_str(n): fw.as_str(t) for n, t in o6[1]}) != canon_cache(r['caches'][k]):
                    dis.append({'kind': 'model-vs-impl-cache-files (several objects)', 'group': gi, 'session': k})
                if [gspec[gi][n] for n in idx] != group_fold(g, k, o8):
                    dis.append({'kind': 'python-spec-vs-coq-spec (several objects)', 'group': gi, 'session': k})
                if bool(o7) and o6[0] != o8:
                    dis.append({'kind': 'model-vs-spec (theorem instance!) (several objects)', 'group': gi, 'session': k})
            # the fold of getAllele (python, used above) against the model's alleles_of (mode 9)
            folds = []
            for i, c in enumerate(cases):
                for run, pl, ans in zip(c['history'], [expand_run(r_)[1] for r_ in c['history']], mo[i][0]):
                    if ans != [-1]:
                        folds += [[ans[k] for k in e[1]] for e in pl if e[0] == 'all']
            folds = folds[:3000]
            m9 = fw.run_model('C18', 9, [[f] for f in folds])
            for f, o in zip(folds, m9):
                if [o] != fold_alleles(f):
                    dis.append({'kind': 'python-getAllele-fold-vs-coq', 'answers': f, 'coq': o})
            self.cov['getAllele_folds_checked_in_coq'] = len(folds)
            # read_cached on arbitrary (also damaged) cache files: real method against the model's parser
            texts = [gen_cache_text(self.rng) for _ in range(150 if self.tier == 'quick' else 1500)]
            rt = fw.run_impl('impl_c18.py', {'cache_texts': texts})['texts']
            mt = fw.run_model('C18', 4, [[fw.to_val(t)] for t in texts])
            for t, a, b in zip(texts, rt, mt):
                got = [[e[0], fw.to_val(e[1]), [fw.to_val(x) for x in e[2]]] for e in a['entries']]
                if got != b:
                    dis.append({'kind': 'read_cached-vs-model-parser', 'text': t, 'impl': a, 'model': b})
            self.cov['cache_texts_parsed_by_both'] = len(texts)
            self.cov['cache_texts_where_read_cached_raised'] = sum(1 for a in rt if a['raised'])
            # vm_compute cross-check of the extracted binary
            small = [i for i in range(len(cases)) if len(json.dumps(cases[i])) < 2500] or list(range(len(cases)))
            idx = sorted(self.rng.sample(small, min(100, len(small))))
            ok, nmm, log = fw.vm_crosscheck('C18', 0, [(vals[i], mo[i]) for i in idx])
            self.cov['vm_compute_crosscheck'] = {'cases': len(idx), 'mismatches': nmm}
            if not ok:
                raise fw.Broken('extraction', 'vm_compute and extracted model disagree: ' + log[-800:])
        self.window_stream(dis)
        self.cov['disagreements'] = len(dis)
        k = [i for i in range(len(cases)) if pre[i] and not res[i].get('error')][:3]
        self.cov['samples'] = [{'vcf': cases[i]['vcf'], 'run': cases[i]['history'][-1], 'impl': res[i]['runs'][-1],
                                'cache_files': sorted(res[i]['cache'])} for i in k]
        if dis:
            self.dis = dis
            d0 = dict(dis[0])
            if 'wcase' in d0:
                d0['input'] = self.wcases[d0['wcase']]
            if 'case' in d0:
                d0['input'] = cases[d0['case']]
            if 'group' in d0:
                d0['input'] = groups[d0['group']]
            raise fw.Broken('correspondence', '%d disagreements (%s); first: %s'
                            % (len(dis), sorted(set(d['kind'] for d in dis)), json.dumps(d0, default=str)[:1500]))


    # ---------------------------------------------------------------- K: region-restricted loading
    def window_stream(self, dis):
        """histories whose runs carry region_start / region_end: real class against Model/C18x (mode 10, answers and
        cache files), the specification spec_run_x (python transcription = Coq mode 12) on the implementation's answers
        under the precondition of C18_window_history_spec, the recorded mode disagreements replayed as part of the stream"""
        rnd, exh = self.make_window_cases()
        wcases = rnd + exh
        self.wcases = wcases
        t0 = time.time()
        wres = run_impl_cases(wcases)
        self.cov['seconds_running_the_real_class'] = round(self.cov.get('seconds_running_the_real_class', 0) + time.time() - t0, 1)
        self.wres = wres
        # search() looks at both streams
        self.cases = list(self.cases) + wcases
        self.impl_res = list(self.impl_res) + wres
        pre = [precondition(c) for c in wcases]
        inside = [hist_inside(c) for c in wcases]
        spec = [[spec_run(c['vcf'], run) for run in c['history']] for c in wcases]
        nq = 0
        h_kind, h_where, h_mode = {}, {}, {}
        distinct = set()
        shared = served_w = 0
        for c in wcases:
            writers = {}
            for run in c['history']:
                xr = expand_run(run)[0]
                cf = xr['cfg']
                w = win_of(cf)
                kind = ('none' if w == (None, None) else 'unacceptable' if not win_valid(w) else
                        'start-only' if w[1] is None else 'end-only' if w[0] is None else 'empty' if w[0] == w[1] else 'both')
                h_kind[kind] = h_kind.get(kind, 0) + 1
                m = ('eager-all' if not is_lazy(cf) and cf['chrom'] is None else 'eager-one' if not is_lazy(cf) else
                     ('cache' if cf['cache'] else '') + ('+lazy' if cf['lazy'] else ''))
                h_mode[m] = h_mode.get(m, 0) + 1
                lo, hi = win_bounds(w)
                seen_c = set()
                for q in xr['queries']:
                    nq += 1
                    p_ = q[2]
                    at = [r for r in c['vcf']['records'] if r['chrom'] == q[1] and r['pos'] - 1 == p_]
                    where = ('no-window' if kind == 'none' else 'unacceptable' if kind == 'unacceptable' else
                             'first' if p_ == lo and p_ < hi else 'last' if p_ == hi - 1 and p_ >= lo else 'inside' if lo <= p_ < hi else
                             'at-region_end' if p_ == hi else 'before(long REF reaches in)' if p_ < lo and any(rec_in_win(w, r) for r in at) else
                             'before' if p_ < lo else 'beyond')
                    h_where[where] = h_where.get(where, 0) + 1
                    if at and kind != 'none':
                        distinct.add(fw.canon_hash([repr([(r['ref'], tuple(r['alts']), tuple(map(tuple, r['gts']))) for r in at]),
                                                    repr(sorted(cf.items(), key=str)), repr(q[2:]), q[0], repr(c['vcf']['samples']), where]))
                    if cf['cache'] and cacheable(q[1]) and q[1] not in seen_c:
                        seen_c.add(q[1])
                        n = cache_name(cf, q[1])
                        if n in writers:
                            served_w += 1
                            if writers[n] != w:
                                shared += 1
                        elif q[1] in c['vcf']['contigs'] and win_valid(w):
                            writers[n] = w
        # what the generated records and settings look like (the shapes the site rules have a defined behaviour for)
        h_rec, h_selx = {}, {}
        for c in wcases:
            for r_ in c['vcf']['records']:
                for kd, yes in (('multi-allelic ALT list', len(r_['alts']) > 1), ('no ALT', not r_['alts']),
                                ('REF longer than one base', len(r_['ref']) > 1), ('multi-base or symbolic ALT', any(len(a) != 1 or a == '*' for a in r_['alts'])),
                                ('a missing allele (.)', any(a is None for g_ in r_['gts'] for a in g_)), ('a haploid call', any(len(g_) == 1 for g_ in r_['gts'])),
                                ('a triploid call', any(len(g_) == 3 for g_ in r_['gts'])), ('unphased separator', r_.get('sep') == '/'),
                                ('same position as another record', sum(1 for x in c['vcf']['records'] if x['chrom'] == r_['chrom'] and x['pos'] == r_['pos']) > 1)):
                    if yes:
                        h_rec[kd] = h_rec.get(kd, 0) + 1
            for run in c['history']:
                sel = run['cfg']['select']
                kd = ('None' if sel is None else 'empty list' if not sel else 'with a name the VCF does not have' if set(sel) - set(c['vcf']['samples'])
                      else 'with a repeated name' if len(set(sel)) < len(sel) else 'all samples' if set(sel) == set(c['vcf']['samples']) else 'proper subset')
                h_selx[kd] = h_selx.get(kd, 0) + 1
        # the abstraction of the generated VCFs (pysam's view) for this stream too
        nspec = 0
        for i, (c, r, sp, ok) in enumerate(zip(wcases, wres, spec, pre)):
            if r.get('error'):
                dis.append({'kind': 'impl-runner (window)', 'wcase': i, 'error': r['error']})
                continue
            mine = [[x['chrom'], x['pos'], x['ref'], list(x['alts']), rec_gts(x)] for x in c['vcf']['records']]
            if mine != r['view'] or r['samples'] != c['vcf']['samples'] or r['contigs'] != c['vcf']['contigs']:
                dis.append({'kind': 'vcf-abstraction (window)', 'wcase': i, 'mine': mine[:3], 'pysam': r['view'][:3]})
            if not ok:
                continue
            # the statement itself (C18_window_history_spec) on the implementation's answers
            for j, (run, got) in enumerate(zip(c['history'], r['runs'])):
                g = canon_impl_run(got)
                nspec += len(g)
                if g != sp[j]:
                    dis.append({'kind': 'impl-vs-spec (window)', 'wcase': i, 'run': j})
        # the recorded disagreements between the modes must still be what the model says they are (compared below with
        # the model like every other case); here: do they still show on the real class?
        still = []
        for n, f in enumerate(WINDOW_FINDINGS):
            r = wres[n]
            if not r.get('error') and self.finding_shows(f, r):
                still.append(f[0])
        self.cov['window'] = {
            'cases': len(wcases), 'recorded_mode_disagreements': len(WINDOW_FINDINGS), 'corpus_cases': len(self.window_corpus),
            'random_cases': len(rnd) - len(WINDOW_FINDINGS) - len(self.window_corpus), 'small_scope_cases': len(exh),
            'runs': sum(len(c['history']) for c in wcases), 'lookups': nq, 'distinct_nontrivial': len(distinct),
            'rule': 'non-trivial = the run has a window and the queried (contig,pos) carries a VCF record; distinct by hash of (records at the '
                    'site, all constructor settings incl. mode flags and window, query, sample header, where the position lies relative to the window)',
            'records': sum(len(c['vcf']['records']) for c in wcases), 'histogram_record_shapes': h_rec,
            'histogram_select_samples_per_run': h_selx,
            'histogram_window_kind_per_run': h_kind, 'histogram_mode_per_run': h_mode, 'histogram_query_position': h_where,
            'contig_loads_served_from_cache': served_w, 'of_these_written_under_another_window': shared,
            'precondition_hit_rate': round(sum(pre) / max(1, len(pre)), 4),
            'histories_with_all_queries_inside_the_window': sum(1 for a, b in zip(pre, inside) if a and b),
            'answers_compared_with_specification': nspec,
            'mode_disagreements_for_one_window_still_reproduced_on_the_real_class': still,
            'small_scope': ('complete' if self.tier == 'thorough' else 'sampled') + ': 4-base REF at 5, SNVs at 10 and 12; every window with edges '
                           'in {None,0..13} x eager-all / eager-one / lazy / cache (write) / cache (read) / lazy+cache, every position 0..13',
        }
        self.cov['evaluations'] += nq
        self.cov['distinct_nontrivial'] += len(distinct)
        self.cov['answers_compared_with_specification'] += nspec
        if not self.model_ok:
            return
        vals = [case_val(c, x=True) for c in wcases]
        mo = fw.run_model('C18', 10, vals)
        mpre = fw.run_model('C18', 11, vals)
        mspec = fw.run_model('C18', 12, vals)
        mins = fw.run_model('C18', 14, vals)
        ntr = n_w_outside = 0
        for i, (c, r) in enumerate(zip(wcases, wres)):
            if r.get('error'):
                continue
            if bool(mpre[i]) != pre[i]:
                dis.append({'kind': 'python-precondition-vs-coq (window)', 'wcase': i, 'python': pre[i], 'coq': mpre[i]})
            if bool(mins[i]) != inside[i]:
                dis.append({'kind': 'python-hist_inside-vs-coq', 'wcase': i, 'python': inside[i], 'coq': mins[i]})
            plans = [expand_run(run)[1] for run in c['history']]
            fold = lambda runs: [fold_run(pl, a) for pl, a in zip(plans, runs)]
            if fold(mspec[i]) != spec[i]:
                dis.append({'kind': 'python-spec-vs-coq-spec (window)', 'wcase': i, 'python': spec[i], 'coq': mspec[i]})
            got = [canon_impl_run(x) for x in r['runs']]
            ntr += sum(len(x) for x in got)
            mruns = fold(mo[i][0])
            # outside the hypotheses of C18_window_history_spec (runs sharing a cache file under different windows, a
            # cached run asked below its region_start, unsupported names) the answers depend on what an object still
            # holds in memory - the refuted statements - and are not compared
            if not pre[i]:
                n_w_outside += 1
            elif got != mruns:
                j = next((j for j in range(len(got)) if j >= len(mruns) or got[j] != mruns[j]), 0)
                dis.append({'kind': 'model-vs-impl-answers (window)', 'wcase': i, 'run': j})
            mfs = {fw.as_str(n): fw.as_str(t) for n, t in mo[i][1]}
            if pre[i] and canon_cache(mfs) != canon_cache(r['cache']):
                dis.append({'kind': 'model-vs-impl-cache-files (window)', 'wcase': i,
                            'model': {k: mfs[k] for k in sorted(mfs)[:3]}, 'impl': {k: r['cache'][k] for k in sorted(r['cache'])[:3]}})
            if pre[i] and mo[i][0] != mspec[i]:
                dis.append({'kind': 'model-vs-spec (theorem instance!) (window)', 'wcase': i})
        self.cov['window']['traces_validated_against_impl'] = ntr
        self.cov['window']['histories_outside_the_precondition_not_compared'] = n_w_outside
        self.cov['traces_validated_against_impl'] += ntr
        self.cov['cache_files_compared'] += sum(len(r.get('cache', {})) for r in wres)
        # read_cached under a window on arbitrary cache files: real method against the model's parser (mode 15)
        texts = [gen_cache_text(self.rng) for _ in range(120 if self.tier == 'quick' else 1500)]
        wins = [gen_cache_window(self.rng) for _ in texts]
        small = [i for i in range(len(wcases)) if len(json.dumps(wcases[i])) < 2400] or list(range(len(wcases)))
        idx = sorted(self.rng.sample(small, min(100, len(small))))
        with ThreadPoolExecutor(max_workers=2) as ex:        # the real read_cached and the vm_compute cross-check side by side
            f_rt = ex.submit(lambda: fw.run_impl('impl_c18.py', {'cache_texts': texts, 'cache_windows': [list(w) for w in wins]})['texts'])
            f_vm = ex.submit(lambda: fw.vm_crosscheck('C18', 10, [(vals[i], mo[i]) for i in idx], run_name='run_C18x', require='Model.C18x'))
            rt = f_rt.result()
            ok, nmm, log = f_vm.result()
        mt = fw.run_model('C18', 15, [[fw.to_val(t), opt(w[0]), opt(w[1])] for t, w in zip(texts, wins)])
        for t, w, a, b in zip(texts, wins, rt, mt):
            got = [[e[0], fw.to_val(e[1]), [fw.to_val(x) for x in e[2]]] for e in a['entries']]
            if got != b:
                dis.append({'kind': 'read_cached-vs-model-parser (window)', 'text': t, 'window': list(w), 'impl': a, 'model': b})
        self.cov['window']['cache_texts_parsed_by_both_under_a_window'] = len(texts)
        self.cov['window']['vm_compute_crosscheck'] = {'cases': len(idx), 'mismatches': nmm}
        if not ok:
            raise fw.Broken('extraction', 'vm_compute and extracted model disagree (window): ' + log[-800:])

    def finding_shows(self, f, r):
        """does the recorded disagreement between two runs of one window still show in the implementation's result r?"""
        a, b = f[3]
        runs = [canon_impl_run(x) for x in r['runs']]
        return len(runs) > max(a, b) and runs[a] != runs[b]

    # ---------------------------------------------------------------- search
    def failing_all(self, case, r):
        """per run, the first (run, query, got, expected) where the implementation's answer differs from the specification"""
        if r.get('error'):
            return [(0, None, r['error'], None)]
        out = []
        for j, (run, got) in enumerate(zip(case['history'], r['runs'])):
            g, e = canon_impl_run(got), spec_run(case['vcf'], run)
            if g != e:
                if has_window(run['cfg']):
                    # what the STATEMENT constrains under a window: the answers inside it, and that the modes agree
                    if g == [-1] or e == [-1] or len(g) != len(e):
                        if win_valid(win_of(run['cfg'])):
                            out.append((j, None, g, e))
                        continue
                    k = next((k for k in range(len(e)) if g[k] != e[k] and self.window_deviation_counts(case, r, j, k, g[k])), None)
                    if k is not None:
                        out.append((j, k, g[k], e[k]))
                elif g == [-1] or e == [-1] or len(g) != len(e):
                    out.append((j, None, g, e))
                else:
                    k = next(k for k in range(len(e)) if g[k] != e[k])
                    out.append((j, k, g[k], e[k]))
        return out

    def window_deviation_counts(self, case, r, j, k, got):
        """a deviation of run j, query k from spec_run_x under a window is a violation of the statement when the position
        lies INSIDE the (acceptable) window - there the specification is the VCF itself - or when another run of the
        history with the same settings, window and scope answers the same query differently (mode dependence).  What every
        mode answers alike outside the window is 'as the code defines it': a change there breaks the model tie, it is not
        reported as a failing input."""
        run = case['history'][j]
        cf, q = run['cfg'], run['queries'][k]
        w = win_of(cf)
        poss = [x[2] for x in read_sites(q[1])] if q[0] == 2 else [q[2]]
        if win_valid(w) and all(in_win(w, p_) for p_ in poss):
            return True
        ea = lambda c_: (not is_lazy(c_)) and c_['chrom'] is None
        scope = lambda c_, ct: is_lazy(c_) or c_['chrom'] is None or c_['chrom'] == ct
        contigs = set(x[1] for x in read_sites(q[1])) if q[0] == 2 else {q[1]}
        for j2, (run2, got2) in enumerate(zip(case['history'], r['runs'])):
            cf2 = run2['cfg']
            if j2 == j or win_of(cf2) != w or not same_sem(cf, cf2) or ea(cf2) != ea(cf) or (got2 and got2[0] == 'RAISE'):
                continue
            if any(scope(cf, ct) != scope(cf2, ct) for ct in contigs):
                continue
            if cf2['cache'] and cf2.get('rstart') is not None and any(p_ < cf2['rstart'] for p_ in poss):
                continue                  # recorded: window:long-REF-before-region_start
            g2 = canon_impl_run(got2)
            if any(q2 == q and g2[k2] != got for k2, q2 in enumerate(run2['queries']) if k2 < len(g2)):
                return True
        return False

    def failing(self, case, r):
        fa = self.failing_all(case, r)
        return fa[0] if fa else None

    def shrink(self, case, key, HD=''):
        """greedy, batched: drop runs / queries / records / settings while the implementation still deviates from the
        specification (all candidates of a round run in one process of the real class)"""
        def variants(c):
            h = c['history']
            for j in range(len(h)):
                if len(h) > 1:
                    yield {'vcf': c['vcf'], 'history': h[:j] + h[j + 1:]}
            for j in range(len(h)):
                qs = h[j]['queries']
                if len(qs) > 2:
                    yield {'vcf': c['vcf'], 'history': h[:j] + [dict(h[j], queries=qs[len(qs) // 2:])] + h[j + 1:]}
                    yield {'vcf': c['vcf'], 'history': h[:j] + [dict(h[j], queries=qs[:len(qs) // 2])] + h[j + 1:]}
                for k in range(len(qs)):
                    if len(qs) > 1:
                        yield {'vcf': c['vcf'], 'history': h[:j] + [dict(h[j], queries=qs[:k] + qs[k + 1:])] + h[j + 1:]}
            recs = c['vcf']['records']
            if len(recs) > 3:
                yield {'vcf': dict(c['vcf'], records=recs[:len(recs) // 2]), 'history': h}
                yield {'vcf': dict(c['vcf'], records=recs[len(recs) // 2:]), 'history': h}
            for k in range(len(recs)):
                yield {'vcf': dict(c['vcf'], records=recs[:k] + recs[k + 1:]), 'history': h}
            for j in range(len(h)):
                cf = h[j]['cfg']
                for f, v in (('ignore', None), ('select', None), ('chrom', None), ('phased', True), ('rstart', None), ('rend', None)):
                    if cf.get(f) != v:
                        yield {'vcf': c['vcf'], 'history': h[:j] + [dict(h[j], cfg=dict(cf, **{f: v}))] + h[j + 1:]}
        def keys_of(c, r):
            ks = set()
            for f in self.failing_all(c, r):
                k = self.classify(c, f)[0]
                ks.add(k)
                if HD and f[0] > 0:
                    ks.add(k + HD)
            return ks
        for _ in range(7):
            cands = [c for c in itertools.islice(variants(case), 150) if precondition(c)]
            if not cands:
                break
            res = fw.run_impl('impl_c18.py', {'cases': cands})['cases']
            ok = [c for c, r in zip(cands, res) if key in keys_of(c, r)]
            if not ok:
                break
            case = min(ok, key=lambda c: len(json.dumps(c)))
        return case

    def classify(self, case, f):
        j, k, got, exp = f
        if k is None:
            return 'ctor', 'run %d (%s): %s, specification: %s' % (j, flags(case['history'][j]['cfg']), show_answer(got), show_answer(exp))
        cf = case['history'][j]['cfg']
        q = case['history'][j]['queries'][k]
        mode = ('use_cache' if cf['cache'] else '') + ('+lazyLoad' if cf['lazy'] else '') or 'eager'
        where = 'reads' if q[0] == 2 else ('absent-contig' if q[1] not in case['vcf']['contigs'] else 'site')
        key = '%s:%s:%s' % (['getAllelesAt', 'has_location', 'getAllele'][q[0]], mode, where)
        if has_window(cf):
            w = win_of(cf)
            key += ':region-' + ('unacceptable' if not win_valid(w) else 'reads' if q[0] == 2 else 'inside' if in_win(w, q[2])
                                 else 'outside(another mode answers differently)')
        what = ('run %d of %d [%s]: call %d %s returned %s; the VCF demands %s'
                % (j + 1, len(case['history']), flags(cf), k + 1, describe_query(q), show_answer(got), show_answer(exp)))
        if has_window(cf) and not key.endswith('inside'):
            what = what.replace('the VCF demands', 'the records this run can see demand') + \
                ' (and another run of the history with the same settings and window answers this call differently)'
        return key, what

    def search(self):
        """the specification (python transcription of Coq spec_run; the two are compared in correspondence()) is
        evaluated on the IMPLEMENTATION's answers over the same streams; no model needed"""
        cases = getattr(self, 'cases', None)
        res = getattr(self, 'impl_res', None)
        if cases is None or res is None:
            corpus, rnd, exh = self.make_cases()
            cases = corpus + rnd + exh
            res = run_impl_cases(cases)
        if getattr(self, 'wcases', None) is None:
            # the stream with region_start / region_end was not reached (the correspondence stopped before it)
            wr, we = self.make_window_cases()
            self.wcases = wr + we
            self.wres = run_impl_cases(self.wcases)
            cases = list(cases) + self.wcases
            res = list(res) + self.wres
        HD = ':only-after-earlier-runs-on-the-same-cache-dir'
        fails = []
        for c, r in zip(cases, res):
            if precondition(c):
                for f in self.failing_all(c, r):
                    fails.append((c, f))
        # does the failing run also fail on a fresh cache directory?  (one batch on the real class)
        later = [(c, f) for c, f in fails if f[0] > 0 and c['history'][f[0]]['cfg']['cache']][:400]
        alone = [{'vcf': c['vcf'], 'history': [c['history'][f[0]]]} for c, f in later]
        ares = run_impl_cases(alone) if alone else []
        hist_dep = set((id(c), f[0]) for (c, f), a, r in zip(later, alone, ares) if self.failing(a, r) is None)
        found = {}
        for c, f in fails:
            key = self.classify(c, f)[0] + (HD if (id(c), f[0]) in hist_dep else '')
            found.setdefault(key, []).append((len(json.dumps(c)), c))
        for key in found:
            found[key] = [c for _, c in sorted(found[key], key=lambda x: x[0])[:4]]
        # several objects in one process
        self.search_groups()
        done = set()
        order = sorted(found, key=lambda k: (HD not in k, len(json.dumps(found[k][0])), k))
        for key in order[:5]:
            if len(self.witnesses) >= 3:
                break
            # a witness must reproduce in a process of its own (other cases of the batch may have left state behind)
            alone_res = run_alone(found[key], 'cases')
            cand = next((c for c, r in zip(found[key], alone_res) if self.failing(c, r) is not None), None)
            if cand is None:
                self.notes.append('failures of kind %s did not reproduce in a fresh process (state carried over between cases?)' % key)
                continue
            c = cand
            try:
                c = self.shrink(c, key, HD)
            except Exception as e:
                self.notes.append('shrink failed: %r' % (e,))
            r = fw.run_impl('impl_c18.py', {'cases': [c]})['cases'][0]
            fa = self.failing_all(c, r)
            if not fa:
                c = cand
                r = fw.run_impl('impl_c18.py', {'cases': [c]})['cases'][0]
                fa = self.failing_all(c, r)
                if not fa:
                    continue
            base = key[:-len(HD)] if key.endswith(HD) else key
            f = next((x for x in fa if self.classify(c, x)[0] == base and (x[0] > 0 or not key.endswith(HD))), fa[0])
            key2, what = self.classify(c, f)
            if key.endswith(HD) and f[0] > 0:
                a = {'vcf': c['vcf'], 'history': [c['history'][f[0]]]}
                if self.failing(a, fw.run_impl('impl_c18.py', {'cases': [a]})['cases'][0]) is None:
                    key2 += HD
                    what += ' (the same run on a fresh cache directory answers correctly)'
            if key2 in done:
                continue
            done.add(key2)
            self.witnesses.append({'key': key2, 'what': what, 'input': c, 'impl': r.get('runs'),
                                   'expected': [spec_run(c['vcf'], run) for run in c['history']],
                                   'cache_files': r.get('cache')})

    # -- several objects
    def group_failing(self, g, r):
        if r.get('error'):
            return (None, r['error'], None)
        exp = group_spec(g)
        got = [canon_answer(a) for a in r['answers']]
        for n in range(len(exp)):
            if n >= len(got) or got[n] != exp[n]:
                return (n, got[n] if n < len(got) else None, exp[n])
        return None

    def describe_group(self, g, f):
        n, got, exp = f
        if n is None:
            return 'objects:runner', 'runner failed: %s' % got
        s_, i, q = g['ops'][n]
        cf = g['sessions'][s_]['objects'][i]
        mode = ('use_cache' if cf['cache'] else '') + ('+lazyLoad' if cf['lazy'] else '') or 'eager'
        others = sorted(set((a, b) for a, b, _ in g['ops'][:n] if (a, b) != (s_, i)))
        key = 'objects:%s:%s' % (mode, ['getAllelesAt', 'has_location', 'getAllele'][q[0]])
        what = ('%d resolver objects in one process; operation %d on object %d of VCF %d [%s]: %s returned %s; that object\'s '
                'settings and VCF demand %s; objects used before it: %s'
                % (sum(len(x['objects']) for x in g['sessions']), n + 1, i, s_, flags(cf), describe_query(q),
                   show_answer(got), show_answer(exp),
                   ', '.join('object %d of VCF %d [%s]' % (b, a, flags(g['sessions'][a]['objects'][b])) for a, b in others) or 'none'))
        return key, what

    def search_groups(self):
        groups = getattr(self, 'groups', None)
        gres = getattr(self, 'gres', None)
        if groups is None or gres is None:
            groups = [gen_group(self.rng) for _ in range(70)]
            gres = run_impl_groups(groups)
        bad = [g for g, r in zip(groups, gres) if group_precondition(g) and self.group_failing(g, r) is not None]
        bad = sorted(bad, key=lambda g: len(json.dumps(g)))[:6]
        alone = run_alone(bad, 'groups')
        cand = next(((g, r) for g, r in zip(bad, alone) if self.group_failing(g, r) is not None), None)
        if cand is None:
            if bad:
                self.notes.append('multi-object failures did not reproduce in a fresh process')
            return
        g, r = cand
        key = self.describe_group(g, self.group_failing(g, r))[0]
        for _ in range(5):
            ops = g['ops']
            n = self.group_failing(g, r)[0] or 0
            vs = []
            if n + 1 < len(ops):
                vs.append(dict(g, ops=ops[:n + 1]))
            for a, b in ((0, n // 2), (n // 2, n), (0, n // 4), (n // 4, n // 2), (n // 2, 3 * n // 4), (3 * n // 4, n)):
                if b > a:
                    vs.append(dict(g, ops=ops[:a] + ops[b:]))
            for k in range(min(n, 6)):
                vs.append(dict(g, ops=ops[:k] + ops[k + 1:]))
            for k, sess in enumerate(g['sessions']):
                recs = sess['vcf']['records']
                if len(recs) > 1:
                    for part in (recs[:len(recs) // 2], recs[len(recs) // 2:]):
                        ss = list(g['sessions'])
                        ss[k] = dict(sess, vcf=dict(sess['vcf'], records=part))
                        vs.append(dict(g, sessions=ss))
            vs = [x for x in vs if x['ops'] and group_precondition(x)][:16]
            rs = run_alone(vs, 'groups')
            ok = [(x, y) for x, y in zip(vs, rs)
                  if self.group_failing(x, y) is not None and self.describe_group(x, self.group_failing(x, y))[0] == key]
            if not ok:
                break
            g, r = min(ok, key=lambda xy: len(json.dumps(xy[0])))
        f = self.group_failing(g, r)
        key, what = self.describe_group(g, f)
        self.witnesses.append({'key': key, 'what': what, 'input': {'group': g}, 'impl': r.get('answers'),
                               'expected': group_spec(g)})

    def replay(self, data):
        w = data.get('witness')
        if w and isinstance(w.get('input'), dict) and 'group' in w['input']:
            g = w['input']['group']
            r = fw.run_impl('impl_c18.py', {'groups': [g]})['groups'][0]
            f = self.group_failing(g, r)
            print(json.dumps({'input': g, 'impl': r.get('answers'), 'expected': group_spec(g)}, default=str)[:3000])
            if f is not None:
                print('VIOLATION property=C18 (replayed) %s' % self.describe_group(g, f)[1])
                return 1
            print('C18 replay: the recorded input no longer fails')
            return 0
        if w and 'input' in w:
            c = w['input']
            r = fw.run_impl('impl_c18.py', {'cases': [c]})['cases'][0]
            f = self.failing(c, r)
            print(json.dumps({'input': c, 'impl': r.get('runs'), 'expected': [spec_run(c['vcf'], run) for run in c['history']]},
                             default=str)[:3000])
            if f is not None:
                print('VIOLATION property=C18 (replayed) %s' % self.classify(c, f)[1])
                return 1
            print('C18 replay: the recorded input no longer fails')
            return 0
        return super().replay(data)
