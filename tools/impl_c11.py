"""runs the REAL create_count_table (non-binned branch) on synthetic tagged BAMs for C11.

payload: {'libs': [{'contigs': [[name, len], ...], 'reads': [readspec, ...]}, ...],
          'cases': [{'lib': i | [i, j], 'opts': {...}}, ...]}
readspec: {'name', 'flag', 'ref' (index or -1), 'pos', 'mapq', 'cigar' (str or None), 'tags': [[tag, 'i'|'Z', value], ...]}
result:  {'libs': [readback per lib], 'cases': [{'cells': [[sample, key, num, den], ...], 'raw': [...] | None} | {'error': ..}]}
Counts are returned as exact fractions (Fraction(float).limit_denominator, verified to 1e-9); floats never leave this file.
"""
import os, sys, collections
from fractions import Fraction
from types import SimpleNamespace
import fw

MAXDEN = 1000000


def make_bam(path, lib):
    import pysam
    header = {'HD': {'VN': '1.6', 'SO': 'coordinate'},
              'SQ': [{'SN': n, 'LN': l} for n, l in lib['contigs']]}
    # coordinate sorted: placed records by (ref, pos), unplaced last (stable)
    recs = sorted(enumerate(lib['reads']),
                  key=lambda x: (x[1]['ref'] if x[1]['ref'] >= 0 else 10 ** 9, x[1]['pos'], x[0]))
    with pysam.AlignmentFile(path, 'wb', header=header) as out:
        for i, r in recs:
            a = pysam.AlignedSegment(out.header)
            a.query_name = r['name']
            a.flag = r['flag']
            a.reference_id = r['ref']
            a.reference_start = r['pos'] if r['ref'] >= 0 else -1
            a.mapping_quality = r['mapq']
            if r['cigar']:
                a.cigarstring = r['cigar']
                n = sum(l for op, l in a.cigartuples if op in (0, 1, 4, 7, 8))
            else:
                n = 4
            a.query_sequence = 'A' * n
            a.query_qualities = pysam.qualitystring_to_array('I' * n)
            for tag, typ, val in r['tags']:
                a.set_tag(tag, val, typ)
            out.write(a)
    pysam.index(path)
    back = []
    with pysam.AlignmentFile(path) as f:
        for a in f:
            back.append({'name': a.query_name, 'flag': a.flag, 'refname': a.reference_name,
                         'pos': a.reference_start, 'end': a.reference_end, 'mapq': a.mapping_quality,
                         'cigar': a.cigarstring, 'ops': [op for op, l in (a.cigartuples or [])],
                         'tags': [[k, ('i' if isinstance(v, int) else 'Z'), v] for k, v in a.get_tags()]})
    return back


def frac(v):
    v = float(v)
    if v != v:
        return None
    fr = Fraction(v).limit_denominator(MAXDEN)
    if abs(float(fr) - v) > 1e-9 * max(1.0, abs(v)):
        raise ValueError('count %r is not a small rational' % (v,))
    return fr


def jval(x):
    """sample / key component -> JSON (None, int, str); NaN (pandas' None) -> None"""
    if x is None:
        return None
    if isinstance(x, float):
        if x != x:
            return None
        if x == int(x):
            return int(x)
        return repr(x)
    if isinstance(x, (bool,)):
        return str(x)
    if hasattr(x, 'item') and not isinstance(x, str):
        return jval(x.item())
    if isinstance(x, int):
        return int(x)
    return str(x)


def cells_of_df(df):
    cells = []
    for col in df.columns:
        sample = [jval(c) for c in (col if isinstance(col, tuple) else (col,))]
        series = df[col]
        if hasattr(series, 'columns'):      # duplicate column labels (two NaN samples): sum them
            series = series.sum(axis=1, min_count=1)
        for idx, v in series.items():
            fr = frac(v)
            if fr is None or fr == 0:
                continue
            key = [jval(c) for c in (idx if isinstance(idx, tuple) else (idx,))]
            cells.append([sample, key, fr.numerator, fr.denominator])
    return cells


def cells_of_raw(raw):
    cells = []
    for sample, counter in raw.items():
        s = [jval(c) for c in (sample if isinstance(sample, tuple) else (sample,))]
        for key, v in counter.items():
            fr = frac(v)
            if fr is None or fr == 0:
                continue
            k = [jval(c) for c in (key if isinstance(key, tuple) else (key,))]
            cells.append([s, k, fr.numerator, fr.denominator])
    return cells


def filter_decisions(T, args, o, bams):
    """read_should_be_counted called directly on every record (file order); None when it cannot be called"""
    import pysam
    fn = getattr(T, 'read_should_be_counted', None)
    if fn is None:
        return None
    bl = None
    if o.get('blacklist') is not None:
        bl = {}
        for c, s, e in o['blacklist']:
            bl.setdefault(c, []).append((s, e))
    out = []
    for path in bams:
        with pysam.AlignmentFile(path) as f:
            for read in f:
                try:
                    out.append(bool(fn(read, args, bl)))
                except Exception as e:
                    out.append(type(e).__name__)
    return out


def handler(p):
    from singlecellmultiomics.bamProcessing import bamToCountTable as T
    import pandas as pd
    scratch = os.environ['SCMO_SCRATCH']
    devnull = open(os.devnull, 'w')
    paths, backs = [], []
    for n, lib in enumerate(p['libs']):
        path = os.path.join(scratch, 'lib%d.bam' % n)
        backs.append(make_bam(path, lib))
        paths.append(path)
    out = []
    orig_from_dict = pd.DataFrame.from_dict
    for n, case in enumerate(p['cases']):
        o = case['opts']
        captured = []
        try:
            libs = case['lib'] if isinstance(case['lib'], list) else [case['lib']]
            bl = bed = None
            if o.get('blacklist') is not None:
                bl = os.path.join(scratch, 'bl%d.bed' % n)
                with open(bl, 'w') as fh:
                    for c, s, e in o['blacklist']:
                        fh.write('%s\t%d\t%d\n' % (c, s, e))
            if o.get('bed') is not None:
                bed = os.path.join(scratch, 'rg%d.bed' % n)
                with open(bed, 'w') as fh:
                    for c, s, e, name in o['bed']:
                        fh.write('%s\t%d\t%d\t%s\n' % (c, s, e, name))
            args = SimpleNamespace(
                alignmentfiles=[paths[i] for i in libs], head=None, o=None, bin=None, binTag='DS', sliding=None,
                bedfile=bed, showtags=False, featureTags=o.get('featureTags'),
                joinedFeatureTags=o.get('joinedFeatureTags'), byValue=o.get('byValue'),
                sampleTags=o.get('sampleTags', 'SM'), proper_pairs_only=o.get('proper_pairs_only', False),
                no_indels=o.get('no_indels', False), max_base_edits=o.get('max_base_edits'),
                no_softclips=o.get('no_softclips', False), minMQ=o.get('minMQ', 0), filterXA=o.get('filterXA', False),
                dedup=o.get('dedup', False), divideMultimapping=o.get('divideMultimapping', False),
                doNotDivideFragments=o.get('doNotDivideFragments', False), contig=o.get('contig'), blacklist=bl,
                r1only=o.get('r1only', False), r2only=o.get('r2only', False), filterMP=o.get('filterMP', False),
                splitFeatures=o.get('splitFeatures', False), featureDelimiter=o.get('featureDelimiter', ','),
                noNames=o.get('noNames', False), keepOverBounds=False, bulk=False)

            def spy(data, *a, **k):
                try:
                    captured.append({s: dict(c) for s, c in data.items()})
                except Exception:
                    pass
                return orig_from_dict(data, *a, **k)
            old = sys.stdout
            sys.stdout = devnull
            pd.DataFrame.from_dict = spy
            try:
                df = T.create_count_table(args, return_df=True)
            finally:
                sys.stdout = old
                pd.DataFrame.from_dict = orig_from_dict
            res = {'cells': cells_of_df(df)}
            res['raw'] = cells_of_raw(captured[0]) if len(captured) == 1 else None
            try:
                res['filter'] = filter_decisions(T, args, o, [paths[i] for i in libs]) if p.get('filter') else None
            except Exception:
                res['filter'] = None        # e.g. a changed signature: the table comparison still stands
            out.append(res)
        except BaseException as e:
            if isinstance(e, (KeyboardInterrupt,)):
                raise
            r = {'error': '%s: %s' % (type(e).__name__, e)}
            try:
                r['filter'] = filter_decisions(T, args, o, [paths[i] for i in libs]) if p.get('filter') else None
            except Exception:
                r['filter'] = None
            # an exception after the table was accumulated (DataFrame naming) keeps the captured table
            if len(captured) == 1:
                try:
                    r['raw'] = cells_of_raw(captured[0])
                except Exception:
                    pass
            out.append(r)
    return {'libs': backs, 'cases': out}


fw.impl_main(handler)
