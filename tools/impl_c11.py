"""runs the REAL create_count_table (non-binned branch) on synthetic tagged BAMs for C11.

payload: {'libs': [{'contigs': [[name, len], ...], 'reads': [readspec, ...]}, ...],
          'cases': [{'lib': i | [i, j], 'opts': {...}}, ...]}
readspec: {'name', 'flag', 'ref' (index or -1), 'pos', 'mapq', 'cigar' (str or None),
           'tags': [[tag, 'i'|'Z'|'f'|'d', value], ...]}
result:  {'libs': [readback per lib], 'cases': [{'cells': [[sample, key, num, den], ...], 'raw': [...] | None} | {'error': ..}],
          'xcases': [...]}
Counts are returned as exact fractions: Fraction(float) itself when its denominator is at most 2^40 (sums of halves,
quarters, float tags), else Fraction(float).limit_denominator, verified to 1e-9 (thirds, fifths); floats never leave
this file.  A float tag is read back as [numerator, denominator, str(value)] of the value pysam returns.

xcases (the parts of create_count_table around the accumulation): {'lib': [i, ...] (one BAM per entry, may be empty),
 'opts': {...}, 'x': {'head': N|None, 'bulk': bool, 'showtags': bool, 'mode': 'df'|'pickle'|'pickle.gz'|'csv'|'none'}}
 -> {'cells', 'raw'} | {'error'} | {'exit': True};  mode df = return_df=True; none = neither -o nor return_df.
"""
import os, sys, collections
from fractions import Fraction
from types import SimpleNamespace
import fw

MAXDEN = 1000000


def make_bam(path, lib):
    import pysam
    header = {'HD': {'VN': '1.6', 'SO': 'coordinate'},
              'SQ': [{'SN': n, 'LN': l} for n, l in lib['contigs']]}
    # coordinate sorted: placed records by (ref, pos), unplaced last (stable)
    recs = sorted(enumerate(lib['reads']),
                  key=lambda x: (x[1]['ref'] if x[1]['ref'] >= 0 else 10 ** 9, x[1]['pos'], x[0]))
    with pysam.AlignmentFile(path, 'wb', header=header) as out:
        for i, r in recs:
            a = pysam.AlignedSegment(out.header)
            a.query_name = r['name']
            a.flag = r['flag']
            a.reference_id = r['ref']
            a.reference_start = r['pos'] if r['ref'] >= 0 else -1
            a.mapping_quality = r['mapq']
            if r['cigar']:
                a.cigarstring = r['cigar']
                n = sum(l for op, l in a.cigartuples if op in (0, 1, 4, 7, 8))
            else:
                n = 4
            a.query_sequence = 'A' * n
            a.query_qualities = pysam.qualitystring_to_array('I' * n)
            for tag, typ, val in r['tags']:
                a.set_tag(tag, val, typ)
            out.write(a)
    pysam.index(path)
    back = []
    with pysam.AlignmentFile(path) as f:
        for a in f:
            back.append({'name': a.query_name, 'flag': a.flag, 'refname': a.reference_name,
                         'pos': a.reference_start, 'end': a.reference_end, 'mapq': a.mapping_quality,
                         'cigar': a.cigarstring, 'ops': [op for op, l in (a.cigartuples or [])],
                         'tags': [tag_back(k, v) for k, v in a.get_tags()]})
    return back


def tag_back(k, v):
    if isinstance(v, float):
        if v != v or v in (float('inf'), float('-inf')):
            return [k, 'f', [0, 0, str(v)]]
        n, d = v.as_integer_ratio()
        return [k, 'f', [n, d, str(v)]]
    return [k, ('i' if isinstance(v, int) else 'Z'), v]


def frac(v):
    v = float(v)
    if v != v:
        return None
    if v in (float('inf'), float('-inf')):
        raise ValueError('count %r is not finite' % (v,))
    fr = Fraction(v)
    if fr.denominator <= 2 ** 40:
        return fr
    fr = fr.limit_denominator(MAXDEN)
    if abs(float(fr) - v) > 1e-9 * max(1.0, abs(v)):
        raise ValueError('count %r is not a small rational' % (v,))
    return fr


def jval(x):
    """sample / key component -> JSON (None, int, str); NaN (pandas' None) -> None"""
    if x is None:
        return None
    if isinstance(x, float):
        if x != x:
            return None
        if x == int(x):
            return int(x)
        return repr(x)
    if isinstance(x, (bool,)):
        return str(x)
    if hasattr(x, 'item') and not isinstance(x, str):
        return jval(x.item())
    if isinstance(x, int):
        return int(x)
    return str(x)


def cells_of_df(df):
    cells = []
    for col in df.columns:
        sample = [jval(c) for c in (col if isinstance(col, tuple) else (col,))]
        series = df[col]
        if hasattr(series, 'columns'):      # duplicate column labels (two NaN samples): sum them
            series = series.sum(axis=1, min_count=1)
        for idx, v in series.items():
            fr = frac(v)
            if fr is None or fr == 0:
                continue
            key = [jval(c) for c in (idx if isinstance(idx, tuple) else (idx,))]
            cells.append([sample, key, fr.numerator, fr.denominator])
    return cells


def cells_of_raw(raw):
    cells = []
    for sample, counter in raw.items():
        s = [jval(c) for c in (sample if isinstance(sample, tuple) else (sample,))]
        for key, v in counter.items():
            fr = frac(v)
            if fr is None or fr == 0:
                continue
            k = [jval(c) for c in (key if isinstance(key, tuple) else (key,))]
            cells.append([s, k, fr.numerator, fr.denominator])
    return cells


def filter_decisions(T, args, o, bams):
    """read_should_be_counted called directly on every record (file order); None when it cannot be called"""
    import pysam
    fn = getattr(T, 'read_should_be_counted', None)
    if fn is None:
        return None
    bl = None
    if o.get('blacklist') is not None:
        bl = {}
        for c, s, e in o['blacklist']:
            bl.setdefault(c, []).append((s, e))
    out = []
    for path in bams:
        with pysam.AlignmentFile(path) as f:
            for read in f:
                try:
                    out.append(bool(fn(read, args, bl)))
                except Exception as e:
                    out.append(type(e).__name__)
    return out


def option_values(o, bams, scratch, x=None):
    """the attribute values a caller sets on the options namespace for option dict o (files named by content)"""
    import hashlib
    bl = bed = None
    if o.get('blacklist') is not None:
        txt = ''.join('%s\t%d\t%d\n' % (c, s, e) for c, s, e in o['blacklist'])
        bl = os.path.join(scratch, 'bl_%s.bed' % hashlib.sha1(txt.encode()).hexdigest()[:16])
        with open(bl, 'w') as fh:
            fh.write(txt)
    if o.get('bed') is not None:
        txt = ''.join('%s\t%d\t%d\t%s\n' % (c, s, e, name) for c, s, e, name in o['bed'])
        bed = os.path.join(scratch, 'rg_%s.bed' % hashlib.sha1(txt.encode()).hexdigest()[:16])
        with open(bed, 'w') as fh:
            fh.write(txt)
    x = x or {}
    return dict(
        alignmentfiles=list(bams), head=x.get('head'), o=x.get('o'), bin=None, binTag='DS', sliding=None,
        bedfile=bed, showtags=bool(x.get('showtags', False)), featureTags=o.get('featureTags'),
        joinedFeatureTags=o.get('joinedFeatureTags'), byValue=o.get('byValue'),
        sampleTags=o.get('sampleTags', 'SM'), proper_pairs_only=o.get('proper_pairs_only', False),
        no_indels=o.get('no_indels', False), max_base_edits=o.get('max_base_edits'),
        no_softclips=o.get('no_softclips', False), minMQ=o.get('minMQ', 0), filterXA=o.get('filterXA', False),
        dedup=o.get('dedup', False), divideMultimapping=o.get('divideMultimapping', False),
        doNotDivideFragments=o.get('doNotDivideFragments', False), contig=o.get('contig'), blacklist=bl,
        r1only=o.get('r1only', False), r2only=o.get('r2only', False), filterMP=o.get('filterMP', False),
        splitFeatures=o.get('splitFeatures', False), featureDelimiter=o.get('featureDelimiter', ','),
        noNames=o.get('noNames', False), keepOverBounds=False, bulk=bool(x.get('bulk', False)))


def run_table(T, args):
    """one create_count_table(args, return_df=True) call -> {'cells', 'raw'} | {'error', ['raw']}"""
    import pandas as pd
    orig_from_dict = pd.DataFrame.from_dict
    captured = []

    def spy(data, *a, **k):
        try:
            captured.append({s: dict(c) for s, c in data.items()})
        except Exception:
            pass
        return orig_from_dict(data, *a, **k)
    old = sys.stdout
    sys.stdout = open(os.devnull, 'w')
    pd.DataFrame.from_dict = spy
    try:
        try:
            df = T.create_count_table(args, return_df=True)
        finally:
            sys.stdout.close()
            sys.stdout = old
            pd.DataFrame.from_dict = orig_from_dict
        return {'cells': cells_of_df(df), 'raw': cells_of_raw(captured[0]) if len(captured) == 1 else None}
    except KeyboardInterrupt:
        raise
    except BaseException as e:
        r = {'error': '%s: %s' % (type(e).__name__, e)}
        # an exception after the table was accumulated (DataFrame naming) keeps the captured table
        if len(captured) == 1:
            try:
                r['raw'] = cells_of_raw(captured[0])
            except Exception:
                pass
        return r


def cells_of_csv(path):
    """a --bulk / single-column CSV written by DataFrame.to_csv: index columns ..., one value column.
    key components come back as text (that is all a CSV holds)"""
    import csv
    with open(path, newline='') as fh:
        rows = list(csv.reader(fh))
    if not rows:
        return []
    head, cells = rows[0], []
    if len(head) < 2:
        raise ValueError('csv: no value column: %r' % (head,))
    col = head[-1]
    for row in rows[1:]:
        if not row:
            continue
        if len(row) != len(head):
            raise ValueError('csv: ragged row %r' % (row,))
        if row[-1] == '':
            continue
        fr = frac(float(row[-1]))
        if fr is None or fr == 0:
            continue
        cells.append([[col], list(row[:-1]), fr.numerator, fr.denominator])
    return cells


def run_x(T, args, mode, outpath):
    """create_count_table with file output / --showtags / -head.  'exit' = the call ended without producing a table
    (SystemExit, or it returned nothing and wrote nothing)."""
    import pandas as pd
    orig_from_dict = pd.DataFrame.from_dict
    captured = []

    def spy(data, *a, **k):
        try:
            captured.append({s: dict(c) for s, c in data.items()})
        except Exception:
            pass
        return orig_from_dict(data, *a, **k)
    old = sys.stdout
    sys.stdout = open(os.devnull, 'w')
    pd.DataFrame.from_dict = spy
    raw = lambda: cells_of_raw(captured[0]) if len(captured) == 1 else None
    try:
        try:
            if mode == 'df':
                ret = T.create_count_table(args, return_df=True)
            else:
                ret = T.create_count_table(args)
        finally:
            sys.stdout.close()
            sys.stdout = old
            pd.DataFrame.from_dict = orig_from_dict
        if mode == 'df':
            if ret is None:
                return {'exit': True}
            return {'cells': cells_of_df(ret), 'raw': raw()}
        if outpath is None or not os.path.exists(outpath):
            if not captured:
                return {'exit': True}
            return {'error': 'NoOutput: no file was written'}
        if mode == 'csv':
            return {'cells': cells_of_csv(outpath), 'raw': raw(), 'csv': True}
        return {'cells': cells_of_df(pd.read_pickle(outpath)), 'raw': raw()}
    except KeyboardInterrupt:
        raise
    except SystemExit:
        return {'exit': True}
    except BaseException as e:
        r = {'error': '%s: %s' % (type(e).__name__, e)}
        if len(captured) == 1:
            try:
                r['raw'] = cells_of_raw(captured[0])
            except Exception:
                pass
        return r


def direct_table(T, o, bams, scratch, d):
    """assignReads called directly on every record with a fresh namespace holding exactly the caller's options
    (no create_count_table in between); d = {'joined', 'ft', 'stags'} as create_count_table would derive them.
    None when assignReads cannot be called that way."""
    import pysam, collections, inspect
    fn = getattr(T, 'assignReads', None)
    if fn is None:
        return None
    try:
        names = list(inspect.signature(fn).parameters)
    except Exception:
        return None
    if names[:6] != ['read', 'countTable', 'args', 'joinFeatures', 'featureTags', 'sampleTags'] or 'blacklist_dic' not in names:
        return None
    v = option_values(o, bams, scratch)
    v['contig'] = None
    v['bedfile'] = None
    args = SimpleNamespace(**v)
    bl = None
    if o.get('blacklist') is not None:
        bl = {}
        for c, s, e in o['blacklist']:
            bl.setdefault(c, []).append((s, e))
    table = collections.defaultdict(collections.Counter)
    old = sys.stdout
    sys.stdout = open(os.devnull, 'w')
    try:
        for path in bams:
            with pysam.AlignmentFile(path) as f:
                for read in f:
                    fn(read, table, args, d['joined'], list(d['ft']), list(d['stags']), blacklist_dic=bl)
        return {'raw': cells_of_raw(table)}
    except KeyboardInterrupt:
        raise
    except BaseException as e:
        return {'error': '%s: %s' % (type(e).__name__, e)}
    finally:
        sys.stdout.close()
        sys.stdout = old


def handler(p):
    from singlecellmultiomics.bamProcessing import bamToCountTable as T
    scratch = os.environ['SCMO_SCRATCH']
    paths, backs = [], []
    for n, lib in enumerate(p['libs']):
        path = os.path.join(scratch, 'lib%d.bam' % n)
        backs.append(make_bam(path, lib))
        paths.append(path)
    out = []
    for n, case in enumerate(p['cases']):
        o = case['opts']
        libs = case['lib'] if isinstance(case['lib'], list) else [case['lib']]
        bams = [paths[i] for i in libs]
        try:
            res = run_table(T, SimpleNamespace(**option_values(o, bams, scratch)))
        except Exception as e:
            res = {'error': 'Harness%s: %s' % (type(e).__name__, e)}
        if p.get('filter'):
            try:        # a FRESH namespace: exactly the options of this case, nothing create_count_table left behind
                res['filter'] = filter_decisions(T, SimpleNamespace(**option_values(o, bams, scratch)), o, bams)
            except Exception:
                res['filter'] = None        # e.g. a changed signature: the table comparison still stands
        if case.get('direct') is not None:
            try:
                res['direct'] = direct_table(T, o, bams, scratch, case['direct'])
            except Exception:
                res['direct'] = None
        out.append(res)
    # histories: several calls on ONE namespace; between calls only the attributes whose requested value changes
    # are assigned (as a caller editing his options object would do)
    hout = []
    for h in p.get('histories', []):
        libs = h['lib'] if isinstance(h['lib'], list) else [h['lib']]
        bams = [paths[i] for i in libs]
        steps, args, requested = [], None, None
        for o in h['steps']:
            try:
                v = option_values(o, bams, scratch)
                if args is None:
                    args = SimpleNamespace(**v)
                else:
                    for k, val in v.items():
                        if requested[k] != val:
                            setattr(args, k, val)
                requested = v
                steps.append(run_table(T, args))
            except Exception as e:
                steps.append({'error': 'Harness%s: %s' % (type(e).__name__, e)})
        hout.append(steps)
    xout = []
    for n, case in enumerate(p.get('xcases', [])):
        try:
            x = dict(case['x'])
            mode = x.get('mode', 'df')
            outpath = None
            if mode in ('pickle', 'pickle.gz', 'csv'):
                outpath = os.path.join(scratch, 'out%d.%s' % (n, mode))
                x['o'] = outpath
            bams = [paths[i] for i in case['lib']]
            xout.append(run_x(T, SimpleNamespace(**option_values(case['opts'], bams, scratch, x)), mode, outpath))
            if outpath and os.path.exists(outpath):
                os.remove(outpath)
        except Exception as e:
            xout.append({'error': 'Harness%s: %s' % (type(e).__name__, e)})
    return {'libs': backs, 'cases': out, 'histories': hout, 'xcases': xout}


fw.impl_main(handler)
