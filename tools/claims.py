"""what MANIFEST.json claims, per property"""
CLAIMS = {
 'C10': {
  'technique': 'Coq proof (nia over Z with Euclidean-division equations) about the binning kernel regenerated from source by py2coq; table fold lemmas; correspondence check',
  'text': 'Theorems for all coordinates, bin sizes and sliding increments (unbounded Z) about the definitions regenerated from the '
          'current source of both coordinate_to_bins copies and the over-bounds test: membership iff, single bin when s=b, no '
          'duplicates, per-cell and total table sums by induction over the read list. Model/implementation agreement is checked on '
          '~20k kernel tuples (exhaustive for small b) and on synthetic BAMs through create_count_table.',
  'note': 'Trusted: Coq kernel; py2coq (floor/ceil of float quotient treated as exact integer floor/ceil, valid below 2^52); '
          'hand-written table accumulation model (validated by K on real BAMs); pysam/pandas; read filters are C11.'},
}
CLAIMS['C03'] = {
  'technique': 'Coq proof (induction over strings / dict folds, sortedness of the tie rule, lazy=eager state-machine refinement incl. accessor histories) over a kernel regenerated from source by translator + correspondence check of the extracted model against the real BarcodeParser',
  'text': 'For every whitelist file over ACGTN (repeated lines, unequal lengths, N included), every k and every observed string over ACGTN: '
          'the lookup returns (i,b,d) iff b is the unique nearest whitelisted barcode within k, d its Hamming distance, i its index; exact members '
          'map to themselves at distance 0; ties are never assigned; a lazily loaded alias answers every query sequence like an eager one; '
          'hamming_circle is exactly the Hamming sphere. Model = step-by-step transcription of expand/addBarcode/lookup, compared with the real '
          'class on ~60k lookups (exhaustive query sets for short barcodes, all file formats, shipped whitelists) and on the tables themselves.',
  'note': 'T: the distance range, tie test and picked index of expand, the alphabet / replacement range / replacement rule of hamming_circle, the lookup order and the column-detection '
          'character class are regenerated from source on every run (Gen/GenBarcode.v, fail closed) and the model is defined with them. Modelled not verified: file tokenisation, itertools '
          'enumeration order of hamming_circle (K pins the multiset), dict/sorted as association list / insertion sort, loop skeletons (matched syntactically). Assumes ACGTN and one file per alias.'}
CLAIMS['C09'] = {
  'technique': 'Coq proof (site arithmetic regenerated from source into GenSite.v + in-Coq ground-truth simulator + mirror theorems, lia) + correspondence on simulated pysam reads',
  'text': 'For every read the simulator can place (motif/overhang at reference position p, either strand, any number of soft-clipped leading/trailing cycles, '
          'any clip-free CIGAR, optionally a lost first cycle under --allow_cycle_shift) NlaIIIFragment assigns DS = coordinate of the recognised CATG and '
          'CHICFragment DS = the base adjacent to the overhang (trimmed and untrimmed layouts); every mapped read without CATG at its start is rejected '
          '(no DS, not valid, qcfail); mirroring any mapped read onto the reverse-complemented reference mirrors its site and flips its strand (NLA and CHIC); the molecule site is the outermost fragment site and molecule-level site/DS after write_tags are mirror-symmetric.',
  'note': 'Regenerated on every run: the tail of both identify_site functions (clip correction, guard chain, offsets, RZ, rejection) by a fail-closed statement '
          'extractor in tools/c09.py (trusted). Modelled not verified (compared in K): pysam reference_end/cigartuples/seq, tag storage, Fragment.__init__ '
          'bookkeeping, set_site/is_valid. The CHIC homopolymer filter is modelled (nucleotide list and length regenerated from source; strand symmetry proved). Not modelled: no_overhang mode, max_fragment_size; forwarding of command-line flags to the fragment classes is checked by running the command lines only. Assumes the soft clip is the outermost '
          'CIGAR operation; ground truth is the simulator definition (first cycle pairs with the first motif/overhang base).'}
CLAIMS['C14'] = {
  'technique': 'Coq proof over an executable model + context tables regenerated from the live TAPS object (finite-domain vm_compute proof with the bound stated) + correspondence check',
  'text': 'Context tables equal CG*->z, C[ACT]G->x, C[ACT][ACT]->h for every key (125 contexts x 2, exhaustive, lifted to all keys); for all references, molecules, both '
          'reference kinds and both strand conventions: every call is a strict-majority consensus position inside the mate-overlap-safe span on a reference C/G, its letter '
          'is the true strand context (none when truncated / non-ACGT), upper case iff the consensus shows C>T / G>A; XM has one character per aligned base; '
          'MC/uC/sZ/sz/sX/sx/sH/sh equal the entry counts (induction over the call list); histories: molecules sharing one TAPS object across contigs, and finalise/grow/finalise histories on one molecule, answer as computed alone for the fragments held.',
  'note': 'Modelled not verified: pysam (get_aligned_pairs/MD, FastaFile.fetch), CachedFasta slicing, numpy argmax/tie test, dict/Counter semantics; molecule abstraction '
          'computed by impl_c14.py with pysam; table tie = reflection + AST check (fail closed on refactors of TAPS.__init__). search() evaluates a Python transcription of the statement. Vote counts are unbounded integers in the model (the implementation accumulates them in a numpy vector; watched by K with molecules of 255-523 fragments).'}
CLAIMS['C17'] = {
  'technique': 'Coq proof (induction over the blacklist / fuelled loops, lia) about an executable Gallina transcription + exhaustive small-scope correspondence check',
  'text': 'For every region, bin size > 0, blacklist of intervals (overlapping, adjacent, empty, unsorted, covering or outside the region) and fragment size >= 0 the model '
          'of blacklisted_binning returns non-empty, increasing, disjoint bins inside the region, each <= bin_size, that together with the blacklisted bases cover the region '
          'exactly once; each fetch window contains its bin, extends it by at most fragment_size and never leaves the region or contains a blacklisted base. fill_range, '
          'merge_overlapping_ranges (termination, disjoint, same bases), trim_rangelist proved separately; concat (bp_chunked l k) = l. 272k cases quick (exhaustive small scopes), 7M thorough.',
  'note': 'Tie is T+K: comparisons, step/clip/merge expressions, call arguments, sentinel and bp threshold are regenerated into Gen/GenTiling.v on every run and used by the model (37 shape lemmas); control flow is a hand transcription pinned by a skeleton check (fail closed) and by K. int(a/b) modelled as Z.quot (exact below 2^53); sorted() as insertion sort. '
          'blacklisted_binning_contigs and BED/BED.gz reading are exercised through real files but not modelled in Coq.'}
CLAIMS['C01'] = {
  'technique': 'Coq proof (induction over the pair/strategy lists) about an executable model of the loader, reader and writers, parametric in the strategies; end-to-end correspondence check on real gzip FASTQ files',
  'text': 'For every strategy function and every input, in every run that returns: the writes caused by pair p under strategy j are exactly one step\'s writes; accepted pairs go to the '
          'demultiplexed output only, rejected or raised pairs to the rejects output only with ;RR:reason and the original bases and qualities (exactly once per mate file with a rejects handle); '
          'R1/R2 of every sink and cell carry the same (pair, strategy) sequence in input order; processed = min(n, max(1, maxReadPairs)); strategyYields[j] = accepted pairs = R1 records written; '
          'the reader stops at the first exhausted index. Model predicts the bytes of every output file and the counters for 274 (quick) / 9k (thorough) real libraries x 28 strategies.',
  'note': 'Modelled not verified: gzip, text decoding, file system, HandleLimiter (C19). Strategies and the reject-header builder are parameters (what a strategy extracts is C02, barcode correction C03, '
          'header codec C04); their outcome class per pair is measured by calling the real code. A partial write (R1 serialised, R2 raising) is modelled and excluded from the theorems by step_ok, which is checked on the real code (C01_partial_write_refuted); prune-crossing per-cell libraries (> 10000 writes), the demux.py file-list pairing and run histories into one output directory are checked against the specification on the real files only; strategy registration/selection (unique short names, only_detect_methods, indexFileAlias) is a hypothesis checked by K on every loader construction; the loader result is proved independent of the log handle (C01_log_independent). A reject record that cannot be formatted (over-long library name) aborts the run loudly: outside the '
          'precondition, recorded by C01_reject_crash_refuted. search() uses a Python transcription of Props/C01.v. No translator tie (K only).'}
CLAIMS['C02'] = {
  'technique': 'Coq proof (Python-slice lemmas, induction over read tuples, vm_compute over the strategy table regenerated by reflection; Gallina models of the 5 composite strategies and the bulk strategy over the single-protocol arm models, trimmer lemmas by induction, literals regenerated by AST and pinned) + correspondence check against the real strategies',
  'text': 'For every contiguous, scattered or restriction-bisulfite layout of plain shape, every whitelist lookup and every read tuple of any length, an accepted input yields exactly the records whose '
          'bc/RX/RQ/rS/lh/lq are the bases or encoded qualities at the layout positions of the stated mate; emitted sequence and qualities are the same suffix from the insert start, index aligned; '
          'every position is in a tag region or emitted; nothing comes from the other mate; one record per mate. The table regenerated from the 28 registered strategy objects is proved well formed and '
          'equal to a pinned protocol table for the 22 single-protocol strategies (C02_registered_wf); composites: every accepted pair yields one record per mate, each a contiguous stretch of its own mate at or after the arm insert start with aligned bases/qualities, dropped bases exactly the declared trim (C02_composite_spec, C02_prune_rule, C02_trim_r2); all 28 compared with the model on ~10k (quick) / 245k (thorough) read tuples.',
  'note': 'Whitelist lookup (C03) and header parsing (C04) are parameters. Layouts come from reflection plus a trace call; the pinned protocol table is hand-written. Composite strategies (TCHIC, CHICTV, '
          'DamAndT, DamID2andT_*) and ILLU: dispatch structure hand-transcribed and K-validated; re.sub with $ modelled as a suffix strip; DamID2_scattered_10bp exercised with a synthetic whitelist; '
          'the TCHIC rx tag may come from the reverse complement of read 2 (stated in C02_tchic_spec). Index-alignment clause assumes equal sequence and quality length. FastqIterator, FastqHandle and the demux.py command line (file-level stream: plain/gz, LF/CRLF, with/without trailing newline, shuffled argument orders) are covered by K only.'}
CLAIMS['C04'] = {
  'technique': 'Coq proof (split/join inverse by induction over list Z strings, finite-domain phred tables) + constants/tables regenerated from source by AST and reflection + correspondence through demultiplex -> asFastq -> pysam -> QueryNameFlagger',
  'text': 'For every well-formed tag store decode(asFastq header) restores every written tag; the tagger derives SM=LY_bi, MI=BC+RX+aA, the name Is:RN:Fc:La:Ti:CX:CY and RG; phred tags return as the '
          'original characters saturated at T; the quality encoding is total for every character code; headers over 254 characters are refused, never truncated (254 = BAM query-name capacity).',
  'note': 'Hand-transcribed control flow of _parse_illumina_header / fromTaggedBamRecord / tagPysamRead / digest tied by K only; constants and tables (clamp, limit, separators, name format, MI recipe, '
          'tag table, fqSafe class) regenerated fail-closed. Python str semantics, the aligner copying the name and pysam set_tag typing are trusted. Assumes values free of ; : and whitespace; '
          '+ in dual indices is deleted on decode (D7, outside the stated alphabet).'}
CLAIMS['C05'] = {
  'technique': 'Coq proof (induction with the code\'s accumulators for the job list, dictionary invariant for the mate-pair cache, Permutation reasoning through sort/merge contracts) + source-slice execution of the job block + end-to-end synthetic BAMs',
  'text': 'For every contig list the contig-per-process job list is * followed by each contig exactly once; the mate-pair cache emits every primary record in exactly one pair; for any permuting '
          'sort/merge and any molecule iterator meeting the emit-once contract the written records are a permutation of the primary input records with unchanged id, name, contig, position and mate bits, '
          'single-process and for every completion order of the jobs; --no_rejects writes exactly the valid fragments; every RG is declared in the header; no exception with SAM-conformant flags.',
  'note': 'PARTIAL: htslib (idxstats, fetch, sort, merge, index) and the process pool are functions constrained by permutation contracts, sampled end-to-end (~500 tagger runs quick); verify_and_fix_bam / stale input index histories, re-tagging histories with pre-existing RG tags and the > 10000-fragment ejection library are sampled end to end against the specification only. The molecule '
          'iterator is a contract discharged for a simple iterator (the real ejection machine is C07, assignment C06). pysamiterators modelled from the installed copy. Assumes no (name, mate) '
          'collision among primary records and default options; --cluster, -contig/-skip_contig with --multiprocess not modelled.'}
CLAIMS['C07'] = {
  'technique': 'Coq proof (induction over the fragment list: permutation accounting, simulation of the ejecting run by the never-ejecting run, span invariant + lia) about a state machine whose pop index, ejection test, can_be_yielded and Fragment.__eq__ are regenerated from source; correspondence on every schedule',
  'text': 'For every check_eject_every (None or any integer), both pooling methods, every cache size, radius, UMI distance and fragment list: every valid fragment is yielded in exactly one molecule '
          'and list.pop never raises (the pop loop is exactly partition). If starts step back at most lag within a contig, contigs form contiguous blocks, lengths <= L and 2(L+lag+radius) <= cache_size, '
          'no molecule is yielded while a later fragment still matches it and the yielded molecules are the same multiset as with check_eject_every=None. ~18k runs quick / ~197k thorough.',
  'note': 'Modelled not verified (K only): control flow of __iter__ around the translated expressions, Molecule._add_fragment aggregate, dict order / Counter.most_common, pysam + Fragment.__init__. '
          'Scope: Molecule + Fragment (or subclass setting match_hash only), no cap / allele clustering. The proved inequality is L <= cache_size/2; fragments between cache_size/2 and cache_size '
          'change the partition (C07_gap_refuted; known finding, since cache_size is documented as the cache radius).'}
CLAIMS['C08'] = {
  'technique': 'Coq proof (induction over task lists and fragment streams, Permutation, lia) about the region gate regenerated from run_tagging_task by a fail-closed translator + correspondence against the real serial, region-tiled and --multiprocess taggers',
  'text': 'For every tiling whose bins are consecutive and cover each contig, with fetch margins >= L or clipped at contig ends, and every library whose fragments extend at most L: each hash group '
          'is written by exactly one task and the jobs write a permutation of the records the serial pass writes for the covered molecules, for every assignment function, grouping into jobs and '
          'completion order; bp_chunked preserves the task list.',
  'note': 'PARTIAL: pysam fetch/merge/sort and Pool completion orders are modelled as permutations and sampled with 1-4 threads. MoleculeIterator modelled as a per-match_hash function of arrival order '
          '(holds for NLA, CHIC radius 0). Site-less molecules in region mode are excluded (known finding D11). Contig-per-process job list is C05, blacklist tiling is C17.'}
CLAIMS['C11'] = {
  'technique': 'Coq proof (order-free filter conjunction = short-circuit code order; exact rational weights in QArith; fold = group-by sum by induction with a map-fold lemma) + correspondence through create_count_table',
  'text': 'For every option record and read list: a read is counted iff it satisfies the declaratively stated conjunction of the selected filters; no option combination raises on well-formed reads; '
          'every increment is keyed by the read\'s own sample and feature values; two mapped mates contribute 1 in total (2 without fragment division, 1 for a selected mate); multimapping divides by the '
          'XA/NH hit count; by-value adds the tag\'s numeric value; every table cell equals the group-by sum, for plain, -contig and -bedfile runs. 1.6k (quick) / 36k (thorough, all 2^13 option '
          'combinations) create_count_table calls compared as exact Fractions.',
  'note': 'Modelled not verified: pysam/htslib (attributes, 2-character tag lookup, fetch overlap), Counter, pandas. float() modelled for plain decimals only; float-typed tags, -bin (C10), -head, --bulk '
          'outside the model. No-raise/table theorems assume wf_read and wf_opts. T: the ordered guard chain of read_should_be_counted (14 guards, operators, blacklist interval test), countToAdd of assignReads, the by-value auto-append test and the set of args attributes assigned in the module are regenerated into Gen/GenCountFilter.v (fail closed) and proved equal to the model (C11_source_filter/_weight, C11_stateless); XA parser, blacklist loop, key construction and accumulation remain hand-modelled (K: calls, histories on one namespace, direct assignReads calls).'}
CLAIMS['C12'] = {
  'technique': 'Coq proof (tiling arithmetic by lia/nia, update-merge = sum for every permutation of job completion, declarative count by induction) about arithmetic and filter regenerated from source + correspondence through obtain_counts',
  'text': 'For every bin size, bins-per-job >= 1, max fragment size and every permutation of job completion order each cell of the matrix merged by obtain_counts equals the declarative count of passing '
          'read-1 records per (key tags, contig, bin floor(site/b), sample); hence identical for all bins-per-job and schedules, total = number of passing records; jobs tile each contig on bin '
          'boundaries, produced bin ids are owned by one job so the overwriting update-merge is a sum; the i-th result of any history of counts in one process depends on the i-th call only (C12_history_stateless).',
  'note': 'Hypotheses visible: 0 <= site < contig length and site within max_fragment_size of the aligned span (dropping either is refuted in Coq and reproduced on the code; treated as domain '
          'assumptions). Modelled not verified: pysam fetch overlap, Pool.imap_unordered yields each result once, the loop/dict accumulation around the generated expressions (K). One BAM, '
          'alt_spans=None. get_binned_counts with user regions double counts at region edges (known finding D15).'}
CLAIMS['C16'] = {
  'technique': 'Coq proof (sorted-array window lemmas, state-machine refinement by induction over the operation list with a cache-validity invariant) + correspondence against the real FeatureContainer / pysam reads',
  'text': 'For every feature list (nested, identical, zero-length) the point-lookup variants and the range lookup return exactly the overlapping features; for every history of '
          'addFeature/sort/findFeaturesAt/findFeaturesBetween/findFeaturesAtPysamAlign (any order, lru_cache and its eviction included) every answer equals the brute-force answer on everything added '
          'so far; per-base and per-block read annotation report exactly the features overlapping an aligned base. The pre-fix code is refuted on concrete histories.',
  'note': 'Modelled not verified: np.searchsorted/np.max, list.sort on tuples, set(), lru_cache (LRU list keyed on logical arguments), pysam get_blocks/get_aligned_pairs. Assumes start <= end, '
          'orderable feature tuples. Not covered: findNearest*, annotateUTRs, GTF/BED loaders. T: searchsorted sides/keys, scan/overlap/strand conditions, window ends, the end-1 of per-block annotation, which lookups re-index first and where cache_clear() is called are regenerated into Gen/GenFeatures.v (fail closed) and used by the model (C16_source_kernel); control flow around them is hand-modelled and tied by K.'}
CLAIMS['C19'] = {
  'technique': 'Coq proof (invariant over the fold of writes for every OS-open oracle) about an executable state-machine model + fault-injecting correspondence check (full open/close traces, files read back)',
  'text': 'For every write sequence, every maxHandles/pruneEvery and every sequence of open() failures in which an open succeeds when no other handle is open, HandleLimiter (hence FastqHandle '
          'single_cell) raises nothing, closes every descriptor, and each file holds exactly its writes in order; under any fault sequence it raises only the OSError of an open that failed with nothing '
          'else open, and the files then hold exactly the completed writes; bamSplitByTag gives each tag value exactly its reads for every max_handles >= 1.',
  'note': 'PARTIAL: the file system and OS are modelled (path -> content after close; failed open has no effect); buffering, gzip framing, write/close failures and real descriptor limits are outside '
          'the model (gzip validity and RLIMIT_NOFILE exhaustion only sampled in K; injected failures use several errno kinds). T: append test and open modes, where seen.add happens, handler class, retry test, placeholder restore, prune trigger/count/victim key, what close() clears, __init__ defaults/attributes and the write guard are regenerated into Gen/GenHandles.v (fail closed) and the theorems are stated about the model defined with them (19 shape lemmas, C19_tie); the rest of write() and the bamSplitByTag model stay tied by K (full-trace comparison).'}
CLAIMS['C13'] = {
  'technique': 'Coq proof (vote table = sum of per-fragment contributions; argmax+mask = unique strict maximum; fold invariant for pick_best; Permutation/duplication invariance) about an executable transcription of Molecule.get_consensus / Fragment.get_consensus / pick_best_base_call + correspondence on in-memory pysam molecules',
  'text': 'For every molecule (any number of fragments, overlaps, mismatches, N, quality ties, single mates, dove-tailed mates, missing MD, dove_safe on/off) the consensus at a position is b iff b in ACGT '
          'is called by strictly more fragments than every other base; ties and only-N positions are absent; the vote table equals the declarative per-fragment votes (one call per fragment and position, '
          'the higher-quality mate, N on an equal-quality disagreement); the result is invariant under permutation of insertion order and duplication of every fragment; for every history of add_fragment / _add_fragment / add_molecule / get_consensus operations each query answers for exactly the fragments held (C13_history_query). ~23k (quick) / ~560k (thorough) calls.',
  'note': 'Modelled not verified: pysam accessors (aligned pairs, MD presence) supply the model input; numpy argmax/mask; dict/set semantics. Default kwargs only; assumes bases in ACGTN and two-slot '
          'read lists (one-slot lists raise IndexError, reproduced by the model); add_fragment\'s accept verdict is an input (C06). Keyword options of get_consensus (only_include_refbase, min_phred_score, skip_*_cycles_R1/R2, dove distances) are a record over which every theorem quantifies and are varied per query in K; allow_N not modelled. No translator tie (K only).'}
CLAIMS['C06'] = {
  'technique': 'Coq proof (induction over the arrival list through one transition-invariant principle) about an executable model of the greedy assignment and write_tags + correspondence on simulated libraries through the real MoleculeIterator',
  'text': 'Every valid fragment is in exactly one molecule; fragments of a molecule share cell, strand, contig and (NLA, CHIC radius 0) site, and each joined within the UMI distance of the representative '
          'UMI and within the radius of the running site; with distance 0 the molecules are exactly the classes of identical (cell,strand,contig,site,UMI) for every arrival order (with a cap: the first '
          'k of each class, TF = class size); the assignment is maximal; after write_tags exactly one fragment per molecule is not duplicate whatever flags the input carried, RC = rank, af = size, '
          'TF = size + overflow; re-tagging is idempotent. 11.7k libraries quick / 90k thorough incl. exhaustive small scopes.',
  'note': 'Model is the NO-ejection machine with pooling_method=1 (schedule independence is C07); the read -> (cell,strand,contig,site,UMI,valid) abstraction uses the implementation accessors (geometry is '
          'C09) and is additionally checked against generator ground truth; pysam flag/tag storage, Counter order and reflected __eq__ dispatch are modelled and sampled by K; re-tag idempotence is for the same arrival order. T: the __eq__/umi_eq guard chains, the match_hash tuples (composed with what set_site stores), the add_fragment capacity decision and the write_tags tag expressions are regenerated into Gen/GenAssign.v on every run (tools/c06_gen.py, fail closed) and the model is defined with them (C06_kernel_*); running-state folds and the iterator loop remain hand-written (K).'}
CLAIMS['C18'] = {
  'technique': 'Coq proof: state-machine refinement of the eager / lazy (clear-on-fetch) / cached AlleleResolver against a loop-free mode-independent specification; character-level write_cache/read_cached round trip; correspondence on the real class',
  'text': 'For every VCF (sample names may contain blanks), every phased/select_samples/ignore_conversions setting and every history of runs sharing one cache directory (each run eager, lazy or cached, first run writing, later runs reading, '
          'any query sequence and contig order incl. returning to an evicted contig) getAllelesAt/has_location return exactly the specification: the selected samples whose genotype at the last informative '
          'record of the site contains the base, nothing for absent, uninformative or ignored-conversion sites; the cache file format round-trips; several resolver objects in one process answer independently (C18_objects_independent); getAllele(reads) returns what the specification answers give and leaves the table unchanged (C18_getAllele_spec). ~16k (quick) / ~730k (thorough) lookups, cache files byte for byte.',
  'note': 'Modelled not verified: pysam VCF parsing and tabix fetch (abstraction compared with pysam\'s view of every generated record), gzip/text codec, dict/set semantics. Assumes indexed VCF with >= 1 sample '
          'column, region_start/end None, sample names without blanks/commas, VCF unchanged between runs, and - for histories mixing settings - no two (contig, settings) pairs mapping to one cache '
          'file name (checked per history). The monomorphic rule re-admitting multi-base sites is specified as coded. T: the kernel of the machine (single-nucleotide tests, selection filter, continue-vs-break on missing alleles, bad/monomorphic rules, ignore_conversions guard and key, store test, cache file name pieces, cache line format, read_cached separators/filters, has_location invalid-contig result, use_cache=>lazyLoad, per-instance table) is regenerated into Gen/GenAlleles.v (fail closed) and connected to the reference definitions by shape lemmas (C18_source_shape); the loop/dict structure is hand-modelled and tied by K.'}
CLAIMS['C15'] = {
  'technique': 'Coq proof (state-machine invariant over generate_partial_reads, MD encoder/reader round trip, QArith arg-max) about an executable model + correspondence through pysam re-parse of every produced record',
  'text': 'For every read set the consensus records of the model of deduplicate_majority align exactly the sorted distinct covered positions (M over runs, N over gaps, split exactly at gaps > max_N_span, '
          'well-formed CIGARs), |seq| = sum of M, the MD tag read against the sequence reconstructs the reference over the aligned positions, each base is the unique arg-max of the exact likelihoods '
          '(N on a tie), and SM/RX/DS/TF are the molecule\'s; tied to Molecule.deduplicate_majority / write_pysam(consensus=True) / bamtagmultiome --consensus by running both on generated molecules.',
  'note': 'PARTIAL: IEEE rounding of np.power/np.prod/division is not modelled (exact rationals over the implementation\'s own float table; calls compared only when the two best likelihoods are equal '
          'with order-insensitive products or > 2^-20 apart; excluded calls counted in evidence). Modelled not verified: pysam/htslib record construction and BAM round trip, Counter.most_common, '
          'consecutive_groups; phred quality values of the consensus are outside the model (only their count). Assumes a reference is attached, one contig, qualities 0..93.'}
CLAIMS['C20'] = {
  'technique': 'Coq proof (sound reachable-set analysis over a small program language, proved by structural induction with a checked loop invariant, instantiated by vm_compute on the pipeline regenerated from source by an AST translator) + fault-enumeration correspondence on the real tagger',
  'text': 'For every number of molecules, jobs and other loop iterations, every run-time branch and every sequence of failing steps (each raising before or half-way, as Exception or non-Exception), in the '
          'single-process and multiprocess pipelines: when <out>.status.txt says "Reached end. All ok!" the output BAM exists, is complete, coordinate sorted and indexed; a run that returns ends in that '
          'state; a run that raises never leaves the success marker; a pool worker that returns has written a complete sorted indexed temp BAM. Model and real code agree on 265 (quick) / 476 (thorough) '
          'injected-fault runs (nla and chic, both pipelines, every molecule index).',
  'note': 'PARTIAL: process death (kill -9, power loss) is not modelled, only SIGKILL samples in K. The theorems quantify over the exception class of every failing step (each except clause is translated with the classes it names; C20_worker_complete excludes the deliberately swallowed TimeoutError). The input side (verify_and_fix_bam), job construction and cleanup of empty jobs are outside the model: K covers them with stale-input-index histories and multi-contig inputs compared with the serial run. Every tagger case runs in its own process group with a hard timeout (hangs are counted, fail closed above 2%). The effect of each call is decided by callee name and whether it receives the output path (modelled); '
          'pysam.sort/merge/index produce complete sorted indexed files (K reads the real files back). Not translated: --cluster branch, body of run_tagging_task; -head / -max_time_per_segment excluded. '
          'The translator fails closed on unrecognised shapes (e.g. a reshaped sort-retry loop gives no-failing-input-found). C20_fail_not_ok assumes no stale success marker at start.'}
NOT_APPLICABLE = {}
