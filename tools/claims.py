"""what MANIFEST.json claims, per property"""
CLAIMS = {
 'C10': {
  'technique': 'Coq proof (nia over Z with Euclidean-division equations) about the binning kernel regenerated from source by py2coq; table fold lemmas; correspondence check',
  'text': 'Theorems for all coordinates, bin sizes and sliding increments (unbounded Z) about the definitions regenerated from the '
          'current source of both coordinate_to_bins copies and the over-bounds test: membership iff, single bin when s=b, no '
          'duplicates, per-cell and total table sums by induction over the read list. Model/implementation agreement is checked on '
          '~20k kernel tuples (exhaustive for small b) and on synthetic BAMs through create_count_table.',
  'note': 'Trusted: Coq kernel; py2coq (floor/ceil of float quotient treated as exact integer floor/ceil, valid below 2^52); '
          'hand-written table accumulation model (validated by K on real BAMs); pysam/pandas; read filters are C11.'},
}
CLAIMS['C03'] = {
  'technique': 'Coq proof (induction over strings / dict folds, sortedness of the tie rule, lazy=eager state-machine refinement) + correspondence check of the extracted model against the real BarcodeParser',
  'text': 'For every whitelist file over ACGTN (repeated lines, unequal lengths, N included), every k and every observed string over ACGTN: '
          'the lookup returns (i,b,d) iff b is the unique nearest whitelisted barcode within k, d its Hamming distance, i its index; exact members '
          'map to themselves at distance 0; ties are never assigned; a lazily loaded alias answers every query sequence like an eager one; '
          'hamming_circle is exactly the Hamming sphere. Model = step-by-step transcription of expand/addBarcode/lookup, compared with the real '
          'class on ~60k lookups (exhaustive query sets for short barcodes, all file formats, shipped whitelists) and on the tables themselves.',
  'note': 'Modelled not verified: file tokenisation / column-order detection of parse_barcode_file (K only), itertools enumeration order of '
          'hamming_circle (K pins it as a multiset), dict and sorted as association lists / insertion sort. Assumes the ACGTN alphabet and one file per alias.'}
NOT_APPLICABLE = {}
