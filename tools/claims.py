"""what MANIFEST.json claims, per property"""
CLAIMS = {
 'C10': {
  'technique': 'Coq proof (nia over Z with Euclidean-division equations) about the binning kernel regenerated from source by py2coq; table fold lemmas; correspondence check',
  'text': 'Theorems for all coordinates, bin sizes and sliding increments (unbounded Z) about the definitions regenerated from the '
          'current source of both coordinate_to_bins copies and the over-bounds test: membership iff, single bin when s=b, no '
          'duplicates, per-cell and total table sums by induction over the read list. Model/implementation agreement is checked on '
          '~20k kernel tuples (exhaustive for small b) and on synthetic BAMs through create_count_table.',
  'note': 'Trusted: Coq kernel; py2coq (floor/ceil of float quotient treated as exact integer floor/ceil, valid below 2^52); '
          'hand-written table accumulation model (validated by K on real BAMs); pysam/pandas; read filters are C11.'},
}
NOT_APPLICABLE = {}
