"""what MANIFEST.json claims, per property"""
CLAIMS = {
 'C10': {
  'technique': 'Coq proof (nia over Z with Euclidean-division equations) about the binning kernel regenerated from source by py2coq; table fold lemmas; correspondence check',
  'text': 'Theorems for all coordinates, bin sizes and sliding increments (unbounded Z) about the definitions regenerated from the '
          'current source of both coordinate_to_bins copies and the over-bounds test: membership iff, single bin when s=b, no '
          'duplicates, per-cell and total table sums by induction over the read list. Model/implementation agreement is checked on '
          '~20k kernel tuples (exhaustive for small b) and on synthetic BAMs through create_count_table.',
  'note': 'Trusted: Coq kernel; py2coq (floor/ceil of float quotient treated as exact integer floor/ceil, valid below 2^52); '
          'hand-written table accumulation model (validated by K on real BAMs); pysam/pandas; read filters are C11.'},
}
CLAIMS['C03'] = {
  'technique': 'Coq proof (induction over strings / dict folds, sortedness of the tie rule, lazy=eager state-machine refinement) + correspondence check of the extracted model against the real BarcodeParser',
  'text': 'For every whitelist file over ACGTN (repeated lines, unequal lengths, N included), every k and every observed string over ACGTN: '
          'the lookup returns (i,b,d) iff b is the unique nearest whitelisted barcode within k, d its Hamming distance, i its index; exact members '
          'map to themselves at distance 0; ties are never assigned; a lazily loaded alias answers every query sequence like an eager one; '
          'hamming_circle is exactly the Hamming sphere. Model = step-by-step transcription of expand/addBarcode/lookup, compared with the real '
          'class on ~60k lookups (exhaustive query sets for short barcodes, all file formats, shipped whitelists) and on the tables themselves.',
  'note': 'Modelled not verified: file tokenisation / column-order detection of parse_barcode_file (K only), itertools enumeration order of '
          'hamming_circle (K pins it as a multiset), dict and sorted as association lists / insertion sort. Assumes the ACGTN alphabet and one file per alias.'}
CLAIMS['C09'] = {
  'technique': 'Coq proof (site arithmetic regenerated from source into GenSite.v + in-Coq ground-truth simulator + mirror theorems, lia) + correspondence on simulated pysam reads',
  'text': 'For every read the simulator can place (motif/overhang at reference position p, either strand, any number of soft-clipped leading/trailing cycles, '
          'any clip-free CIGAR, optionally a lost first cycle under --allow_cycle_shift) NlaIIIFragment assigns DS = coordinate of the recognised CATG and '
          'CHICFragment DS = the base adjacent to the overhang (trimmed and untrimmed layouts); every mapped read without CATG at its start is rejected '
          '(no DS, not valid, qcfail); mirroring any mapped read onto the reverse-complemented reference mirrors its site and flips its strand (NLA and CHIC).',
  'note': 'Regenerated on every run: the tail of both identify_site functions (clip correction, guard chain, offsets, RZ, rejection) by a fail-closed statement '
          'extractor in tools/c09.py (trusted). Modelled not verified (compared in K): pysam reference_end/cigartuples/seq, tag storage, Fragment.__init__ '
          'bookkeeping, set_site/is_valid. Not modelled: no_overhang mode, max_fragment_size, CHIC homopolymer filter. Assumes the soft clip is the outermost '
          'CIGAR operation; ground truth is the simulator definition (first cycle pairs with the first motif/overhang base).'}
CLAIMS['C14'] = {
  'technique': 'Coq proof over an executable model + context tables regenerated from the live TAPS object (finite-domain vm_compute proof with the bound stated) + correspondence check',
  'text': 'Context tables equal CG*->z, C[ACT]G->x, C[ACT][ACT]->h for every key (125 contexts x 2, exhaustive, lifted to all keys); for all references, molecules, both '
          'reference kinds and both strand conventions: every call is a strict-majority consensus position inside the mate-overlap-safe span on a reference C/G, its letter '
          'is the true strand context (none when truncated / non-ACGT), upper case iff the consensus shows C>T / G>A; XM has one character per aligned base; '
          'MC/uC/sZ/sz/sX/sx/sH/sh equal the entry counts (induction over the call list).',
  'note': 'Modelled not verified: pysam (get_aligned_pairs/MD, FastaFile.fetch), CachedFasta slicing, numpy argmax/tie test, dict/Counter semantics; molecule abstraction '
          'computed by impl_c14.py with pysam; table tie = reflection + AST check (fail closed on refactors of TAPS.__init__). search() evaluates a Python transcription of the statement.'}
CLAIMS['C17'] = {
  'technique': 'Coq proof (induction over the blacklist / fuelled loops, lia) about an executable Gallina transcription + exhaustive small-scope correspondence check',
  'text': 'For every region, bin size > 0, blacklist of intervals (overlapping, adjacent, empty, unsorted, covering or outside the region) and fragment size >= 0 the model '
          'of blacklisted_binning returns non-empty, increasing, disjoint bins inside the region, each <= bin_size, that together with the blacklisted bases cover the region '
          'exactly once; each fetch window contains its bin, extends it by at most fragment_size and never leaves the region or contains a blacklisted base. fill_range, '
          'merge_overlapping_ranges (termination, disjoint, same bases), trim_rangelist proved separately; concat (bp_chunked l k) = l. 272k cases quick (exhaustive small scopes), 7M thorough.',
  'note': 'Hand transcription tied to the code by correspondence only (no translator). int(a/b) modelled as Z.quot (exact below 2^53); sorted() as insertion sort. '
          'blacklisted_binning_contigs and BED/BED.gz reading are exercised through real files but not modelled in Coq.'}
NOT_APPLICABLE = {}
