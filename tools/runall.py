"""run every claimed check (quick or thorough) a few at a time; summary on stdout.  usage: runall.py [quick|thorough] [-j N] [ids...]"""
import json, os, subprocess, sys, time
from concurrent.futures import ThreadPoolExecutor
V = os.path.dirname(os.path.dirname(os.path.abspath(__file__)))
tier = 'quick'
jobs = 4
ids = []
a = sys.argv[1:]
while a:
    x = a.pop(0)
    if x in ('quick', 'thorough'):
        tier = x
    elif x == '-j':
        jobs = int(a.pop(0))
    else:
        ids.append(x)
m = json.load(open(os.path.join(V, 'MANIFEST.json')))
checks = [c for c in m['checks'] if not ids or c['property_id'] in ids]


def run(c):
    t = time.time()
    cmd = c['quick_cmd'] if tier == 'quick' else c.get('thorough_cmd', c['quick_cmd'])
    p = subprocess.run(cmd, shell=True, cwd=V, capture_output=True, text=True)
    out = p.stdout + p.stderr
    viol = [l for l in out.splitlines() if l.startswith('VIOLATION') or l.startswith('KNOWN-FINDING')]
    return c['property_id'], p.returncode, time.time() - t, viol, out


with ThreadPoolExecutor(jobs) as ex:
    for pid, rc, dt, viol, out in ex.map(run, checks):
        print('%s rc=%d %.0fs %s' % (pid, rc, dt, ' | '.join(viol)))
        if rc != 0:
            print('   ' + '\n   '.join(out.splitlines()[-12:]))
        sys.stdout.flush()
