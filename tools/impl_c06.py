"""runs the REAL MoleculeIterator / Molecule.write_tags on in-memory pysam reads for C06.

payload: {'libs': [lib, ...]};  lib = {'cfg': {cls, mol, d, r, cap, yinv, yover}, 'reads': [readspec, ...],
                                        'retag': bool, 'bam': bool}
readspec = {name, sample, umi, contig, r1: {start, rev, seq, cigar} | None, r2: {...} | None, dup, qcfail, rc, mx}
cfg may carry 'eject' (check_eject_every, default None) and 'cache' (Molecule cache_size) for the truth stream,
'pool' (pooling_method, default 1) and 'efm' (every_fragment_as_molecule, default False);
lib may carry 'duo' = [setting, setting] + 'schedule': two interleaved iterators in one process (run_duo)
result per lib: {'frags': [abstraction of every offered fragment, arrival order], 'pass1': [molecule, ...],
                 'pass2': [...] | None, 'bam': {...} | None}  or {'error': 'Type: msg'}
The abstraction read -> abstract fragment uses the implementation's own accessors (sample, strand,
site_location / span, umi, is_valid(), match_hash); their geometry is C09's subject.
"""
import os, sys
import fw

CONTIGS = ['chr1', 'chr2', 'chr3']


def header():
    import pysam
    return pysam.AlignmentHeader.from_dict({'HD': {'VN': '1.6', 'SO': 'unsorted'},
                                            'SQ': [{'SN': c, 'LN': 10 ** 7} for c in CONTIGS]})


def mk_read(h, spec, part, is_r1, paired):
    import pysam
    r = pysam.AlignedSegment(h)
    r.query_name = spec['name']
    r.query_sequence = part['seq']
    r.flag = 0
    r.reference_name = spec['contig']
    r.reference_start = part['start']
    r.mapping_quality = 60
    r.cigarstring = part['cigar']
    r.query_qualities = pysam.qualitystring_to_array('I' * len(part['seq']))
    r.is_reverse = bool(part['rev'])
    if paired:
        r.is_paired = True
        r.is_proper_pair = True
    r.is_read1 = is_r1
    r.is_read2 = not is_r1
    r.set_tag('SM', spec['sample'])
    r.set_tag('RX', spec['umi'])
    if spec.get('mx'):
        r.set_tag('MX', spec['mx'])
    if spec.get('dup'):
        r.is_duplicate = True
    if spec.get('qcfail'):
        r.is_qcfail = True
    if spec.get('rc') is not None:
        r.set_tag('RC', int(spec['rc']))
        r.set_tag('af', int(spec['rc']) + 1)
        r.set_tag('TF', int(spec['rc']) + 2)
    return r


def mk_pair(h, spec):
    paired = spec.get('r1') is not None and spec.get('r2') is not None
    r1 = mk_read(h, spec, spec['r1'], True, paired) if spec.get('r1') else None
    r2 = mk_read(h, spec, spec['r2'], False, paired) if spec.get('r2') else None
    return (r1, r2)


def classes(cfg):
    import singlecellmultiomics.molecule as M
    import singlecellmultiomics.fragment as F
    fcls = {0: F.Fragment, 1: F.NlaIIIFragment, 2: F.CHICFragment}[cfg['cls']]
    mname = cfg.get('mol') or {0: 'Molecule', 1: 'NlaIIIMolecule', 2: 'CHICMolecule'}[cfg['cls']]
    return fcls, getattr(M, mname)


def recording(cls, registry):
    class Rec(cls):
        def __init__(self, reads, **kw):
            cls.__init__(self, reads, **kw)
            registry.append(self)
    Rec.__name__ = cls.__name__
    Rec.__qualname__ = cls.__qualname__
    return Rec


def strand_code(s):
    return 2 if s is None else (1 if s else 0)


def abstract(frag, cfg, dup_in):
    name = [r.query_name for r in frag.reads if r is not None][0]
    valid = bool(frag.is_valid())
    contig, site, end = None, None, None
    if cfg['cls'] == 0:
        sp = frag.get_span()
        contig, site, end = sp[0], sp[1], sp[2]
    else:
        sl = getattr(frag, 'site_location', None)
        if sl is not None:
            contig, site = sl[0], sl[1]
    return {'name': name, 'sample': getattr(frag, 'sample', None), 'strand': strand_code(frag.strand),
            'contig': contig, 'site': site, 'end': end, 'umi': frag.umi, 'valid': valid, 'dup': dup_in,
            'hash': repr(frag.match_hash)}


def tag_or_none(r, t):
    return r.get_tag(t) if r.has_tag(t) else None


def describe(molecule):
    """what the tagger does per molecule: write_tags(), then write_pysam -> fragment.write_tags() per fragment"""
    molecule.write_tags()
    out = []
    for frag in molecule:
        frag.write_tags()
        reads = [r for r in frag.reads if r is not None]
        out.append({'name': reads[0].query_name,
                    'dup': [bool(r.is_duplicate) for r in reads], 'qc': [bool(r.is_qcfail) for r in reads],
                    'RC': [tag_or_none(r, 'RC') for r in reads], 'af': [tag_or_none(r, 'af') for r in reads],
                    'TF': [tag_or_none(r, 'TF') for r in reads],
                    'overflow': ['overflow' in str(tag_or_none(r, 'RR') or '').split(',') for r in reads]})
    return out


def build_iterator(pairs, cfg, registry, fargs, margs):
    from singlecellmultiomics.molecule import MoleculeIterator
    fcls, mcls = classes(cfg)
    return MoleculeIterator(pairs, molecule_class=mcls, fragment_class=recording(fcls, registry),
                            check_eject_every=cfg.get('eject'), perform_qflag=False,
                            pooling_method=(0 if cfg.get('pool', 1) == 0 else 1),
                            every_fragment_as_molecule=bool(cfg.get('efm')),
                            yield_invalid=cfg['yinv'], yield_overflow=cfg['yover'],
                            fragment_class_args=fargs, molecule_class_args=margs)


def run_sweep(lib, sweep):
    """construction history: ONE fragment_class_args / molecule_class_args dict reused to construct several lazy
    MoleculeIterators, with umi_hamming_distance / max_associated_fragments updated between the constructions;
    the iterators are consumed only afterwards.  Every iterator must use the settings it was constructed with."""
    cfg = lib['cfg']
    h = header()
    fargs = {'umi_hamming_distance': cfg['d'], 'assignment_radius': cfg['r']}
    margs = {'max_associated_fragments': cfg.get('cap')}
    built = []
    for sw in sweep:
        fargs['umi_hamming_distance'] = sw['d']
        margs['max_associated_fragments'] = sw['cap']
        pairs = [mk_pair(h, s) for s in lib['reads']]
        registry = []
        dups = [any(r.is_duplicate for r in p if r is not None) for p in pairs]
        built.append((build_iterator(pairs, cfg, registry, fargs, margs), registry, dups, dict(cfg, d=sw['d'], cap=sw['cap'])))
    out = []
    for it, registry, dups, c in built:
        try:
            molecules = list(it)
            frags = [abstract(f, c, dups[i]) for i, f in enumerate(registry)]
            out.append({'frags': frags, 'pass1': [describe(m) for m in molecules], 'pass2': None, 'bam': None})
        except BaseException as e:
            out.append({'error': '%s: %s' % (type(e).__name__, e)})
    return out


def run_duo(lib, duo, schedule):
    """two-iterator history: TWO MoleculeIterators with different settings (umi_hamming_distance, pooling_method, cap)
    over the same library (each its own read objects and its own argument dicts) advance in ONE process, interleaved
    fragment by fragment: iterator k may take its next read pair only when `schedule` gives it the turn (each runs in
    its own thread, the source generators hand the turn over).  Each must behave as if it ran alone."""
    import threading
    cfg = lib['cfg']
    h = header()
    cond = threading.Condition()
    state = {'turn': 0, 'done': [False, False], 'pos': 0}
    sched = list(schedule) or [0, 1]

    def next_turn():
        state['pos'] += 1
        t = sched[state['pos'] % len(sched)]
        if state['done'][t]:
            t = 1 - t
        state['turn'] = t

    def source(k, pairs):
        for p in pairs:
            with cond:
                while state['turn'] != k and not state['done'][1 - k]:
                    cond.wait(timeout=5)
            yield p
            with cond:
                next_turn()
                cond.notify_all()

    out = [None, None]

    def work(k, setting):
        c = dict(cfg, **setting)
        try:
            pairs = [mk_pair(h, s_) for s_ in lib['reads']]
            dups = [any(r.is_duplicate for r in p if r is not None) for p in pairs]
            registry = []
            fargs = {'umi_hamming_distance': c['d'], 'assignment_radius': c['r']}
            margs = {}
            if c.get('cap') is not None:
                margs['max_associated_fragments'] = c['cap']
            it = build_iterator(source(k, pairs), c, registry, fargs, margs)
            molecules = list(it)
            frags = [abstract(f, c, dups[i]) for i, f in enumerate(registry)]
            out[k] = {'frags': frags, 'pass1': [describe(m) for m in molecules], 'pass2': None, 'bam': None}
        except BaseException as e:
            out[k] = {'error': '%s: %s' % (type(e).__name__, e)}
        finally:
            with cond:
                state['done'][k] = True
                state['turn'] = 1 - k
                cond.notify_all()
    ths = [threading.Thread(target=work, args=(k, duo[k])) for k in (0, 1)]
    for t in ths:
        t.start()
    for t in ths:
        t.join(timeout=600)
    return [o if o is not None else {'error': 'RuntimeError: harness: iterator thread did not finish'} for o in out]


def run_pass(pairs, cfg, keep=None):
    registry = []
    fargs = {'umi_hamming_distance': cfg['d'], 'assignment_radius': cfg['r']}
    margs = {}
    if cfg.get('cap') is not None:
        margs['max_associated_fragments'] = cfg['cap']
    if cfg.get('cache') is not None:
        margs['cache_size'] = cfg['cache']
    dups = [any(r.is_duplicate for r in p if r is not None) for p in pairs]
    it = build_iterator(pairs, cfg, registry, fargs, margs)
    molecules = list(it)
    frags = [abstract(f, cfg, dups[i]) for i, f in enumerate(registry)]
    if len(registry) != len(pairs):
        raise RuntimeError('harness: %d fragments constructed for %d inputs' % (len(registry), len(pairs)))
    mols = [describe(m) for m in molecules]
    if keep is not None:
        keep.extend(molecules)
    return frags, mols


def bam_roundtrip(molecules, cfg, h, n):
    """write the tagged molecules with Molecule.write_pysam, read the file back, tag again"""
    import pysam
    path = os.path.join(os.environ.get('SCMO_SCRATCH', '.'), 'rt%d.bam' % n)
    with pysam.AlignmentFile(path, 'wb', header=h) as out:
        for m in molecules:
            m.write_pysam(out)
    byname, order = {}, []
    with pysam.AlignmentFile(path, check_sq=False) as f:
        for rec in f.fetch(until_eof=True):
            if rec.query_name not in byname:
                byname[rec.query_name] = [None, None]
                order.append(rec.query_name)
            byname[rec.query_name][1 if rec.is_read2 else 0] = rec
    pairs = [tuple(byname[q]) for q in order]
    frags, mols = run_pass(pairs, cfg)
    return {'frags': frags, 'mols': mols}


def one(lib, n):
    cfg = lib['cfg']
    if lib.get('history') and lib['history'].get('duo'):
        return run_duo(lib, lib['history']['duo'], lib['history'].get('schedule'))[lib['history']['index']]
    if lib.get('history'):
        return run_sweep(lib, lib['history']['sweep'])[lib['history']['index']]
    h = header()
    pairs = [mk_pair(h, s) for s in lib['reads']]
    keep = []
    frags, mols = run_pass(pairs, cfg, keep)
    res = {'frags': frags, 'pass1': mols, 'pass2': None, 'bam': None}
    if lib.get('bam'):
        res['bam'] = bam_roundtrip(keep, cfg, h, n)
    if lib.get('sweep'):
        res['sweep'] = run_sweep(lib, lib['sweep'])
    if lib.get('duo'):
        res['duo'] = run_duo(lib, lib['duo'], lib.get('schedule'))
    if lib.get('both'):
        # the same library through the OTHER pooling method (fresh read objects)
        c2 = dict(cfg, pool=(1 if cfg.get('pool', 1) == 0 else 0))
        try:
            res['other'] = run_pass([mk_pair(h, s) for s in lib['reads']], c2)[1]
        except BaseException as e:
            res['other'] = {'error': '%s: %s' % (type(e).__name__, e)}
    if lib.get('retag'):
        f2, m2 = run_pass(pairs, cfg)
        res['pass2'] = m2
        res['frags2'] = f2
    return res


def handler(p):
    out = []
    devnull = open(os.devnull, 'w')
    for n, lib in enumerate(p['libs']):
        old = sys.stdout
        sys.stdout = devnull
        try:
            out.append(one(lib, n))
        except BaseException as e:
            out.append({'error': '%s: %s' % (type(e).__name__, e)})
        finally:
            sys.stdout = old
    return {'libs': out}


fw.impl_main(handler)
