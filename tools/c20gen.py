"""C20 translator: AST walk of the tagging pipelines -> coq/Gen/GenStatus.v (terms of Lib.StatusLang.prog).

What is extracted (fail closed: anything outside the recognised subset raises Untranslatable):
  * every call, in evaluation order, of run_multiome_tagging, tag_multiome_single_thread,
    tag_multiome_multi_processing, sorted_bam_file (code before / after the yield), sort_and_index,
    merge_bams and the `with` block of run_tagging_tasks;
  * try/except (which exceptions are caught, whether the handler re-raises), for loops, if/else;
  * the effect of a call on the abstract world is decided from the callee name AND from whether it
    receives the output path (or <output>.bai): see classify().  A call that does not receive the
    output path is a step without effect on the world (it can still fail).  A call of an unknown
    function that does receive the output path is refused.
"""
import ast, os, hashlib
from py2coq import Untranslatable

TM = 'singlecellmultiomics/universalBamTagger/bamtagmultiome.py'
BF = 'singlecellmultiomics/bamProcessing/bamFunctions.py'
TG = 'singlecellmultiomics/universalBamTagger/tagging.py'

OK_MESSAGE = 'Reached end. All ok!'
# calls that cannot touch the file system and are not worth a crash point of their own
PURE = {'print', 'len', 'list', 'dict', 'set', 'str', 'int', 'float', 'bool', 'enumerate', 'isinstance', 'type',
        'tuple', 'sorted', 'range', 'any', 'all', 'sum', 'min', 'max', 'locals', 'repr', 'format', 'zip',
        'sleep', 'time.sleep', 'os.path.exists', 'os.path.dirname', 'os.path.abspath', 'os.path.join',
        'os.path.basename', 'sys.stderr.write', 'sys.stdout.write', 'which', 'datetime.now', 'uuid.uuid4', 'uuid4'}
PURE_METHODS = {'endswith', 'startswith', 'replace', 'split', 'join', 'get', 'items', 'keys', 'values', 'append',
                'add', 'copy', 'strftime', 'total_seconds', 'format', 'strip', 'lower', 'upper', 'update', 'extend'}
# functions whose body is translated and referenced where they receive the output path:
#   name -> (file key, name of the parameter holding the output path)
INLINE = {
    'sorted_bam_file': (BF, 'write_path'),
    'sort_and_index': (BF, 'sorted_path'),
    'merge_bams': (BF, 'output_path'),
    'tag_multiome_single_thread': (TM, 'out_bam_path'),
    'tag_multiome_multi_processing': (TM, 'out_bam_path'),
}


def dotted(node):
    if isinstance(node, ast.Name):
        return node.id
    if isinstance(node, ast.Attribute):
        b = dotted(node.value)
        return (b + '.' + node.attr) if b else None
    return None


def dump(e):
    return ast.dump(e, annotate_fields=False)


class Ctx:
    """per function translation context"""
    def __init__(self, gen, fname, fdef, out_exprs, relfile):
        self.gen, self.fname, self.fdef, self.rel = gen, fname, fdef, relfile
        self.out = set(dump(e) for e in out_exprs)
        self.idx = set()
        for e in out_exprs:
            src = ast.unparse(e)
            for s in ("f'{%s}.bai'" % src, "%s + '.bai'" % src):
                self.idx.add(dump(ast.parse(s, mode='eval').body))
        self.out_src = [ast.unparse(e) for e in out_exprs]
        self.alias = {}         # loop variable of an unrolled literal loop -> expression
        self.handles = set()    # names bound by `with sorted_bam_file(out) as NAME`
        self.unit_iters = set()  # names assigned from an iterator over run_tagging_tasks results
        self.assigned = {}      # name -> list of value nodes (whole function)
        for n in ast.walk(fdef):
            if isinstance(n, ast.Assign) and len(n.targets) == 1 and isinstance(n.targets[0], ast.Name):
                self.assigned.setdefault(n.targets[0].id, []).append(n.value)

    def resolve(self, e):
        if isinstance(e, ast.Name) and e.id in self.alias:
            return self.alias[e.id]
        return e

    def is_out(self, e):
        return dump(self.resolve(e)) in self.out

    def is_idx(self, e):
        return dump(self.resolve(e)) in self.idx

    def mentions_out(self, e):
        """the expression contains the output path (as a sub-expression)"""
        e = self.resolve(e)
        for n in ast.walk(e):
            if isinstance(n, ast.expr):
                n2 = self.resolve(n)
                if dump(n2) in self.out or dump(n2) in self.idx:
                    return True
        return False


class Gen:
    def __init__(self, repo):
        self.repo = repo
        self.labels = []      # label id -> name
        self.label_count = {}
        self.loops = []       # loop id -> name
        self.choices = []     # choice id -> name (function: test source)
        self.defs = []        # (coq name, term text)
        self.meta = []
        self.notes = []
        self.trees = {}
        self.funcs = {}
        for rel in (TM, BF, TG):
            p = os.path.join(repo, rel)
            src = open(p).read()
            tree = ast.parse(src)
            self.trees[rel] = (tree, src)
            for n in tree.body:
                if isinstance(n, ast.FunctionDef):
                    self.funcs[(rel, n.name)] = n
        self.built = {}

    # ---------------------------------------------------------------- ids
    def label(self, fname, callee):
        key = '%s/%s' % (fname, callee)
        k = self.label_count.get(key, 0)
        self.label_count[key] = k + 1
        self.labels.append('%s#%d' % (key, k))
        return len(self.labels) - 1

    def loop_id(self, fname, node):
        self.loops.append('%s: for %s in %s' % (fname, ast.unparse(node.target), ast.unparse(node.iter)))
        return len(self.loops) - 1

    def choice_id(self, fname, test):
        self.choices.append('%s: %s' % (fname, ast.unparse(test)))
        return len(self.choices) - 1

    def refuse(self, ctx, node, why):
        raise Untranslatable('%s:%s (%s): %s: %s' % (ctx.rel, getattr(node, 'lineno', '?'), ctx.fname, why,
                                                     ast.unparse(node)[:120].replace('\n', ' ')))

    # ---------------------------------------------------------------- calls
    def calls_in(self, node):
        """Call nodes below node in evaluation order (arguments before the call); lambdas and nested
        function definitions are not entered"""
        out = []

        def visit(n):
            if isinstance(n, (ast.Lambda, ast.FunctionDef, ast.AsyncFunctionDef, ast.ClassDef)):
                return
            for c in ast.iter_child_nodes(n):
                visit(c)
            if isinstance(n, ast.Call):
                out.append(n)
            if isinstance(n, (ast.Yield, ast.YieldFrom, ast.Await)):
                raise Untranslatable('yield/await outside the recognised place: line %s' % getattr(n, 'lineno', '?'))
        visit(node)
        return out

    def status_of(self, ctx, msg):
        if not (isinstance(msg, ast.Constant) and isinstance(msg.value, str)):
            self.refuse(ctx, msg, 'status message is not a string literal')
        m = msg.value
        if m == OK_MESSAGE:
            return 'SOk'
        if m == 'unfinished':
            return 'SUnfinished'
        if m.startswith('FAIL'):
            return 'SFail'
        return 'SOther'

    def classify(self, ctx, call):
        """-> list of prog terms for this one call (arguments already handled by the caller)"""
        name = dotted(call.func)
        args = list(call.args) + [k.value for k in call.keywords]
        touches = [a for a in args if ctx.mentions_out(a)]
        st = lambda eff, nm=None: ['Step %d %s' % (self.label(ctx.fname, nm or name or 'call'), eff)]
        if name is None:
            # call of a call result / subscript: no name; refuse only when it receives the output path
            if touches:
                self.refuse(ctx, call, 'unnamed callee receives the output path')
            return st('ENop', 'call')
        base = name.split('.')[-1]
        if name in PURE:
            return []
        # method of the output path string itself (args.o.endswith ...)
        if isinstance(call.func, ast.Attribute) and ctx.mentions_out(call.func.value):
            if base in PURE_METHODS:
                return []
            self.refuse(ctx, call, 'method call on the output path')
        if isinstance(call.func, ast.Attribute) and base in PURE_METHODS and not touches:
            return []
        if name == 'write_status':
            if len(call.args) != 2 or call.keywords:
                self.refuse(ctx, call, 'write_status call shape')
            if ctx.is_out(call.args[0]):
                return st('(EStatus %s)' % self.status_of(ctx, call.args[1]))
            if ctx.mentions_out(call.args[0]):
                self.refuse(ctx, call, 'write_status on a path derived from the output path')
            return st('ENop')
        if name in ('os.remove', 'remove', 'os.unlink'):
            if len(args) != 1:
                self.refuse(ctx, call, 'remove call shape')
            if ctx.is_out(args[0]):
                return st('ERemoveOut')
            if ctx.is_idx(args[0]):
                return st('ERemoveIdx')
            return st('ENop')          # e.g. f'{out}.unsorted', temp files
        if name in ('os.rename', 'move', 'shutil.move', 'os.replace'):
            if len(args) != 2:
                self.refuse(ctx, call, 'move call shape')
            if ctx.mentions_out(args[0]):
                self.refuse(ctx, call, 'the output is moved away')
            if ctx.is_out(args[1]):
                return st('EWriteOut')
            if ctx.is_idx(args[1]):
                return st('EIndex')
            if ctx.mentions_out(args[1]):
                self.refuse(ctx, call, 'move to a path derived from the output path')
            return st('ENop')
        if name == 'pysam.sort':
            if any(ctx.is_out(a) for a in args):
                return st('EWriteOut')
            if touches:
                self.refuse(ctx, call, 'pysam.sort argument derived from the output path')
            return st('ENop')
        if name == 'pysam.merge':
            if args and ctx.is_out(args[0]):
                return st('EWriteOut')
            if touches:
                self.refuse(ctx, call, 'pysam.merge with the output path as an input')
            return st('ENop')
        if name == 'pysam.index':
            if args and ctx.is_out(args[0]):
                return st('EIndex')
            if touches:
                self.refuse(ctx, call, 'pysam.index argument derived from the output path')
            return st('ENop')
        if name == 'os.system':
            cmd = args[0] if args else None
            vals = ctx.assigned.get(cmd.id, []) if isinstance(cmd, ast.Name) else [cmd]
            if len(vals) == 1 and isinstance(vals[0], ast.JoinedStr):
                text = ast.unparse(vals[0])
                if any(ctx.mentions_out(v.value) for v in vals[0].values if isinstance(v, ast.FormattedValue)):
                    if 'samtools merge -o {%s}' % ctx.out_src[0] in text:
                        return st('EWriteOut')
                    self.refuse(ctx, call, 'shell command mentioning the output path')
                return st('ENop')
            self.refuse(ctx, call, 'os.system with a command that is not an f-string literal')
        if base == 'write_pysam':
            if args and isinstance(args[0], ast.Name) and args[0].id in ctx.handles:
                return st('EUnit', 'write_pysam')
            return st('ENop', 'write_pysam')
        if name == 'run_tagging_task' and any(isinstance(a, ast.Name) and a.id in ctx.handles for a in args):
            return st('EUnit')
        if name in INLINE:
            rel, param = INLINE[name]
            fdef = self.funcs.get((rel, name))
            if fdef is None:
                self.refuse(ctx, call, 'definition of %s not found' % name)
            bound = self.bind(fdef, call, param)
            if bound is not None and ctx.is_out(bound):
                if name == 'sorted_bam_file':
                    self.refuse(ctx, call, 'sorted_bam_file(output) used outside a with statement')
                self.build(name)
                return ['%s_body' % name]
            if touches:
                self.refuse(ctx, call, '%s receives the output path in another parameter' % name)
            return st('ENop')
        if touches:
            self.refuse(ctx, call, 'unknown function receives the output path')
        return st('ENop')

    def bind(self, fdef, call, param):
        names = [a.arg for a in fdef.args.args]
        if param not in names:
            raise Untranslatable('%s has no parameter %s any more' % (fdef.name, param))
        i = names.index(param)
        if i < len(call.args):
            if any(isinstance(a, ast.Starred) for a in call.args[:i + 1]):
                raise Untranslatable('starred call of %s' % fdef.name)
            return call.args[i]
        for k in call.keywords:
            if k.arg == param:
                return k.value
            if k.arg is None:
                raise Untranslatable('**kwargs call of %s' % fdef.name)
        return None

    def expr_steps(self, ctx, node):
        out = []
        for c in self.calls_in(node):
            out += self.classify(ctx, c)
        return out

    # ---------------------------------------------------------------- statements
    def walk(self, ctx, stmts, in_loop=False):
        out = []
        for s in stmts:
            out += self.stmt(ctx, s, in_loop)
        return out

    def seq(self, terms):
        if not terms:
            return 'Skip'
        if len(terms) == 1:
            return terms[0]
        return 'seq_of [' + '; '.join(terms) + ']'

    def stmt(self, ctx, s, in_loop):
        if isinstance(s, (ast.FunctionDef, ast.Import, ast.ImportFrom, ast.Pass, ast.Nonlocal, ast.Global)):
            return []
        if isinstance(s, ast.Expr) and isinstance(s.value, ast.Constant):
            return []   # docstring / string statement
        if isinstance(s, (ast.Expr, ast.Assign, ast.AugAssign, ast.AnnAssign, ast.Assert, ast.Delete)):
            if isinstance(s, ast.Assign):
                for t in s.targets:
                    for n in ast.walk(t):
                        if isinstance(n, ast.expr) and (dump(n) in ctx.out or dump(n) in ctx.idx):
                            self.refuse(ctx, s, 'the output path is re-assigned')
                        if isinstance(n, ast.Name) and n.id in ctx.handles:
                            self.refuse(ctx, s, 'the output handle is re-assigned')
                # name bound to a stream of worker results
                if len(s.targets) == 1 and isinstance(s.targets[0], ast.Name):
                    if any(isinstance(n, ast.Name) and n.id == 'run_tagging_tasks' for n in ast.walk(s.value)):
                        ctx.unit_iters.add(s.targets[0].id)
                        # the calls inside a generator expression run lazily, at the loop header
                        if isinstance(s.value, ast.GeneratorExp):
                            return []
            return self.expr_steps(ctx, s)
        if isinstance(s, ast.Return):
            if s is not ctx.fdef.body[-1]:
                self.refuse(ctx, s, 'return before the end of the function')
            return self.expr_steps(ctx, s) if s.value is not None else []
        if isinstance(s, ast.Raise):
            pre = self.expr_steps(ctx, s)
            return pre + ['Raise %d' % self.label(ctx.fname, 'raise')]
        if isinstance(s, ast.If):
            return self.if_stmt(ctx, s, in_loop)
        if isinstance(s, ast.For):
            return self.for_stmt(ctx, s)
        if isinstance(s, ast.While):
            if self.calls_with_steps(ctx, s):
                self.refuse(ctx, s, 'while loop with side effects')
            return []
        if isinstance(s, ast.With):
            return self.with_stmt(ctx, s, in_loop)
        if isinstance(s, ast.Try):
            return self.try_stmt(ctx, s, in_loop)
        if isinstance(s, (ast.Break, ast.Continue)):
            self.refuse(ctx, s, 'break/continue outside the recognised `head` test')
        self.refuse(ctx, s, 'statement kind %s not supported' % type(s).__name__)

    def calls_with_steps(self, ctx, node):
        save = (list(self.labels), dict(self.label_count))
        try:
            return bool(self.expr_steps(ctx, node))
        finally:
            self.labels, self.label_count = save

    def if_stmt(self, ctx, s, in_loop):
        # `if head is not None and ...: [print]; break`  -- the -head option truncates on purpose
        if in_loop and not s.orelse and isinstance(s.body[-1], ast.Break) and \
                any(isinstance(n, ast.Name) and n.id == 'head' for n in ast.walk(s.test)) and \
                all(isinstance(b, ast.Expr) and dotted(getattr(b.value, 'func', None)) == 'print' for b in s.body[:-1]):
            self.notes.append('%s: `%s: break` ignored (assumption: -head not given)' % (ctx.fname, ast.unparse(s.test)))
            return []
        pre = self.expr_steps(ctx, s.test)
        if ctx.fname == 'run_multiome_tagging' and ast.unparse(s.test) == 'args.cluster':
            self.notes.append('run_multiome_tagging: the `if args.cluster:` branch (job submission to a scheduler) is not translated')
            return pre
        a = self.walk(ctx, s.body, in_loop)
        b = self.walk(ctx, s.orelse, in_loop)
        if not a and not b:
            return pre
        return pre + ['Choice %d (%s) (%s)' % (self.choice_id(ctx.fname, s.test), self.seq(a), self.seq(b))]

    def for_stmt(self, ctx, s):
        if s.orelse:
            self.refuse(ctx, s, 'for/else')
        # (1) loop over a literal list: unrolled, the loop variable stands for each element
        if isinstance(s.iter, (ast.List, ast.Tuple)) and isinstance(s.target, ast.Name):
            out = []
            for e in s.iter.elts:
                out += self.expr_steps(ctx, e)
            for e in s.iter.elts:
                ctx.alias[s.target.id] = e
                out += self.walk(ctx, s.body, in_loop=False)
                del ctx.alias[s.target.id]
            return out
        # (2) the retry loop of sort_and_index
        r = self.retry_loop(ctx, s)
        if r is not None:
            return r
        # (3) general loop
        pre = self.expr_steps(ctx, s.iter)
        hdr = 'ENop'
        names = [n.id for n in ast.walk(s.iter) if isinstance(n, ast.Name)]
        if any(n in ctx.unit_iters for n in names):
            hdr = 'EUnit'
        body_has_steps = True
        mark = (len(self.labels), dict(self.label_count), len(self.loops), len(self.choices))
        lbl = self.label(ctx.fname, 'next(%s)' % ast.unparse(s.iter)[:40])
        lid = self.loop_id(ctx.fname, s)
        body = self.walk(ctx, s.body, in_loop=True)
        if not body and hdr == 'ENop' and not pre:
            # a loop without any call: no crash point, no effect
            self.labels = self.labels[:mark[0]]
            self.label_count = mark[1]
            self.loops = self.loops[:mark[2]]
            self.choices = self.choices[:mark[3]]
            return []
        return pre + ['Loop %d %d %s (%s)' % (lid, lbl, hdr, self.seq(body))]

    def retry_loop(self, ctx, s):
        """for i, p in enumerate(L): failed=False; try: X except Exception: ...; failed=True; if i==len(L)-1: raise
                                   if not failed: break          with L a literal list of length n
           ==  try X (first path) except: try X (second path) except: X (last path)"""
        it = s.iter
        if not (isinstance(it, ast.Call) and dotted(it.func) == 'enumerate' and len(it.args) == 1
                and isinstance(it.args[0], ast.Name)):
            return None
        lname = it.args[0].id
        if not any(isinstance(n, ast.Try) for n in s.body):
            return None
        vals = ctx.assigned.get(lname, [])
        if len(vals) != 1 or not isinstance(vals[0], (ast.List, ast.Tuple)):
            self.refuse(ctx, s, 'retry loop over something that is not a literal list')
        n = len(vals[0].elts)
        if not (isinstance(s.target, ast.Tuple) and len(s.target.elts) == 2 and all(isinstance(e, ast.Name) for e in s.target.elts)):
            self.refuse(ctx, s, 'retry loop target')
        ivar = s.target.elts[0].id
        body = s.body
        ok = (len(body) == 3 and isinstance(body[0], ast.Assign) and ast.unparse(body[0]) == 'failed = False'
              and isinstance(body[1], ast.Try) and isinstance(body[2], ast.If)
              and ast.unparse(body[2].test) == 'not failed' and len(body[2].body) == 1 and isinstance(body[2].body[0], ast.Break)
              and not body[2].orelse)
        if not ok:
            self.refuse(ctx, s, 'retry loop shape')
        t = body[1]
        if t.finalbody or t.orelse or len(t.handlers) != 1:
            self.refuse(ctx, s, 'retry loop try shape')
        h = t.handlers[0]
        if not (isinstance(h.type, ast.Name) and h.type.id == 'Exception'):
            self.refuse(ctx, s, 'retry loop handler type')
        hb = [x for x in h.body if not (isinstance(x, ast.Expr) and dotted(getattr(x.value, 'func', None)) == 'print')]
        ok = (len(hb) == 2 and ast.unparse(hb[0]) == 'failed = True' and isinstance(hb[1], ast.If)
              and ast.unparse(hb[1].test).replace(' ', '') == '%s==len(%s)-1' % (ivar, lname)
              and len(hb[1].body) == 1 and isinstance(hb[1].body[0], ast.Raise) and hb[1].body[0].exc is None
              and not hb[1].orelse)
        if not ok:
            self.refuse(ctx, s, 'retry loop handler shape')
        attempts = [self.seq(self.walk(ctx, t.body)) for _ in range(n)]
        term = attempts[-1]
        for a in reversed(attempts[:-1]):
            term = 'Try (%s) (%s) false false' % (a, term)
        self.notes.append('%s: retry loop over %d temp paths translated as nested try' % (ctx.fname, n))
        return [term]

    def with_stmt(self, ctx, s, in_loop):
        out = []
        post = []
        for item in s.items:
            ce = item.context_expr
            if isinstance(ce, ast.Call) and dotted(ce.func) == 'sorted_bam_file':
                fdef = self.funcs.get((BF, 'sorted_bam_file'))
                if fdef is None:
                    self.refuse(ctx, s, 'sorted_bam_file not found')
                bound = self.bind(fdef, ce, 'write_path')
                if bound is not None and ctx.is_out(bound):
                    for a in list(ce.args) + [k.value for k in ce.keywords]:
                        if a is not bound:
                            if ctx.mentions_out(a):
                                self.refuse(ctx, s, 'sorted_bam_file receives the output path twice')
                            out += self.expr_steps(ctx, a)
                    self.build('sorted_bam_file')
                    if not isinstance(item.optional_vars, ast.Name):
                        self.refuse(ctx, s, 'with sorted_bam_file(...) without `as name`')
                    ctx.handles.add(item.optional_vars.id)
                    out.append('sorted_bam_file_pre')
                    post.insert(0, 'sorted_bam_file_post')
                    continue
            out += self.expr_steps(ctx, ce)
        out += self.walk(ctx, s.body, in_loop)
        return out + post

    def try_stmt(self, ctx, s, in_loop):
        if s.finalbody or s.orelse:
            self.refuse(ctx, s, 'try with finally/else')
        if len(s.handlers) != 1:
            self.refuse(ctx, s, 'try with several handlers')
        h = s.handlers[0]
        body = self.walk(ctx, s.body, in_loop)
        if h.type is None:
            catch_base = 'true'
        else:
            tn = dotted(h.type)
            if tn == 'Exception':
                catch_base = 'false'
            elif tn == 'BaseException':
                catch_base = 'true'
            else:
                # a handler for one specific exception class does not catch an arbitrary failure
                self.notes.append('%s: `except %s` handler not translated (assumption: that exception is not raised)' % (ctx.fname, tn))
                return body
        hb = list(h.body)
        reraise = 'false'
        if hb and isinstance(hb[-1], ast.Raise):
            r = hb.pop()
            if r.exc is not None and not (isinstance(r.exc, ast.Name) and r.exc.id == h.name):
                # raise OtherError(...) still propagates an exception
                pass
            reraise = 'true'
        for x in hb:
            for n in ast.walk(x):
                if isinstance(n, (ast.Raise, ast.Return, ast.Break, ast.Continue)):
                    self.refuse(ctx, s, 'control flow inside an except handler')
        handler = self.walk(ctx, hb, in_loop=False)
        if not body:
            return []
        return ['Try (%s) (%s) %s %s' % (self.seq(body), self.seq(handler), reraise, catch_base)]

    # ---------------------------------------------------------------- functions
    def build(self, name):
        if name in self.built:
            if self.built[name] is None:
                raise Untranslatable('recursion through %s' % name)
            return
        self.built[name] = None
        rel, param = INLINE[name]
        fdef = self.funcs[(rel, name)]
        ctx = Ctx(self, name, fdef, [ast.Name(param, ast.Load())], rel)
        self.check_signature(ctx, fdef, param)
        if name == 'sorted_bam_file':
            self.build_cm(ctx, fdef)
        else:
            self.defs.append(('%s_body' % name, self.seq(self.walk(ctx, fdef.body))))
        self.record(rel, fdef)
        self.built[name] = True

    def check_signature(self, ctx, fdef, param):
        # the output-path parameter must not be rebound inside the function
        for n in ast.walk(fdef):
            if isinstance(n, ast.Name) and n.id == param and isinstance(n.ctx, (ast.Store, ast.Del)):
                self.refuse(ctx, n, 'parameter %s is re-assigned' % param)

    def build_cm(self, ctx, fdef):
        decos = [dotted(d) for d in fdef.decorator_list]
        if decos != ['contextlib.contextmanager']:
            self.refuse(ctx, fdef, 'sorted_bam_file is not a plain contextlib.contextmanager')
        idx = [i for i, s in enumerate(fdef.body) if isinstance(s, ast.Expr) and isinstance(s.value, ast.Yield)]
        nyield = sum(1 for n in ast.walk(fdef) if isinstance(n, (ast.Yield, ast.YieldFrom)))
        if len(idx) != 1 or nyield != 1:
            # a yield inside try/finally would make the exit code run after a failure too
            self.refuse(ctx, fdef, 'the yield of sorted_bam_file is not a top-level statement of the function')
        i = idx[0]
        pre = self.walk(ctx, fdef.body[:i])
        post = self.walk(ctx, fdef.body[i + 1:])
        self.defs.append(('sorted_bam_file_pre', self.seq(pre)))
        self.defs.append(('sorted_bam_file_post', self.seq(post)))

    def record(self, rel, fdef):
        tree, src = self.trees[rel]
        seg = ast.get_source_segment(src, fdef) or ''
        self.meta.append({'file': rel, 'function': fdef.name, 'lines': [fdef.lineno, fdef.end_lineno],
                          'sha256': hashlib.sha256(seg.encode()).hexdigest()})

    def build_all(self):
        # write_status naming rule and content (read back by the correspondence check)
        ws = self.funcs.get((TM, 'write_status'))
        if ws is None:
            raise Untranslatable('write_status not found')
        norm = ast.unparse(ws).replace('"', "'")
        want = ("def write_status(output_path, message):\n    status_path = output_path.replace('.bam', '.status.txt')\n"
                "    with open(status_path, 'w') as o:\n        o.write(message + '\\n')")
        if norm != want:
            raise Untranslatable('write_status changed: %r' % norm)
        self.record(TM, ws)
        cmd = self.funcs.get((TM, 'run_multiome_tagging_cmd'))
        if cmd is None or [ast.unparse(x) for x in cmd.body] != ['args = argparser.parse_args(commandline)', 'run_multiome_tagging(args)']:
            raise Untranslatable('run_multiome_tagging_cmd changed')
        # worker: the with block of run_tagging_tasks
        rt = self.funcs.get((TG, 'run_tagging_tasks'))
        if rt is None:
            raise Untranslatable('run_tagging_tasks not found')
        withs = [s for s in rt.body if isinstance(s, ast.With)]
        if len(withs) != 1:
            raise Untranslatable('run_tagging_tasks: expected one top-level with block')
        ctx = Ctx(self, 'run_tagging_tasks', rt, [ast.Name('target_file', ast.Load())], TG)
        self.defs.append(('worker_body', self.seq(self.walk(ctx, [withs[0]]))))
        self.record(TG, rt)
        # main
        run = self.funcs.get((TM, 'run_multiome_tagging'))
        if run is None:
            raise Untranslatable('run_multiome_tagging not found')
        out = ast.parse('args.o', mode='eval').body
        ctx = Ctx(self, 'run_multiome_tagging', run, [out], TM)
        for n in ast.walk(run):
            if isinstance(n, ast.Attribute) and isinstance(n.ctx, (ast.Store, ast.Del)) and ast.unparse(n) == 'args.o':
                self.refuse(ctx, n, 'args.o is re-assigned')
        self.defs.append(('pipeline', self.seq(self.walk(ctx, run.body))))
        self.record(TM, run)
        for need in ('tag_multiome_single_thread', 'tag_multiome_multi_processing', 'sorted_bam_file', 'sort_and_index', 'merge_bams'):
            if not self.built.get(need):
                raise Untranslatable('%s is not reached from run_multiome_tagging with the output path' % need)

    def coq(self):
        L = ['(* GENERATED by tools/c20gen.py from %s, %s, %s -- do not edit; regenerated on every run *)' % (TM, BF, TG),
             'From Coq Require Import List Bool.', 'Import ListNotations.', 'From SCMO Require Import Lib.StatusLang.', '']
        L.append('(* labels (Step / Loop header):')
        for i, n in enumerate(self.labels):
            L.append('   %d  %s' % (i, n.replace('(*', '( *').replace('*)', '* )')))
        L.append('   loops:')
        for i, n in enumerate(self.loops):
            L.append('   %d  %s' % (i, n.replace('(*', '( *').replace('*)', '* )')))
        L.append('   choices:')
        for i, n in enumerate(self.choices):
            L.append('   %d  %s' % (i, n.replace('(*', '( *').replace('*)', '* )')))
        L.append('*)')
        for name, term in self.defs:
            L.append('Definition %s : prog :=\n  %s.\n' % (name, term))
        t = self.std_choices()
        L.append('(* branch outcomes of a standard run (local sort, read groups, no samtools binary, pool) *)')
        L.append('Definition ch_true_single : list nat := [%s].' % '; '.join(str(i) for i in t['single']))
        L.append('Definition ch_true_multi : list nat := [%s].' % '; '.join(str(i) for i in t['multi']))
        L.append('Definition id_ch_multiprocess : nat := %d.' % t['id_mp'])
        L.append('Definition id_ch_tempfiles : nat := %d.' % t['id_tmp'])
        return '\n'.join(L) + '\n'


STD_TRUE = [
    'sorted_bam_file: header is not None', 'sorted_bam_file: read_groups is not None',
    'sorted_bam_file: input_is_sorted is False', 'sort_and_index: local_temp_sort', 'sort_and_index: remove_unsorted',
    'run_multiome_tagging: not args.ignore_bam_issues', 'run_multiome_tagging: args.ref is None',
    'tag_multiome_multi_processing: use_pool', 'tag_multiome_multi_processing: len(meta)',
    "merge_bams: which('samtools') is None", 'tag_multiome_single_thread: not no_source_reads',
    'tag_multiome_single_thread: not rgid in read_groups',
]


def _std_choices(self):
    names = self.choices
    missing = [t for t in STD_TRUE if t not in names]
    if missing:
        raise Untranslatable('run-time tests not found any more: %r' % missing)
    def one(test):
        ids = [i for i, n in enumerate(names) if n == test]
        if len(ids) != 1:
            raise Untranslatable('expected exactly one test %r, found %d' % (test, len(ids)))
        return ids[0]
    mp = one('run_multiome_tagging: args.multiprocess')
    tmp = one('run_multiome_tagging: len(tempfiles)')
    base = [i for i, n in enumerate(names) if n in STD_TRUE]
    return {'single': base, 'multi': sorted(base + [mp]), 'id_mp': mp, 'id_tmp': tmp}


Gen.std_choices = _std_choices


def generate(repo):
    g = Gen(repo)
    g.build_all()
    return g
