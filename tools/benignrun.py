"""run benigntest.py over benign/<dirs> (all, or those given / whose property is given), one worker per property;
writes benign/<d>/result.json and prints a summary table.   usage: benignrun.py [Cxx | Cxx-k ...] [-j N]"""
import json, os, subprocess, sys, glob, collections
from concurrent.futures import ThreadPoolExecutor
V = os.path.dirname(os.path.dirname(os.path.abspath(__file__)))
args = [a for a in sys.argv[1:] if not a.startswith('-')]
j = int(sys.argv[sys.argv.index('-j') + 1]) if '-j' in sys.argv else 6
if '-j' in sys.argv:
    args = [a for a in args if a != sys.argv[sys.argv.index('-j') + 1]]
dirs = sorted(os.path.basename(d) for d in glob.glob(os.path.join(V, 'benign', 'C*-*')))
if args:
    dirs = [d for d in dirs if d in args or d.split('-')[0] in args]
byprop = collections.defaultdict(list)
for d in dirs:
    byprop[d.split('-')[0]].append(d)


def load(d):
    p = os.path.join(V, 'benign', d, 'result.json')
    try:
        t = open(p).read()
        return json.loads(t[t.index('{'):])
    except Exception as e:
        return {'outcome': 'unparsed: %r' % (e,)}


def work(prop):
    for d in byprop[prop]:
        out = subprocess.run([sys.executable, os.path.join(V, 'tools', 'benigntest.py'), os.path.join(V, 'benign', d)],
                             capture_output=True, text=True)
        open(os.path.join(V, 'benign', d, 'result.json'), 'w').write(out.stdout + out.stderr)
        r = load(d)
        print('%-7s %-12s %6ss  %s' % (d, r.get('outcome'), r.get('check_wall_s'),
              ' | '.join(l.strip()[:260] for l in r.get('check_lines', []) if 'broken' in l)[:600] or
              (r.get('witness') or {}).get('what', '')[:300]), flush=True)


if '--report' not in sys.argv:
    with ThreadPoolExecutor(max_workers=j) as ex:
        list(ex.map(work, sorted(byprop)))
cnt = collections.Counter()
for d in dirs:
    cnt[load(d).get('outcome')] += 1
print(dict(cnt))
