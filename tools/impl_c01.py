"""runs the REAL demultiplexing loader (DemultiplexingStrategyLoader.demultiplex with FastqIterator input and
FastqHandle outputs) on generated gzip FASTQ libraries, and computes the abstraction the C01 model is
parametric in: per pair and strategy the outcome class of the real strategy.demultiplex (+ serialisation as
FastqHandle.write does it), and the reject header of the loader's base demultiplexer."""
import os, sys, io, gzip, re
import fw

_STATE = {}


def setup():
    if _STATE:
        return _STATE
    import importlib.resources as resources
    from singlecellmultiomics.modularDemultiplexer.demultiplexingStrategyLoader import DemultiplexingStrategyLoader
    import singlecellmultiomics.barcodeFileParser.barcodeFileParser as bfp
    pk = resources.files('singlecellmultiomics')
    old = sys.stdout
    sys.stdout = io.StringIO()
    try:
        # as demux.py __main__ builds them (defaults: -hd 0, -hdi 1, -ifa illumina_merged_ThruPlex48S_RP)
        bp = bfp.BarcodeParser(hammingDistanceExpansion=0, barcodeDirectory=str(pk / 'modularDemultiplexer/barcodes/'),
                               lazyLoad=("10x_3M-february-2018",))
        ip = bfp.BarcodeParser(hammingDistanceExpansion=1, barcodeDirectory=str(pk / 'modularDemultiplexer/indices/'))
        dmx = DemultiplexingStrategyLoader(barcodeParser=bp, indexParser=ip, only_detect_methods=None,
                                           indexFileAlias='illumina_merged_ThruPlex48S_RP')
    finally:
        sys.stdout = old
    _STATE.update(bp=bp, ip=ip, dmx=dmx)
    return _STATE


def get_loader(opts):
    """a loader built with other constructor options (DemultiplexingStrategyLoader.__init__: only_detect_methods,
    indexFileAlias, indexParser=None); cached per option set"""
    st = setup()
    if not opts:
        return st['dmx']
    key = repr(sorted(opts.items()))
    cache = st.setdefault('loaders', {})
    if key not in cache:
        from singlecellmultiomics.modularDemultiplexer.demultiplexingStrategyLoader import DemultiplexingStrategyLoader
        old = sys.stdout
        sys.stdout = io.StringIO()
        try:
            cache[key] = DemultiplexingStrategyLoader(
                barcodeParser=st['bp'], indexParser=(None if opts.get('no_index_parser') else st['ip']),
                only_detect_methods=opts.get('only_detect_methods'),
                indexFileAlias=opts.get('index_alias', 'illumina_merged_ThruPlex48S_RP'))
        finally:
            sys.stdout = old
    return cache[key]


def describe():
    st = setup()
    out = []
    for s in st['dmx'].demultiplexingStrategies:
        d = {'name': s.shortName, 'cls': type(s).__name__, 'bases': [c.__name__ for c in type(s).__mro__[1:-1]]}
        for a in ('umiRead', 'umiStart', 'umiLength', 'barcodeRead', 'barcodeStart', 'barcodeLength',
                  'random_primer_read', 'random_primer_length', 'barcodeFileAlias'):
            v = getattr(s, a, None)
            if isinstance(v, (int, str)) or v is None:
                d[a] = v
        alias = d.get('barcodeFileAlias')
        bcs = []
        try:
            if alias is not None and alias != '10x_3M-february-2018':
                bcs = sorted(st['bp'].barcodes[alias].keys())[:24]
        except Exception:
            bcs = []
        d['barcodes'] = bcs
        out.append(d)
    idx = sorted(st['ip'].barcodes['illumina_merged_ThruPlex48S_RP'].keys())[:8]
    return {'strategies': out, 'indices': idx}


def exc_kind(e):
    return type(e).__name__


def outcome_of(strategy, reads, lib, sc, nh):
    """outcome class of the loader's try-block for this pair: strategy.demultiplex, then what
    FastqHandle.write evaluates per record (cell key in per-cell mode, str(record))"""
    from singlecellmultiomics.modularDemultiplexer.baseDemultiplexMethods import NonMultiplexable
    try:
        recs = strategy.demultiplex(reads, library=lib, probe=None)
    except NonMultiplexable as reason:
        return [1, str(reason)], reason
    except Exception as e:
        return [2, exc_kind(e)], None
    out = []
    width = 2 if sc else nh
    try:
        recs = list(recs)
    except Exception as e:
        return [2, exc_kind(e)], None
    failed = False
    for k, r in enumerate(recs):
        if k >= width or failed:
            out.append([1, '', ''])   # zip() never touches it / write() already raised
            continue
        try:
            cell = ''
            if sc:
                cell = f"{r.tags.get('bi', 'no_cell_id')}.{r.tags.get('MX', 'unk')}"
            out.append([1, cell, str(r)])
        except Exception as e:
            if k == 0:
                return [2, exc_kind(e)], None     # nothing written: the try-block raised
            out.append([0, '', exc_kind(e)])      # PARTIAL write: earlier mates are already in the target file
            failed = True
    return [0, out], None


def rej_header(base, read, lib, reason):
    from singlecellmultiomics.modularDemultiplexer.baseDemultiplexMethods import NonMultiplexable
    try:
        txt = base.demultiplex([read], library=lib, reason=reason)[0]
    except NonMultiplexable as e:
        return [1, str(e)]
    except Exception as e:
        return [2, exc_kind(e)]
    first = txt.split('\n', 1)[0]
    if not first.startswith('@'):
        return [2, 'NoAt']
    return [0, first[1:]]


def read_outputs(d, skip=('in_', 'prior_')):
    outs = {}
    for fn in sorted(os.listdir(d)):
        if fn.startswith(skip) or not fn.endswith('.gz'):
            continue
        with gzip.open(os.path.join(d, fn), 'rb') as h:
            outs[fn] = h.read().decode('utf-8')
    return outs


def write_inputs(d, prefix, files, eol):
    paths = []
    for k, f in enumerate(files):
        p = os.path.join(d, '%sR%d.fastq.gz' % (prefix, k + 1))
        data = eol.join(f['lines']) + (eol if f['lines'] and f['final_eol'] else '')
        with gzip.open(p, 'wb') as h:
            h.write(data.encode('utf-8'))
        paths.append(p)
    return paths


def run_case(n, c):
    st = setup()
    from singlecellmultiomics.fastqProcessing.fastqHandle import FastqHandle
    from singlecellmultiomics.fastqProcessing.fastqIterator import FastqIterator
    from singlecellmultiomics.modularDemultiplexer.baseDemultiplexMethods import IlluminaBaseDemultiplexer
    dmx = get_loader(c.get('loader_opts'))
    d = os.path.join(os.environ['SCMO_SCRATCH'], 'case%d' % n)
    os.makedirs(d)
    paths = []
    for k, f in enumerate(c['files']):
        p = os.path.join(d, 'in_R%d.fastq.gz' % (k + 1))
        data = c['eol'].join(f['lines']) + (c['eol'] if f['lines'] and f['final_eol'] else '')
        with gzip.open(p, 'wb') as h:
            h.write(data.encode('utf-8'))
        paths.append(p)
    res = {}
    devnull = open(os.devnull, 'w')
    old = sys.stdout
    sys.stdout = devnull
    try:
        pairs = [list(t) for t in FastqIterator(*paths)]
        res['pairs'] = [[[r.header, r.sequence, r.plus, r.qual] for r in t] for t in pairs]
        if c.get('reader_only'):
            return res
        strategies = dmx.getSelectedStrategiesFromStringList(c['use'], verbose=False)
        res['order'] = [s.shortName for s in strategies]
        res['registered'] = [s.shortName for s in dmx.demultiplexingStrategies]
        nh = 2 if c['pe_handle'] else 1
        if c.get('prior_files'):
            # run history: an EARLIER demultiplexing run (own handles, closed) into the same directory and prefix
            ppaths = write_inputs(d, 'prior_', c['prior_files'], c['eol'])
            t0 = FastqHandle(os.path.join(d, 'demultiplexed'), c['pe_handle'], single_cell=c['sc'],
                             maxHandles=c.get('max_handles', 500))
            r0 = FastqHandle(os.path.join(d, 'rejects'), c['pe_handle']) if c['rejects'] else None
            try:
                dmx.demultiplex(ppaths, strategies=strategies, targetFile=t0, rejectHandle=r0, log_handle=None,
                                library=c['lib'], maxReadPairs=None)
            except Exception:
                pass
            t0.close()
            if r0 is not None:
                r0.close()
            res['prior_out_files'] = read_outputs(d)
        target = FastqHandle(os.path.join(d, 'demultiplexed'), c['pe_handle'], single_cell=c['sc'],
                             maxHandles=c.get('max_handles', 500))   # demux.py -fh, default 500
        rej = FastqHandle(os.path.join(d, 'rejects'), c['pe_handle']) if c['rejects'] else None
        log = io.StringIO() if c.get('log', True) else None      # log_handle=None is the API default
        try:
            processed, yields = dmx.demultiplex(paths, strategies=strategies, targetFile=target, rejectHandle=rej,
                                                log_handle=log, library=c['lib'], maxReadPairs=c['maxp'])
            res['result'] = {'processed': processed, 'yields': {k: int(v) for k, v in yields.items()}}
        except Exception as e:
            res['result'] = {'crash': exc_kind(e)}
        target.close()
        if rej is not None:
            rej.close()
        lg = log.getvalue() if log is not None else ''
        m = re.search(r'^processed (\d+) read pairs$', lg, re.M)
        ly = {}
        known_names = {s_.shortName for s_ in dmx.demultiplexingStrategies}
        if 'Strategy\tReads\n' in lg:
            for line in lg.split('Strategy\tReads\n', 1)[1].splitlines():
                # the yield table = the 'strategy<TAB>count' lines that directly follow its header; it ends at the first
                # line of another shape (further informational sections of the log are not strategy yield counters)
                a, _, b = line.rpartition('\t')
                if a in known_names and re.fullmatch(r'\d+', b.strip()):
                    ly[a] = int(b)
                else:
                    break
        res['log'] = {'processed': int(m.group(1)) if m else None, 'yields': ly} if log is not None else None
        outs = read_outputs(d)
        res['out_files'] = outs
        if c.get('spec_only'):
            return res
        # ---- abstraction: outcome classes of the real strategies / reject formatter on the real pairs
        base = IlluminaBaseDemultiplexer(indexFileParser=dmx.indexParser, barcodeParser=dmx.barcodeParser, probe=None)
        outcomes, rejhdr = [], []
        for s in strategies:
            col = []
            for t in pairs:
                o, reason = outcome_of(s, tuple(t), c['lib'], c['sc'], nh)
                col.append(o)
                if o[0] == 1:
                    for r in t:
                        rejhdr.append([[r.header, r.sequence, r.plus, r.qual], o[1], rej_header(base, r, c['lib'], reason)])
            outcomes.append(col)
        res['outcomes'] = outcomes
        res['rejhdr'] = rejhdr
    finally:
        sys.stdout = old
        devnull.close()
    return res


def run_main_case(n, c):
    """the command line driver: demux.py __main__ over the lanes of one library (files named the Illumina way), then the
    same abstraction as run_case on the concatenation of the lanes"""
    import runpy
    st = setup()
    from singlecellmultiomics.fastqProcessing.fastqIterator import FastqIterator
    from singlecellmultiomics.modularDemultiplexer.baseDemultiplexMethods import IlluminaBaseDemultiplexer
    dmx = st['dmx']
    d = os.path.join(os.environ['SCMO_SCRATCH'], 'case%d' % n)
    indir, outdir = os.path.join(d, 'in'), os.path.join(d, 'out')
    os.makedirs(indir)
    nm = len(c['files'])
    # pieces: (lane, chunk, number of pairs) in the order the driver must process them (sorted file names)
    pieces = c.get('pieces') or [[li + 1, 1, size] for li, size in enumerate(c['lane_sizes'])]
    lanes, off = [], 0
    for lane, chunk, size in pieces:
        paths = []
        for k in range(nm):
            p = os.path.join(indir, 'LIBA_S1_L%03d_R%d_%03d.fastq.gz' % (lane, k + 1, chunk))
            lines = c['files'][k]['lines'][4 * off:4 * (off + size)]
            with gzip.open(p, 'wb') as h:
                h.write((c['eol'].join(lines) + (c['eol'] if lines else '')).encode('utf-8'))
            paths.append(p)
        lanes.append(paths)
        off += size
    inputs = [p for paths in lanes for p in paths]
    if c.get('list_seed') is not None:
        # a single list-of-files argument; its lines in arbitrary order (R2 before R1, later chunks first)
        import random
        shuffled = list(inputs)
        random.Random(c['list_seed']).shuffle(shuffled)
        if shuffled == sorted(shuffled) and len(shuffled) > 1:
            shuffled.reverse()
        listfile = os.path.join(d, 'LIBA_files.txt')
        with open(listfile, 'w') as h:
            h.write('\n'.join(shuffled) + '\n')
        inputs = [listfile]
    tail = ['-use', ','.join(c['use']), '--y', '-o', outdir]
    argv = ['demux.py'] + inputs + tail
    if c['maxp'] is not None:
        argv += ['-n', str(c['maxp'])]
    if not c['rejects']:
        argv.append('--norejects')
    if c['sc']:
        argv.append('--scsepf')
    if nm == 1:
        argv.append('--se')
    if (c.get('loader_opts') or {}).get('only_detect_methods'):
        argv += ['-only_detect_methods', ','.join(c['loader_opts']['only_detect_methods'])]
    script = os.path.join(os.environ['SCMO_REPO'], 'singlecellmultiomics', 'modularDemultiplexer', 'demux.py')
    res = {}
    devnull = open(os.devnull, 'w')
    old, oldargv, oldcwd = sys.stdout, sys.argv, os.getcwd()
    sys.stdout, sys.argv = devnull, argv
    os.chdir(d)
    try:
        if c.get('prior_files'):
            # run history: an earlier run of the driver on another library of the same name into the same -o directory
            pdir = os.path.join(d, 'in_prior')
            os.makedirs(pdir)
            ppaths = []
            for k, f in enumerate(c['prior_files']):
                p = os.path.join(pdir, 'LIBA_S1_L001_R%d_001.fastq.gz' % (k + 1))
                with gzip.open(p, 'wb') as h:
                    h.write((c['eol'].join(f['lines']) + (c['eol'] if f['lines'] else '')).encode('utf-8'))
                ppaths.append(p)
            sys.argv = ['demux.py'] + ppaths + [a for a in argv[1 + len(inputs):] if a != '-n' and not a.isdigit()]
            try:
                runpy.run_path(script, run_name='__main__')
            except BaseException:
                pass
            sys.argv = argv
            if os.path.isdir(os.path.join(outdir, 'LIBA')):
                res['prior_out_files'] = read_outputs(os.path.join(outdir, 'LIBA'), skip=('\0',))
        crash = None
        try:
            runpy.run_path(script, run_name='__main__')
        except SystemExit as e:
            if e.code not in (None, 0):
                crash = 'SystemExit'
        except Exception as e:
            crash = exc_kind(e)
        libdir = os.path.join(outdir, 'LIBA')
        outs, lg = {}, ''
        if os.path.isdir(libdir):
            for fn in sorted(os.listdir(libdir)):
                if fn.endswith('.gz'):
                    with gzip.open(os.path.join(libdir, fn), 'rb') as h:
                        outs[fn] = h.read().decode('utf-8')
                elif fn == 'demultiplexing.log':
                    lg = open(os.path.join(libdir, fn)).read()
        res['out_files'] = outs
        tot = re.findall(r'^done, processed:\t(\d+) reads$', lg, re.M)
        ly = {}
        known_names = {s_.shortName for s_ in dmx.demultiplexingStrategies}
        for block in lg.split('Strategy\tReads\n')[1:]:
            for line in block.splitlines():
                if '\t' not in line or line.startswith('processing input files') or line.startswith('done, processed'):
                    break
                a, b = line.rsplit('\t', 1)
                if a in known_names and re.fullmatch(r'\d+', b.strip()):
                    ly[a] = ly.get(a, 0) + int(b)
                else:
                    break
        if crash or not tot or 'Demultiplexing finished' not in lg:
            res['result'] = {'crash': crash or 'NoLog'}
        else:
            res['result'] = {'processed': int(tot[-1]), 'yields': ly}
        res['log'] = {'processed': res['result'].get('processed'), 'yields': ly}
        strategies = dmx.getSelectedStrategiesFromStringList(c['use'], verbose=False)
        res['order'] = [s.shortName for s in strategies]
        pairs = []
        for paths in lanes:
            pairs += [list(t) for t in FastqIterator(*paths)]
        res['pairs'] = [[[r.header, r.sequence, r.plus, r.qual] for r in t] for t in pairs]
        base = IlluminaBaseDemultiplexer(indexFileParser=dmx.indexParser, barcodeParser=dmx.barcodeParser, probe=None)
        outcomes, rejhdr = [], []
        nh = 2 if nm == 2 else 1
        for s in strategies:
            col = []
            for t in pairs:
                o, reason = outcome_of(s, tuple(t), 'LIBA', c['sc'], nh)
                col.append(o)
                if o[0] == 1:
                    for r in t:
                        rejhdr.append([[r.header, r.sequence, r.plus, r.qual], o[1], rej_header(base, r, 'LIBA', reason)])
            outcomes.append(col)
        res['outcomes'] = outcomes
        res['rejhdr'] = rejhdr
    finally:
        sys.stdout, sys.argv = old, oldargv
        os.chdir(oldcwd)
        devnull.close()
    return res


def handler(p):
    if p.get('cmd') == 'describe':
        return describe()
    out = []
    for n, c in enumerate(p['cases']):
        try:
            out.append(run_main_case(n, c) if c.get('main_script') else run_case(n, c))
        except BaseException as e:
            out.append({'error': '%s: %s' % (type(e).__name__, e)})
    return {'cases': out}


if __name__ == '__main__':
    fw.impl_main(handler)
