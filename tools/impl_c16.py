"""runs the REAL FeatureContainer (and, for 'annot' ops, the real FeatureAnnotatedMolecule / pysam reads) for C16.

payload: {'cases': [[op, ...], ...]}   op (JSON):
  ['add', c, s, e, name, strand, data] | ['sort'] | ['at', c, x, q, o] | ['between', c, a, b, q]
  ['blocks', c, pos, cigar, q, method]            findFeaturesAtPysamAlign on a pysam.AlignedSegment
  ['annot', c, pos, cigar, stranded, reverse, method]   FeatureAnnotatedMolecule(...).annotate(method)
ids: contig c -> 'chr<c>', name n -> 'n%06d', data d -> (('gene_id', 'g%06d'),), strand 0/1/2/3 -> None/'+'/'-'/'x'
result per op: {'ok': [[s, e, name, strand, data], ...]} (list order kept; the caller sorts where the source
returns a set) or {'error': 'TypeName: msg'}; a case stops after the first exception that is not addFeature's."""
import os, sys, io
import fw

STR = {0: None, 1: '+', 2: '-', 3: 'x'}
RSTR = {None: 0, '+': 1, '-': 2}
OPT = {0: 'bdbnb', 1: 'nb', 2: 'optim'}


def enc(t):
    s, e, name, strand, data = t
    return [int(s), int(e), int(name[1:]), RSTR[strand], int(data[0][1][1:])]


def make_read(header, c, pos, cigar, reverse=False, name='r'):
    import pysam
    a = pysam.AlignedSegment(header)
    a.query_name = name
    qlen = sum(l for o, l in cigar if o in (0, 1, 4, 7, 8))
    a.query_sequence = 'A' * qlen
    a.flag = 16 if reverse else 0
    a.reference_id = header.get_tid('chr%d' % c)
    a.reference_start = pos
    a.mapping_quality = 60
    a.cigartuples = [tuple(x) for x in cigar]
    a.query_qualities = [30] * qlen
    return a


def run_case(ops, FC, header):
    import singlecellmultiomics.molecule as M
    import singlecellmultiomics.fragment as F
    f = FC()
    out = []
    for op in ops:
        k = op[0]
        try:
            if k == 'add':
                _, c, s, e, n, st, d = op
                f.addFeature('chr%d' % c, s, e, 'n%06d' % n, STR[st], (('gene_id', 'g%06d' % d),))
                out.append({'ok': []})
            elif k == 'sort':
                f.sort()
                out.append({'ok': []})
            elif k == 'at':
                _, c, x, q, o = op
                if o == 0:
                    r = f.findFeaturesAt('chr%d' % c, x, STR[q])
                elif q == 0:
                    r = f.findFeaturesAt('chr%d' % c, x, optim=OPT[o])   # the call shape sort() itself uses
                else:
                    r = f.findFeaturesAt('chr%d' % c, x, STR[q], OPT[o])
                out.append({'ok': [enc(t) for t in r]})
            elif k == 'between':
                _, c, a, b, q = op
                r = f.findFeaturesBetween('chr%d' % c, a, b, STR[q])
                out.append({'ok': [enc(t) for t in r]})
            elif k == 'blocks':
                _, c, pos, cigar, q, meth = op
                read = make_read(header, c, pos, cigar)
                r = f.findFeaturesAtPysamAlign(read, strand=STR[q], method=(0 if meth == 0 else 1))
                out.append({'ok': [enc(t) for t in r], 'get_blocks': [list(b) for b in read.get_blocks()],
                            'pairs': [p[1] for p in read.get_aligned_pairs(matches_only=True)]})
            elif k == 'annot':
                _, c, pos, cigar, stranded, reverse, meth = op
                read = make_read(header, c, pos, cigar, reverse=reverse)
                read.set_tag('SM', 'cell')
                frag = F.Fragment([read, None])
                mol = M.FeatureAnnotatedMolecule(frag, features=f, stranded={0: None, 1: False, 2: True}[stranded])
                mol.annotate(method=meth)
                hits = sorted(int(k[0][1][1:]) for k in mol.hits.keys())
                out.append({'hits': hits, 'strand': bool(mol.strand)})
            else:
                out.append({'error': 'harness: unknown op'})
                break
        except BaseException as e:
            out.append({'error': '%s: %s' % (type(e).__name__, str(e)[:120])})
            if k != 'add':
                break
    return out


def raw(t):
    s, e, name, strand, data = t
    return [int(s), int(e), name, RSTR.get(strand, 3), data if (data is None or isinstance(data, str)) else repr(data)]


def all_features(f):
    """(contig, start, end, name, strand, data) of everything in the container, through the public iterator"""
    try:
        return [tuple(t) for t in f]
    except Exception:
        return [(c,) + tuple(t) for c, l in getattr(f, 'features', {}).items() for t in l]


def xquery(f, op):
    k = op[0]
    if k == 'at':
        _, c, x, q, o = op
        return f.findFeaturesAt(c, x, STR[q]) if o == 0 else f.findFeaturesAt(c, x, STR[q], OPT[o])
    if k == 'between':
        return f.findFeaturesBetween(op[1], op[2], op[3], STR[op[4]])
    if k == 'nl':
        return f.findNearestLeftFeature(op[1], op[2], STR[op[3]])
    if k == 'nr':
        return f.findNearestRightFeature(op[1], op[2], STR[op[3]])
    if k == 'near':
        return f.findNearestFeature(op[1], op[2], STR[op[3]])
    if k == 'brk':
        return f.findFeaturesBetweenBRK(op[1], op[2], op[3], STR[op[4]])
    raise ValueError(k)


def run_xcase(ops, FC):
    """extension cases (tools/c16.py gen_xcase): real strings for contigs / names / data, loaders on real text files.
    Every lookup answer comes with the answer of a FRESH container holding everything added so far ('fresh')."""
    f = FC()
    out = []
    nfile = 0
    for op in ops:
        k = op[0]
        try:
            if k == 'add':
                _, c, s, e, n, st, d = op
                f.addFeature(c, s, e, n, STR[st], d)
                out.append({'ok': []})
            elif k == 'sort':
                f.sort()
                out.append({'ok': []})
            elif k in ('gtf', 'bed'):
                nfile += 1
                path = os.path.join(os.environ.get('SCMO_SCRATCH', '.'), 'x%d_%d.%s' % (os.getpid(), nfile, k))
                with open(path, 'w') as h:
                    h.write(''.join(l + '\n' for l in op[2]))
                if op[1].get('remapKeys') is not None:
                    f.remapKeys = dict(op[1]['remapKeys'])
                kw = {a: b for a, b in op[1].items() if a != 'remapKeys'}
                try:
                    if k == 'gtf':
                        f.loadGTF(path, **kw)
                    else:
                        f.loadBED(path, **kw)
                finally:
                    os.remove(path)
                out.append({'ok': [], 'contigs': sorted(set(t[0] for t in all_features(f)))})
            else:
                before = all_features(f)
                r = xquery(f, op)
                res = {'ok': [raw(t) for t in r]}
                if k in ('nl', 'nr', 'near', 'brk'):
                    g = FC()
                    for t in before:
                        g.addFeature(*t[:4], strand=t[4], data=t[5])
                    g.sort()
                    res['fresh'] = [raw(t) for t in xquery(g, op)]
                out.append(res)
        except BaseException as e:
            res = {'error': '%s: %s' % (type(e).__name__, str(e)[:120])}
            if k in ('gtf', 'bed'):
                res['contigs'] = sorted(set(t[0] for t in all_features(f)))
            out.append(res)
            if k not in ('add', 'gtf', 'bed'):
                break
    return out


def handler(p):
    import pysam
    old = sys.stdout
    sys.stdout = io.StringIO()
    try:
        from singlecellmultiomics.features import FeatureContainer as FC
        header = pysam.AlignmentHeader.from_dict({'HD': {'VN': '1.6'}, 'SQ': [{'SN': 'chr%d' % i, 'LN': 10 ** 9} for i in range(8)]})
        if 'shrink' in p:
            import c16

            def run(ops):
                for nm in ('findFeaturesAt', 'findNearestFeature'):
                    getattr(getattr(FC, nm, None), 'cache_clear', lambda: None)()
                return run_case(ops, FC, header)
            shrunk = []
            for key, ops in p['shrink']:
                small = c16.shrink_with(run, ops, key)
                shrunk.append({'ops': small, 'impl': run(small)})
            return {'shrunk': shrunk}
        if 'attrs' in p:
            # the attribute column as loadGTF itself parses it: store_all=True keeps tuple(keyValues.items()) + ('type', ..) as data
            path = os.path.join(os.environ.get('SCMO_SCRATCH', '.'), 'attrs_%d.gtf' % os.getpid())
            with open(path, 'w') as h:
                for i, a in enumerate(p['attrs']):
                    h.write('chr1\tsrc\tgene\t%d\t%d\t.\t+\t.\t%s\n' % (i + 1, i + 1, a))
            f = FC()
            try:
                f.loadGTF(path, store_all=True, identifierFields=['gene_id'])
            finally:
                os.remove(path)
            got = {}
            for t in all_features(f):
                got[int(t[1])] = [[str(k), str(v)] for k, v in t[5]]
            return {'attrs': [got.get(i) for i in range(len(p['attrs']))], 'file': sys.modules[FC.__module__].__file__}
        if 'xcases' in p:
            res = []
            for ops in p['xcases']:
                for nm in ('findFeaturesAt', 'findNearestFeature'):
                    getattr(getattr(FC, nm, None), 'cache_clear', lambda: None)()
                try:
                    res.append(run_xcase(ops, FC))
                except BaseException as e:
                    res.append([{'error': 'harness: %s: %s' % (type(e).__name__, e)}])
            return {'results': res, 'file': sys.modules[FC.__module__].__file__}
        res = []
        for ops in p['cases']:
            # the lru_cache is one per class: start every case from an empty one (harness hygiene only;
            # keys carry the instance, so a fresh instance can never hit an older instance's entries)
            for nm in ('findFeaturesAt', 'findNearestFeature'):
                getattr(getattr(FC, nm, None), 'cache_clear', lambda: None)()
            try:
                res.append(run_case(ops, FC, header))
            except BaseException as e:
                res.append([{'error': 'harness: %s: %s' % (type(e).__name__, e)}])
    finally:
        sys.stdout = old
    return {'results': res, 'file': sys.modules[FC.__module__].__file__}


fw.impl_main(handler)
