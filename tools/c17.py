"""C17 - blacklist-aware genome tiling is an exact partition with contained fetch windows.

T + K: the expressions the proofs hinge on are regenerated from the source (coq/Gen/GenTiling.v, see regen_tiling below) and
used by the model; the control flow of coq/Model/C17.v is a hand transcription (skeleton-pinned) of fill_range, trim_rangelist,
range_contains_overlap, _merge_overlapping_ranges, merge_overlapping_ranges, blacklisted_binning
(bamBinCounts.py) and bp_chunked (utils/binning.py); every function is run directly on the real code
(tools/impl_c17.py) and compared with the extracted model, exhaustively on small scopes and on random
medium/large inputs; the statement of the theorems (spec) is additionally evaluated on the implementation's
own output by an independent Python transcription (interval arithmetic), which is itself cross-checked
against the Coq boolean specb (proved equivalent to spec: C17_specb_iff)."""
import os, json, itertools, random, glob
from collections import Counter
from concurrent.futures import ProcessPoolExecutor
import fw

WORKERS = int(os.environ.get('VERIF_C17_WORKERS', '6'))
CORPUS = os.path.join(fw.VERIF, 'corpus', 'C17')
FN = {0: 'fill_range', 1: 'trim_rangelist', 2: 'range_contains_overlap', 3: '_merge_overlapping_ranges',
      4: 'merge_overlapping_ranges', 5: 'blacklisted_binning', 6: 'bp_chunked'}


# ============================================================================ T: translator tie
# Regenerates coq/Gen/GenTiling.v from the working tree of SCMO_REPO on every run: the expressions the proofs
# hinge on (comparisons, step / clip / merge expressions, the sentinel, call arguments) are translated by
# py2coq.ExprTranslator; everything else of the seven functions (control flow, statement order, names that are
# assigned) is pinned by a SKELETON = ast.unparse of the function with the translated expressions replaced by
# HOLE and the docstring removed.  Any other shape is refused (fail closed).  Model.C17 uses the generated
# definitions; Proofs.C17 connects them to the arithmetic facts by small shape lemmas (lia).
import ast, hashlib, py2coq
from py2coq import Untranslatable

BINCOUNTS = 'singlecellmultiomics/bamProcessing/bamBinCounts.py'
BINNING = 'singlecellmultiomics/utils/binning.py'
GEN = os.path.join(fw.COQ, 'Gen', 'GenTiling.v')

SKELETON = {
    'fill_range': """def fill_range(start, end, step):
    e = HOLE
    for s in range(HOLE):
        e = HOLE
        if HOLE:
            e = HOLE
            break
        yield HOLE
    if HOLE:
        yield HOLE""",
    'trim_rangelist': """def trim_rangelist(rangelist, start, end):
    for s, e in rangelist:
        overlap = HOLE
        if not overlap:
            continue
        yield HOLE""",
    'range_contains_overlap': """def range_contains_overlap(clist):
    clist = sorted(clist)
    if HOLE:
        return False
    for (start, end), (next_start, next_end) in windowed(clist, 2):
        if HOLE:
            return True
    return False""",
    '_merge_overlapping_ranges': """def _merge_overlapping_ranges(clist):
    merged = False
    for (start, end), (next_start, next_end) in windowed(clist, 2):
        if merged:
            merged = False
            continue
        if HOLE:
            yield HOLE
            merged = True
        else:
            yield HOLE
    if not merged:
        yield clist[-1]""",
    'merge_overlapping_ranges': """def merge_overlapping_ranges(clist):
    clist = sorted(clist)
    while range_contains_overlap(clist):
        clist = sorted(list(_merge_overlapping_ranges(clist)))
    return clist""",
    'blacklisted_binning': """def blacklisted_binning(start_coord: int, end_coord: int, bin_size: int, blacklist: list=None, fragment_size: int=None):
    if blacklist is None:
        blacklist = []
    elif HOLE:
        blacklist = merge_overlapping_ranges(blacklist)
    current = HOLE
    for i, (start, end) in enumerate(chain(trim_rangelist(blacklist, HOLE), [HOLE])):
        if HOLE:
            current = HOLE
            continue
        total_bins = len(list(fill_range(HOLE)))
        if HOLE:
            continue
        if HOLE:
            total_bins = HOLE
        local_bin_size = HOLE
        gap_start = HOLE
        for pos_s, pos_e in fill_range(HOLE):
            if fragment_size is None:
                yield HOLE
            else:
                fs = HOLE
                fe = HOLE
                yield HOLE
            current = pos_e
        current = HOLE""",
    'bp_chunked': """def bp_chunked(job_generator, bp_per_job):
    bp_current = HOLE
    current_tasks = []
    for job in job_generator:
        start, end = (job[1], job[2])
        bp_current += HOLE
        current_tasks.append(job)
        if HOLE:
            yield current_tasks
            bp_current = HOLE
            current_tasks = []
    yield current_tasks""",
}


class _Gen:
    """collects holes of one function: translates them and blanks them in the tree"""
    def __init__(self, path, rel, name):
        self.src = open(path).read()
        self.rel, self.name = rel, name
        self.fn = py2coq.find_function(ast.parse(self.src), name)
        if not isinstance(self.fn, ast.FunctionDef):
            raise Untranslatable('%s is not a function' % name)
        b = self.fn.body
        if b and isinstance(b[0], ast.Expr) and isinstance(b[0].value, ast.Constant) and isinstance(b[0].value.value, str):
            self.fn.body = b[1:]
        self.holes = {}
        self.chunks, self.meta = [], []

    def emit(self, coqname, params, node, kind, env=None, nodes=None):
        """kind: 'z' | 'b' | 'any' (tuple) ; nodes: several expressions emitted as one tuple (call arguments)"""
        tr = py2coq.ExprTranslator(env=env or {})
        if nodes is not None:
            body = '(%s)' % ', '.join(tr.z(n) for n in nodes)
            seg = ', '.join(ast.get_source_segment(self.src, n) for n in nodes)
            first, last = nodes[0], nodes[-1]
            for n in nodes:
                self.holes[id(n)] = True
        else:
            body = {'z': tr.z, 'b': tr.b, 'any': tr.any}[kind](node)
            seg = ast.get_source_segment(self.src, node)
            first = last = node
            self.holes[id(node)] = True
        sha = hashlib.sha256(seg.encode()).hexdigest()
        self.chunks.append('(* source: %s line %d-%d sha256 %s\n   %s *)\nDefinition %s %s :=\n  %s.' % (
            self.rel, first.lineno, last.end_lineno, sha, ' '.join(seg.split()).replace('*)', '* )'), coqname, params, body))
        self.meta.append({'source': self.rel, 'lines': [first.lineno, last.end_lineno], 'sha256': sha, 'coq': coqname})

    def emit_or(self, coqname, params, tests):
        """disjunction of an initial boolean and the tests of `if t: overlap = True` statements"""
        tr = py2coq.ExprTranslator()
        body = '(' + ' || '.join(tr.b(n) for n in tests) + ')'
        seg = ' || '.join(ast.get_source_segment(self.src, n) for n in tests)
        sha = hashlib.sha256(seg.encode()).hexdigest()
        self.chunks.append('(* source: %s line %d-%d sha256 %s\n   %s *)\nDefinition %s %s :=\n  %s.' % (
            self.rel, tests[0].lineno, tests[-1].end_lineno, sha, ' '.join(seg.split()), coqname, params, body))
        self.meta.append({'source': self.rel, 'lines': [tests[0].lineno, tests[-1].end_lineno], 'sha256': sha, 'coq': coqname})

    def check_skeleton(self):
        holes = self.holes

        class H(ast.NodeTransformer):
            def generic_visit(s, node):
                for field, old in ast.iter_fields(node):
                    if isinstance(old, list):
                        new, prev_hole = [], False
                        for v in old:
                            if isinstance(v, ast.AST):
                                if id(v) in holes:
                                    if not prev_hole:      # adjacent holes (call arguments) collapse into one
                                        new.append(ast.Name(id='HOLE', ctx=ast.Load()))
                                    prev_hole = True
                                    continue
                                prev_hole = False
                                v = s.visit(v)
                            new.append(v)
                        old[:] = new
                    elif isinstance(old, ast.AST):
                        if id(old) in holes:
                            setattr(node, field, ast.Name(id='HOLE', ctx=ast.Load()))
                        else:
                            setattr(node, field, s.visit(old))
                return node
        H().visit(self.fn)
        got = ast.unparse(ast.fix_missing_locations(self.fn))
        if got != SKELETON[self.name]:
            import difflib
            d = '\n'.join(l for l in difflib.unified_diff(SKELETON[self.name].splitlines(), got.splitlines(), lineterm='', n=0)
                          if not l.startswith(('---', '+++', '@@')))
            raise Untranslatable('%s: control-flow skeleton changed (not a shape the translator knows):\n%s' % (self.name, d))


def _nav(f):
    def g(*a):
        try:
            return f(*a)
        except Untranslatable:
            raise
        except (AssertionError, IndexError, AttributeError, KeyError, TypeError, ValueError) as e:
            raise Untranslatable('%s: the statement layout of the function differs from the shape the translator knows '
                                 '(%s: %s)' % (f.__name__, type(e).__name__, e))
    return g


def _yield_value(st):
    assert isinstance(st, ast.Expr) and isinstance(st.value, ast.Yield) and st.value.value is not None
    return st.value.value


@_nav
def gen_fill_range(p):
    G = _Gen(p, BINCOUNTS, 'fill_range')
    b = G.fn.body
    assert isinstance(b[0], ast.Assign) and isinstance(b[1], ast.For) and isinstance(b[2], ast.If)
    G.emit('g_fr_init', '(start end_ step : Z)', b[0].value, 'z')
    rng = b[1].iter
    assert isinstance(rng, ast.Call) and rng.func.id == 'range' and len(rng.args) == 3 and not rng.keywords
    G.emit('g_fr_range', '(start end_ step : Z)', None, None, nodes=rng.args)
    lb = b[1].body
    G.emit('g_fr_e', '(start end_ step s e : Z)', lb[0].value, 'z')
    G.emit('g_fr_over', '(start end_ step s e : Z)', lb[1].test, 'b')
    G.emit('g_fr_back', '(start end_ step s e : Z)', lb[1].body[0].value, 'z')
    G.emit('g_fr_yield', '(start end_ step s e : Z)', _yield_value(lb[2]), 'any')
    G.emit('g_fr_tail', '(start end_ step e : Z)', b[2].test, 'b')
    G.emit('g_fr_last', '(start end_ step e : Z)', _yield_value(b[2].body[0]), 'any')
    G.check_skeleton()
    return G


@_nav
def gen_trim(p):
    G = _Gen(p, BINCOUNTS, 'trim_rangelist')
    loop = G.fn.body[0]
    assert isinstance(loop, ast.For)
    lb = loop.body
    assert isinstance(lb[0], ast.Assign) and ast.unparse(lb[0].targets[0]) == 'overlap'
    tests = [lb[0].value]
    k = 1
    while k < len(lb) and isinstance(lb[k], ast.If) and not lb[k].orelse and len(lb[k].body) == 1 \
            and ast.unparse(lb[k].body[0]) == 'overlap = True':
        tests.append(lb[k].test)
        k += 1
    G.emit_or('g_trim_keep', '(start end_ s e : Z)', tests)
    G.holes[id(lb[0].value)] = True
    del lb[1:k]                      # the `if t: overlap = True` statements are folded into g_trim_keep
    G.emit('g_trim_clip', '(start end_ s e : Z)', _yield_value(lb[2]), 'any')
    G.check_skeleton()
    return G


@_nav
def gen_rco(p):
    G = _Gen(p, BINCOUNTS, 'range_contains_overlap')
    b = G.fn.body
    G.emit('g_rco_short', '(n : Z)', b[1].test, 'b', env={'len(clist)': 'n'})
    G.emit('g_rco_ov', '(start end_ next_start next_end : Z)', b[2].body[0].test, 'b')
    G.check_skeleton()
    return G


@_nav
def gen_mpass(p):
    G = _Gen(p, BINCOUNTS, '_merge_overlapping_ranges')
    st = G.fn.body[1].body[1]
    assert isinstance(st, ast.If)
    G.emit('g_mp_ov', '(start end_ next_start next_end : Z)', st.test, 'b')
    G.emit('g_mp_merge', '(start end_ next_start next_end : Z)', _yield_value(st.body[0]), 'any')
    G.emit('g_mp_keep', '(start end_ next_start next_end : Z)', _yield_value(st.orelse[0]), 'any')
    G.check_skeleton()
    return G


@_nav
def gen_merge(p):
    G = _Gen(p, BINCOUNTS, 'merge_overlapping_ranges')
    G.check_skeleton()
    return G


@_nav
def gen_bb(p):
    G = _Gen(p, BINCOUNTS, 'blacklisted_binning')
    b = G.fn.body
    G.emit('g_bb_need_merge', '(n : Z)', b[0].orelse[0].test, 'b', env={'len(blacklist)': 'n'})
    G.emit('g_bb_cur0', '(start_coord end_coord : Z)', b[1].value, 'z')
    loop = b[2]
    ch = loop.iter.args[0]
    trim_call, lst = ch.args
    assert ast.unparse(trim_call.func) == 'trim_rangelist' and len(trim_call.args) == 3 and not trim_call.keywords
    G.emit('g_bb_trim_args', '(start_coord end_coord : Z)', None, None, nodes=trim_call.args[1:])
    assert isinstance(lst, ast.List) and len(lst.elts) == 1
    G.emit('g_bb_sentinel', '(start_coord end_coord : Z)', lst.elts[0], 'any')
    lb = loop.body
    ctx = '(start_coord end_coord bin_size start end_ current : Z)'
    G.emit('g_bb_skip', ctx, lb[0].test, 'b')
    G.emit('g_bb_cur_skip', ctx, lb[0].body[0].value, 'z')
    fr = lb[1].value.args[0].args[0]
    assert ast.unparse(fr.func) == 'fill_range' and len(fr.args) == 3 and not fr.keywords
    G.emit('g_bb_tb_args', ctx, None, None, nodes=fr.args)
    G.emit('g_bb_tb_neg', '(total_bins : Z)', lb[2].test, 'b')
    G.emit('g_bb_tb_zero', '(total_bins : Z)', lb[3].test, 'b')
    G.emit('g_bb_tb_one', '(total_bins : Z)', lb[3].body[0].value, 'z')
    ctx2 = '(start_coord end_coord bin_size start end_ current total_bins : Z)'
    G.emit('g_bb_lbs', ctx2, lb[4].value, 'z')
    G.emit('g_bb_gap_start', ctx2, lb[5].value, 'z')
    inner = lb[6]
    fr2 = inner.iter
    assert ast.unparse(fr2.func) == 'fill_range' and len(fr2.args) == 3 and not fr2.keywords
    G.emit('g_bb_fill_args', '(start_coord end_coord bin_size start end_ current total_bins local_bin_size : Z)', None, None,
           nodes=fr2.args)
    iff = inner.body[0]
    # `current` is excluded on purpose: it is reassigned inside this loop
    ctx3 = '(start_coord end_coord bin_size start end_ gap_start pos_s pos_e fragment_size : Z)'
    G.emit('g_bb_yield2', '(start_coord end_coord bin_size start end_ gap_start pos_s pos_e : Z)', _yield_value(iff.body[0]), 'any')
    G.emit('g_bb_fs', ctx3, iff.orelse[0].value, 'z')
    G.emit('g_bb_fe', ctx3, iff.orelse[1].value, 'z')
    G.emit('g_bb_yield4', '(pos_s pos_e fs fe : Z)', _yield_value(iff.orelse[2]), 'any')
    G.emit('g_bb_cur_after', '(start_coord end_coord start end_ : Z)', lb[7].value, 'z')
    G.check_skeleton()
    return G


@_nav
def gen_bp(p):
    G = _Gen(p, BINNING, 'bp_chunked')
    b = G.fn.body
    G.emit('g_bp_init', '(bp_per_job : Z)', b[0].value, 'z')
    lb = b[2].body
    assert isinstance(lb[1], ast.AugAssign) and isinstance(lb[1].op, ast.Add)
    G.emit('g_bp_inc', '(start end_ : Z)', lb[1].value, 'z')
    G.emit('g_bp_full', '(bp_current bp_per_job : Z)', lb[3].test, 'b')
    G.emit('g_bp_reset', '(bp_per_job : Z)', lb[3].body[1].value, 'z')
    G.check_skeleton()
    return G


def regen_tiling():
    p1 = os.path.join(fw.REPO, BINCOUNTS)
    p2 = os.path.join(fw.REPO, BINNING)
    chunks, meta = [], []
    for g, p in ((gen_fill_range, p1), (gen_trim, p1), (gen_rco, p1), (gen_mpass, p1), (gen_merge, p1), (gen_bb, p1),
                 (gen_bp, p2)):
        G = g(p)
        chunks += G.chunks
        meta += G.meta
        meta.append({'source': G.rel, 'coq': 'skeleton of %s' % G.name,
                     'sha256': hashlib.sha256(SKELETON[G.name].encode()).hexdigest()})
    py2coq.write_gen(GEN, '', chunks)
    return meta


# ============================================================================ specification in Python
# (independent transcription of Proofs/C17.v [spec] etc.; interval arithmetic, works for large coordinates)
def union(ivs):
    """maximal non-empty intervals of the point set of a list of intervals"""
    out = []
    for s, e in sorted((s, e) for s, e in ivs if s < e):
        if out and s <= out[-1][1]:
            out[-1][1] = max(out[-1][1], e)
        else:
            out.append([s, e])
    return out


def free_of(sc, ec, bl):
    """[sc,ec) minus the blacklisted points, as maximal intervals"""
    out, cur = [], sc
    for s, e in union([(max(s, sc), min(e, ec)) for s, e in bl]):
        if cur < s:
            out.append([cur, s])
        cur = max(cur, e)
    if cur < ec:
        out.append([cur, ec])
    return out


def pre_bb(c):
    _, sc, ec, bs, bl, fr = c
    return bs > 0 and sc <= ec and all(s <= e for s, e in bl) and (not fr or fr[0] >= 0)


def spec_bb(c, out):
    """None when the output satisfies [spec sc ec bs bl frag out], else (class, text)"""
    _, sc, ec, bs, bl, fr = c
    if not (isinstance(out, list) and len(out) == 2 and out[0] == 0):
        return ('exception', 'raised %r' % (out,))
    rows = out[1]
    lo = sc
    for r in rows:
        x, y = r[0], r[1]
        if not (lo <= x):
            return ('overlap', 'bin (%d,%d) starts before %d (overlap, disorder or outside the region)' % (x, y, lo))
        if not x < y:
            return ('empty', 'empty or reversed bin (%d,%d)' % (x, y))
        lo = y
    if not lo <= ec:
        return ('outside', 'last bin ends at %d beyond the region end %d' % (lo, ec))
    for r in rows:
        if r[1] - r[0] > bs:
            return ('size', 'bin (%d,%d) longer than bin_size %d' % (r[0], r[1], bs))
    free = free_of(sc, ec, bl)
    got = union([(r[0], r[1]) for r in rows])
    if got != free:
        return ('coverage', 'bins cover %r, region minus blacklist is %r' % (got, free))
    if not fr:
        for r in rows:
            if len(r) != 2:
                return ('window', 'fetch window reported without fragment_size: %r' % (r,))
        return None
    f = fr[0]
    for r in rows:
        if len(r) != 4:
            return ('window', 'no fetch window for bin %r' % (r,))
        x, y, fs, fe = r
        if not (fs <= x and y <= fe):
            return ('window', 'window (%d,%d) does not contain its bin (%d,%d)' % (fs, fe, x, y))
        if x - fs > f or fe - y > f:
            return ('window', 'window (%d,%d) extends bin (%d,%d) by more than fragment_size %d' % (fs, fe, x, y, f))
        if fs < sc or fe > ec:
            return ('window', 'window (%d,%d) of bin (%d,%d) leaves the region (%d,%d)' % (fs, fe, x, y, sc, ec))
        if not any(a <= fs and fe <= b for a, b in free):
            return ('window', 'window (%d,%d) of bin (%d,%d) reaches a blacklisted base; free intervals %r'
                    % (fs, fe, x, y, free))
    return None


def spec_fill(c, out):
    _, s, e, step = c
    if not (step > 0 and s <= e):
        return None
    if not (isinstance(out, list) and len(out) == 2 and out[0] == 0):
        return ('exception', 'raised %r' % (out,))
    a = s
    for x, y in out[1]:
        if x != a or not a < y or y - a > step or y > e:
            return ('chain', 'piece (%d,%d) after %d is not a non-empty piece of at most %d inside the range' % (x, y, a, step))
        a = y
    if a != e:
        return ('chain', 'pieces end at %d, not at %d' % (a, e))
    return None


def spec_merge(c, out):
    _, l = c
    if not all(s <= e for s, e in l):
        return None
    if not (isinstance(out, list) and len(out) == 2 and out[0] == 0):
        return ('exception', 'raised %r' % (out,))
    m = out[1]
    for i, (s, e) in enumerate(m):
        if s > e or (i and m[i - 1][1] > s):
            return ('disjoint', 'result %r is not increasing / disjoint' % (m,))
    if union(m) != union(l):
        return ('points', 'result covers %r, input covers %r' % (union(m), union(l)))
    return None


def spec_trim(c, out):
    _, l, sc, ec = c
    ok = sc <= ec and all(s <= e for s, e in l) and all(l[i][1] <= l[i + 1][0] for i in range(len(l) - 1))
    if not ok:
        return None
    if not isinstance(out, list) or (out and out[0] == 'error'):
        return ('exception', 'raised %r' % (out,))
    lo = sc
    for s, e in out:
        if not (lo <= s <= e):
            return ('dchain', 'result %r is not increasing / inside the region' % (out,))
        lo = e
    if lo > ec:
        return ('dchain', 'result %r leaves the region' % (out,))
    want = union([(max(s, sc), min(e, ec)) for s, e in l])
    if union(out) != want:
        return ('points', 'result covers %r, the listed bases inside the region are %r' % (union(out), want))
    return None


def spec_bp(c, out):
    _, jobs, k = c
    if not isinstance(out, list) or (out and out[0] == 'error'):
        return ('exception', 'raised %r' % (out,))
    flat = [j for ch in out for j in ch]
    if flat != list(range(len(jobs))):
        return ('concat', 'chunks %r do not concatenate to the job list of %d jobs' % (out, len(jobs)))
    # (the closing rule of a chunk - C17_bp_chunked_chunks - is a fact about the model only; the property asks
    #  that grouping loses / duplicates / reorders nothing, so only that is searched for on the implementation)
    return None


SPEC = {0: spec_fill, 1: spec_trim, 4: spec_merge, 5: spec_bb, 6: spec_bp}


def canon_helper(fn, out):
    """the helper functions are constrained through the bases they describe (theorems C17_trim_*, C17_merge_same_bases):
    zero-length ranges in the output of trim_rangelist, and whether touching ranges are joined by the merge functions,
    are representation; blacklisted_binning itself (fn 5) is compared exactly"""
    try:
        if fn == 1 and isinstance(out, list) and all(isinstance(r, list) and len(r) == 2 for r in out):
            return [r for r in out if r[0] < r[1]]
        if fn in (3, 4):
            rows = out[1] if fn == 4 else out
            if (fn == 3 or (isinstance(out, list) and len(out) == 2 and out[0] == 0)) and \
                    all(isinstance(r, list) and len(r) == 2 and isinstance(r[0], int) for r in rows):
                merged = []
                for a, b in sorted(r for r in rows if r[0] < r[1]):
                    if merged and a <= merged[-1][1]:
                        merged[-1][1] = max(merged[-1][1], b)
                    else:
                        merged.append([a, b])
                return merged if fn == 3 else [0, merged]
    except Exception:
        pass
    return out


def case_size(c):
    return len(json.dumps(c)) + sum(abs(x) for x in flatten(c))


def flatten(v):
    if isinstance(v, int):
        yield v
    else:
        for e in v:
            yield from flatten(e)


# ============================================================================ case streams
def intervals(lo, hi):
    return [(s, e) for s in range(lo, hi + 1) for e in range(s, hi + 1)]


def blacklists(lo, hi, maxn):
    ivs = intervals(lo, hi)
    n = 0
    for k in range(maxn + 1):
        for comb in itertools.combinations_with_replacement(ivs, k):
            n += 1
            yield [list(x) for x in (comb if n % 2 else comb[::-1])]   # unsorted half of the time


def bb_block(desc):
    """all blacklists of <= maxn intervals over lo..hi for one (sc, L, bs, frag)"""
    sc, L, bs, fr, lo, hi, maxn = desc
    return [[5, sc, sc + L, bs, bl, fr] for bl in blacklists(lo, hi, maxn)]


def bb_scopes(tier):
    """exhaustive small scopes: list of block descriptors"""
    blocks = []
    if tier == 'quick':
        for L in range(0, 7):
            for bs in range(1, 8):
                for fr in ([], [0], [1], [3]):
                    blocks.append((0, L, bs, fr, -1, 7, 2))
        for L in (3, 4):
            for bs in (1, 2, 3):
                for fr in ([], [2]):
                    blocks.append((1, L, bs, fr, 0, 5, 3))
    else:
        for L in range(0, 11):
            for bs in range(1, 13):
                for fr in ([], [0], [1], [2], [3], [6]):
                    blocks.append((0, L, bs, fr, -2, 12, 2))
        for L in range(0, 6):
            for bs in range(1, 5):
                for fr in ([], [1], [2]):
                    blocks.append((0, L, bs, fr, -1, 6, 3))
        for L in range(0, 15):
            for bs in range(1, 17):
                for fr in ([], [0], [1], [2], [3], [4], [5], [6]):
                    blocks.append((-1, L, bs, fr, -2, 15, 1))
    return blocks


def rand_iv(rng, lo, hi, wf=True):
    s = rng.randint(lo, hi)
    e = rng.choice([s, s + 1, rng.randint(s, hi + 3), rng.randint(s, s + max(1, (hi - lo) // 4))])
    if not wf and rng.random() < 0.5:
        s, e = e + rng.randint(0, 3), s
    return [s, e]


def bb_random(rng, n, big=False, outside_pre=False):
    out = []
    for _ in range(n):
        if big:
            unit = rng.choice([10 ** 3, 10 ** 6, 2 ** 30, 2 ** 38])
            sc = rng.choice([0, 0, unit, rng.randint(0, 4 * unit)])
            L = rng.randint(0, 60) * unit + rng.choice([0, 0, 1, unit - 1, rng.randint(0, unit)])
            bs = max(1, rng.choice([unit, unit + 1, unit - 1, 3 * unit + 7, L + 5, max(1, L // 7)]))
            fr = rng.choice([[], [0], [rng.randint(0, unit // 2)], [unit], [3 * unit + 1]])
        else:
            sc = rng.choice([0, 0, rng.randint(-5, 50)])
            L = rng.randint(11, 200)      # beyond the exhaustive scopes
            bs = rng.choice([1, 2, 3, rng.randint(1, 60), rng.randint(1, L + 10), L, L + 1, L - 1 or 1])
            fr = rng.choice([[], [0], [1], [rng.randint(0, 80)], [bs], [bs + 1], [2 * bs + 3]])
        ec = sc + L
        bl = []
        k = rng.choice([0, 1, 1, 2, 2, 3, 4, 6, 9])
        for _ in range(k):
            kind = rng.randint(0, 9)
            span = max(1, L // 3)
            if kind == 0:
                iv = [sc - rng.randint(0, span), sc + rng.randint(0, span)]            # touches / crosses the start
            elif kind == 1:
                iv = [ec - rng.randint(0, span), ec + rng.randint(0, span)]            # touches / crosses the end
            elif kind == 2 and bl:
                p = rng.choice(bl)
                iv = [p[1], p[1] + rng.randint(0, span)]                               # adjacent to another one
            elif kind == 3 and bl:
                p = rng.choice(bl)
                iv = [rng.randint(min(p), max(p)), max(p) + rng.randint(0, span)]      # overlapping another one
            elif kind == 4:
                iv = [sc - rng.randint(0, 3), ec + rng.randint(0, 3)]                  # covers the region
            elif kind == 5:
                x = rng.randint(sc - 2, ec + 2)
                iv = [x, x]                                                            # empty interval
            elif kind == 6:
                iv = rng.choice([[sc - span, sc], [ec, ec + span], [sc - 5, sc - 1], [ec + 1, ec + 9]])  # outside
            else:
                s = rng.randint(sc, ec)
                iv = [s, s + rng.randint(0, span)]
            bl.append(iv)
        if outside_pre:
            what = rng.randint(0, 4)
            if what == 0:
                bs = rng.choice([0, -1, -bs, -3])
            elif what == 1:
                ec = sc - rng.randint(1, 20)
            elif what == 2 and bl:
                i = rng.randrange(len(bl))
                bl[i] = [bl[i][1] + rng.randint(1, 5), bl[i][0]]
            elif what == 3:
                fr = [-rng.randint(1, 9)]
            else:
                bl.append([ec + 2, ec - rng.randint(0, L)])
        rng.shuffle(bl)
        out.append([5, sc, ec, bs, bl, fr])
    return out


def small_streams(tier, rng):
    """fill_range / trim / overlap / merge / bp_chunked cases"""
    quick = tier == 'quick'
    cases = []
    # fill_range: exhaustive incl. step <= 0 and start > end, then large
    for s in range(-3, 7):
        for e in range(-3, 15):
            for step in range(-6, 18):
                cases.append([0, s, e, step])
    for _ in range(300 if quick else 3000):
        s = rng.randint(-10 ** 6, 2 ** 40)
        step = rng.choice([1, 7, 1000, rng.randint(1, 10 ** 7), 2 ** 33])
        e = s + step * rng.randint(0, 40) + rng.choice([0, 0, 1, step - 1, rng.randint(0, step)])
        cases.append([0, s, e, rng.choice([step, step, -step, 0]) if rng.random() < 0.1 else step])
    # trim_rangelist: single intervals exhaustive (also malformed), pairs/triples random
    for sc, ec in ((0, 5), (2, 6), (3, 3), (1, 2)):
        for s in range(-2, 9):
            for e in range(-2, 9):
                cases.append([1, [[s, e]], sc, ec])
    for _ in range(1500 if quick else 15000):
        sc = rng.randint(-3, 10)
        ec = sc + rng.randint(0, 12)
        l, cur = [], sc - rng.randint(0, 6)
        for _ in range(rng.randint(0, 5)):
            s = cur + rng.choice([0, 0, 1, rng.randint(0, 5)])
            e = s + rng.choice([0, 1, rng.randint(0, 8), 30])
            l.append([s, e])
            cur = e
        if rng.random() < 0.15:
            rng.shuffle(l)
        if rng.random() < 0.1 and l:
            i = rng.randrange(len(l)); l[i] = [l[i][1] + 1, l[i][0]]
        cases.append([1, l, sc, ec])
    # overlap test / one merge pass / merge loop: exhaustive ordered lists of <= 3 intervals, then random
    ivs = intervals(0, 4 if quick else 5)
    for k in range(0, 4):
        for comb in itertools.product(ivs, repeat=k):
            l = [list(x) for x in comb]
            cases.append([2, l])
            cases.append([4, l])
            if k >= 2:
                cases.append([3, sorted(l)])
    for _ in range(1500 if quick else 20000):
        n = rng.randint(2, 12)
        hi = rng.choice([6, 15, 40, 10 ** 6])
        l = [rand_iv(rng, 0, hi, wf=rng.random() < 0.85) for _ in range(n)]
        cases.append([2, l])
        cases.append([4, l])
        cases.append([3, sorted(l) if rng.random() < 0.8 else l])
    # bp_chunked: exhaustive job-size lists, then random (also reversed jobs, k <= 0)
    sizes = (0, 1, 2, 3, 5)
    for n in range(0, 5 if quick else 6):
        for comb in itertools.product(sizes, repeat=n):
            jobs, cur = [], 0
            for z in comb:
                jobs.append([cur, cur + z]); cur += z
            for k in (-1, 0, 1, 2, 3, 5, 7):
                cases.append([6, jobs, k])
    for _ in range(500 if quick else 5000):
        jobs, cur = [], rng.randint(0, 1000)
        for _ in range(rng.randint(0, 30)):
            z = rng.choice([0, 1, rng.randint(0, 500), 10 ** 5])
            jobs.append([cur + z, cur] if rng.random() < 0.1 else [cur, cur + z]); cur += z
        cases.append([6, jobs, rng.choice([0, 1, 100, 1000, rng.randint(1, 10 ** 5), 10 ** 6])])
    return cases


def contig_cases(tier, rng):
    out = []
    for _ in range(12 if tier == 'quick' else 150):
        names = ['chr%s' % x for x in rng.sample(['1', '2', 'X', 'M', 'Un_1'], rng.randint(1, 4))]
        contigs = [[n, rng.choice([0, 1, 7, 30, 100, rng.randint(1, 300)])] for n in names]
        bed = None
        if rng.random() < 0.8:
            bed = []
            for _ in range(rng.randint(0, 8)):
                n, ln = rng.choice(contigs + [['chrOther', 50]])
                s = rng.randint(0, ln + 3)
                bed.append([n, s, s + rng.choice([0, 1, rng.randint(0, ln + 5)])])
        out.append({'contigs': contigs, 'bed': bed, 'gz': rng.random() < 0.3,
                    'bin_size': rng.choice([1, 3, 10, 25, 1000]),
                    'fragment_size': rng.choice([None, 0, 2, 15]),
                    'whitelist': rng.choice([None, None, names[:1], names[1:]])})
    return out


def history_cases(tier, rng):
    """histories of blacklisted_binning_contigs calls made in one process with contig_length_resource = BAM path:
    the BAM at a path is rewritten between calls (contig shortened / lengthened / added / removed / unchanged),
    the BED file at a path is rewritten or another BED / bin size / fragment size is used"""
    out = []
    for _ in range(10 if tier == 'quick' else 120):
        names = ['chr%s' % x for x in rng.sample(['1', '2', 'X', 'M'], rng.randint(1, 3))]
        contigs = [[n, rng.choice([1, 7, 30, 100, rng.randint(1, 300)])] for n in names]
        bed, steps = None, []
        for j in range(rng.randint(2, 5)):
            if j:
                what = rng.randint(0, 6)
                contigs = [list(c) for c in contigs]
                i = rng.randrange(len(contigs))
                if what == 0:
                    contigs[i][1] = max(1, contigs[i][1] - rng.randint(1, 40))      # shorter
                elif what == 1:
                    contigs[i][1] += rng.randint(1, 60)                              # longer
                elif what == 2:
                    contigs.append(['chrNew%d' % j, rng.randint(1, 120)])            # new contig
                elif what == 3 and len(contigs) > 1:
                    del contigs[i]                                                   # contig removed
                elif what == 4:
                    contigs = [[c, rng.randint(1, 200)] for c, _ in contigs]         # all lengths change
                # 5, 6: header unchanged
            if j == 0 or rng.random() < 0.5:
                bed = None
                if rng.random() < 0.85:
                    bed = []
                    for _ in range(rng.randint(0, 6)):
                        n, ln = rng.choice(contigs)
                        s = rng.randint(0, ln + 3)
                        bed.append([n, s, s + rng.choice([0, 1, rng.randint(0, ln + 5)])])
            steps.append({'contigs': [list(c) for c in contigs], 'bed': None if bed is None else [list(b) for b in bed],
                          'gz': rng.random() < 0.3, 'bam_slot': 0 if rng.random() < 0.8 else 1,
                          'bed_slot': 0 if rng.random() < 0.7 else 1,
                          'bin_size': rng.choice([1, 3, 10, 25, 1000]), 'fragment_size': rng.choice([None, 0, 2, 15]),
                          'whitelist': rng.choice([None, None, None, [contigs[0][0]]])})
        out.append(steps)
    return out


# ============================================================================ chunk worker (own process)
def nontrivial(c, out):
    fn = c[0]
    if fn == 5:
        if not pre_bb(c) or not (isinstance(out, list) and out and out[0] == 0):
            return False
        _, sc, ec, bs, bl, fr = c
        return len(out[1]) >= 2 and (bool(fr) or any(s < ec and e > sc and s < e for s, e in bl))
    if fn == 0:
        return c[3] > 0 and c[1] < c[2] and (c[2] - c[1]) % c[3] != 0
    if fn == 1:
        return any((s < c[2] < e) or (s < c[3] < e) for s, e in c[1])
    if fn in (2, 3, 4):
        l = sorted(c[1])
        return any(l[i][1] > l[i + 1][0] for i in range(len(l) - 1))
    if fn == 6:
        return isinstance(out, list) and len(out) >= 3
    return False


def features(c, out, h):
    _, sc, ec, bs, bl, fr = c
    L = ec - sc
    h['len_%s' % ('0' if L == 0 else '1-6' if L <= 6 else '7-14' if L <= 14 else '15-200' if L <= 200 else '>200')] += 1
    h['blacklist_n=%s' % (len(bl) if len(bl) < 4 else '4+')] += 1
    if bs > L:
        h['bin_size>region'] += 1
    if fr:
        h['with_fragment_size'] += 1
        if fr[0] > bs:
            h['fragment_size>bin_size'] += 1
    srt = sorted(bl)
    if any(srt[i][1] > srt[i + 1][0] for i in range(len(srt) - 1)):
        h['bl_overlapping'] += 1
    if any(srt[i][1] == srt[i + 1][0] for i in range(len(srt) - 1)):
        h['bl_adjacent'] += 1
    if any(s == e for s, e in bl):
        h['bl_empty_interval'] += 1
    if any(s <= sc < e or s == sc for s, e in bl):
        h['bl_touches_start'] += 1
    if any(s < ec <= e or e == ec for s, e in bl):
        h['bl_touches_end'] += 1
    if any(s <= sc and ec <= e and s < e for s, e in bl):
        h['bl_covers_region'] += 1
    if isinstance(out, list) and out and out[0] == 0:
        rows = out[1]
        if any(rows[i][1] == rows[i + 1][0] and rows[i][1] - rows[i][0] != rows[i + 1][1] - rows[i + 1][0]
               for i in range(len(rows) - 1)):
            h['remainder_bin'] += 1
        if fr and any(r[2] != r[0] - fr[0] or r[3] != r[1] + fr[0] for r in rows if len(r) == 4):
            h['window_clipped'] += 1


def work(args):
    """one chunk: build cases, run the implementation, the model, the Python spec; return a summary"""
    kind, desc, use_model, seed = args
    if kind == 'blocks':
        cases = [c for d in desc for c in bb_block(d)]
    else:
        cases = desc
    impl = fw.run_impl('impl_c17.py', {'cases': cases})['out']
    S = {'n': len(cases), 'dis': [], 'viol': {}, 'hist': Counter(), 'fn': Counter(), 'pre': 0, 'pre_n': 0,
         'nontrivial': 0, 'spec_evals': 0, 'errors': 0, 'keep': [], 'ndis': 0, 'nviol': 0}
    model = fw.run_model('C17', 0, cases, timeout=600) if use_model else None
    seen = set()
    rng = random.Random(seed)
    for i, c in enumerate(cases):
        o = impl[i]
        fn = c[0]
        S['fn'][FN[fn]] += 1
        if isinstance(o, list) and o and o[0] == 'error':
            S['errors'] += 1
        if o == ['missing']:
            continue
        if model is not None and canon_helper(fn, model[i]) != canon_helper(fn, o):
            S['ndis'] += 1
            S['dis'].append({'fn': FN[fn], 'input': c, 'model': model[i], 'impl': o})
            if len(S['dis']) > 40:
                S['dis'] = sorted(S['dis'], key=lambda d: case_size(d['input']))[:10]
        if fn == 5:
            S['pre_n'] += 1
            ok = pre_bb(c)
            S['pre'] += ok
            features(c, o, S['hist'])
        else:
            ok = True
        sp = SPEC.get(fn)
        if sp and ok:
            S['spec_evals'] += 1
            v = sp(c, o)
            if v:
                S['nviol'] += 1
                key = '%s:%s' % (FN[fn], v[0])
                sz = case_size(c)
                if key not in S['viol'] or sz < S['viol'][key][0]:
                    S['viol'][key] = (sz, {'key': key, 'what': '%s%r: %s' % (FN[fn], tuple(c[1:]), v[1]),
                                           'input': c, 'impl': o})
        if nontrivial(c, o):
            k = json.dumps(c)
            if k not in seen:
                seen.add(k)
                S['nontrivial'] += 1
        if i < 2 or rng.random() < 200.0 / len(cases):
            S['keep'].append((c, model[i] if model is not None else None, o))
    S['dis'] = sorted(S['dis'], key=lambda d: case_size(d['input']))[:10]
    return S


def perturb(rng, rows):
    rows = [list(r) for r in rows]
    if not rows:
        return [[0, 1]]
    i = rng.randrange(len(rows))
    k = rng.randint(0, 3)
    if k == 0:
        rows[i][rng.randrange(len(rows[i]))] += rng.choice([-1, 1])
    elif k == 1:
        del rows[i]
    elif k == 2:
        rows.insert(i, list(rows[i]))
    else:
        rows[i] = rows[i][:2] if len(rows[i]) == 4 else rows[i] + rows[i]
    return rows


class Prop(fw.PropBase):
    ID = 'C17'
    PROPS = 'Props/C17.v'
    TRUSTED = [
        'T: the comparisons, step/clip/merge expressions, call arguments, the sentinel and the bp threshold test of fill_range, '
        'trim_rangelist, range_contains_overlap, _merge_overlapping_ranges, blacklisted_binning and bp_chunked are regenerated from '
        'the source into coq/Gen/GenTiling.v on every run (tools/c17.py regen_tiling + py2coq.ExprTranslator) and the model uses them; '
        'the control flow around them in coq/Model/C17.v is a hand transcription, pinned by the translator\'s skeleton check '
        '(ast.unparse of each function with the translated expressions blanked must equal the recorded skeleton, else the tie is '
        'refused) and tied to the source by the correspondence check (exhaustive small scopes + random); trusted: the skeleton '
        'strings, the reading of the holes by Model.C17, py2coq; /repo contains fixes C17-D21 (D21+D22), C17-D23, C17-D31',
        'int((start - current) / total_bins) is modelled as Z.quot: assumes the float quotient of two integers below 2^53 '
        'truncates to the exact quotient (sampled up to 2^44); sorted() on tuples = insertion sort by (start, end)',
        'modelled not verified: reading the BED blacklist / contig lengths (get_bins_from_bed_dict, pysam header) in '
        'blacklisted_binning_contigs (exercised through a BED file and a contig list by the correspondence, not modelled in Coq); '
        'more_itertools.windowed; generator laziness (a ValueError after some bins were yielded is compared as the exception only)',
        'tools/c17.py spec_* (Python transcription of the theorem statement used by the search), cross-checked against the Coq '
        'specb (C17_specb_iff) on implementation outputs and on perturbed outputs',
    ]
    ASSUMPTIONS = ['bin_size > 0, region start <= end, every blacklist interval has start <= end, fragment_size >= 0 or None '
                   '(outside this precondition model and code are still compared, the theorem says nothing)']

    # ---------------------------------------------------------------- T
    def regen(self):
        try:
            return regen_tiling()
        except BaseException:
            # fail closed: never prove / run against definitions generated from another source
            for ext in ('.v', '.vo', '.vos', '.vok', '.glob'):
                try:
                    os.remove(GEN[:-2] + ext)
                except OSError:
                    pass
            raise

    # ---------------------------------------------------------------- K
    def plan(self):
        quick = self.tier == 'quick'
        rng = self.rng
        chunks = []
        corpus, self.corpus_contigs, self.corpus_histories = [], [], []
        for p in sorted(glob.glob(os.path.join(CORPUS, '*.json'))):
            d = json.load(open(p))
            corpus += d.get('cases', [])
            self.corpus_contigs += d.get('contigs', [])
            self.corpus_histories += d.get('histories', [])
        self.n_corpus = len(corpus) + len(self.corpus_contigs) + len(self.corpus_histories)
        rnd = bb_random(rng, 6000 if quick else 60000) + bb_random(rng, 1500 if quick else 15000, big=True) \
            + bb_random(rng, 1000 if quick else 8000, outside_pre=True)
        small = small_streams(self.tier, rng)
        chunks.append(('cases', corpus + small))
        step = 5000 if quick else 20000
        for i in range(0, len(rnd), step):
            chunks.append(('cases', rnd[i:i + step]))
        blocks = bb_scopes(self.tier)
        per = 36 if quick else 12
        for i in range(0, len(blocks), per):
            chunks.append(('blocks', blocks[i:i + per]))
        self.blocks = blocks
        return chunks

    def run_streams(self, use_model):
        chunks = self.plan()
        args = [(k, d, use_model, self.seed * 1000 + i) for i, (k, d) in enumerate(chunks)]
        with ProcessPoolExecutor(max_workers=WORKERS) as ex:
            res = list(ex.map(work, args))
        T = {'n': 0, 'dis': [], 'viol': {}, 'hist': Counter(), 'fn': Counter(), 'pre': 0, 'pre_n': 0, 'nontrivial': 0,
             'spec_evals': 0, 'errors': 0, 'keep': [], 'ndis': 0, 'nviol': 0}
        for S in res:
            for k in ('n', 'pre', 'pre_n', 'nontrivial', 'spec_evals', 'errors', 'ndis', 'nviol'):
                T[k] += S[k]
            T['hist'].update(S['hist']); T['fn'].update(S['fn'])
            T['dis'] += S['dis']; T['keep'] += S['keep']
            for key, (sz, w) in S['viol'].items():
                if key not in T['viol'] or sz < T['viol'][key][0]:
                    T['viol'][key] = (sz, w)
        T['dis'] = sorted(T['dis'], key=lambda d: case_size(d['input']))[:10]
        # blacklisted_binning_contigs through a BED file
        cont = self.corpus_contigs + contig_cases(self.tier, self.rng)
        hist = self.corpus_histories + history_cases(self.tier, self.rng)
        cres = fw.run_impl('impl_c17.py', {'contigs': cont, 'histories': hist})
        # every call of a history is one contig-level case, checked against the files as they were at that call
        flat, fres = [], []
        for hi, (h, hr) in enumerate(zip(hist, cres['histories'])):
            for j, (st, r) in enumerate(zip(h, hr)):
                st = dict(st)
                st['history'] = {'index': hi, 'call': j, 'earlier_calls_in_same_process': h[:j]}
                flat.append(st); fres.append(r)
        T['n_histories'], T['n_history_calls'] = len(hist), len(flat)
        T['contigs'] = (cont + flat, cres['contigs'] + fres)
        T['bp_same'] = cres.get('bp_chunked_same_object')
        return T

    def contig_expected(self, t, runner):
        """expected rows of blacklisted_binning_contigs from per-contig blacklisted_binning results"""
        ins, names = [], []
        for name, ln in t['contigs']:
            if t['whitelist'] is not None and name not in t['whitelist']:
                continue
            bl = sorted([s, e] for c, s, e in (t['bed'] or []) if c == name)
            ins.append([5, 0, ln, t['bin_size'], bl, [] if t['fragment_size'] is None else [t['fragment_size']]])
            names.append(name)
        outs = runner(ins)
        rows = []
        for name, o in zip(names, outs):
            if o[0] != 0:
                return ['error', 'model raises %r' % (o,)]
            rows += [[name] + list(r) for r in o[1]]
        return rows

    def correspondence(self):
        use_model = bool(self.model_ok)
        try:
            T = self.run_streams(use_model)
        except Exception as e:   # e.g. the implementation no longer imports: fail closed
            raise fw.Broken('correspondence', 'could not run the implementation / model on the case streams: %r' % (e,))
        self.T = T
        cont, cimpl = T['contigs']
        n_eval = T['n'] + len(cont)
        self.cov.update({
            'evaluations': n_eval,
            'distinct_nontrivial': T['nontrivial'],
            'rule': 'every function called directly on the real code and on the extracted model. blacklisted_binning: EXHAUSTIVE over '
                    'all blacklists (multisets, half of them given unsorted) of <= k well-formed intervals with end points in lo..hi, '
                    'for every (region length, bin size, fragment size) block listed in exhaustive_scopes; random medium (length 11..200) '
                    'and large (up to 2^44) regions with blacklists of up to 9 intervals built to touch/cross the region ends, be adjacent, '
                    'overlapping, empty, covering or outside; plus inputs outside the precondition. fill_range exhaustive for start -3..6, '
                    'end -3..14, step -6..17; merge/overlap exhaustive for ordered lists of <= 3 intervals; bp_chunked exhaustive for job-size '
                    'lists over {0,1,2,3,5}. non-trivial = blacklisted_binning: precondition holds, >= 2 bins, and (fragment size given or a '
                    'non-empty blacklist interval intersects the region); fill_range: remainder piece; trim: interval crossing a region end; '
                    'merge: an overlap exists; bp_chunked: >= 3 chunks. distinct = distinct input (exhaustive blocks are disjoint by '
                    'construction, random regions are longer than the exhaustive ones)',
            'per_function': dict(T['fn']),
            'exhaustive_scopes': self.scope_summary(),
            'exhaustive': False,
            'exhaustive_note': 'the small scopes listed in exhaustive_scopes are enumerated completely; the property domain itself is infinite '
                               '(covered by the Coq theorems)',
            'input_histogram_blacklisted_binning': dict(T['hist']),
            'precondition_hit_rate': round(T['pre'] / max(1, T['pre_n']), 4),
            'spec_evaluated_on_impl_outputs': T['spec_evals'],
            'spec_violations_on_impl_outputs': T['nviol'],
            'impl_unexpected_exceptions': T['errors'],
            'corpus_cases': self.n_corpus,
            'contig_level_cases': len(cont),
            'contig_level_histories': {'histories': T['n_histories'], 'calls': T['n_history_calls'],
                                       'what': 'blacklisted_binning_contigs(<BAM path>, ...) called repeatedly in one process '
                                               'while the BAM / BED at the same path is rewritten between calls'},
            'utils.bp_chunked is utils.binning.bp_chunked': T['bp_same'],
            'samples': [{'input': c, 'impl': o} for c, m, o in T['keep'][:: max(1, len(T['keep']) // 6)][:6]],
        })
        problems = []
        if T['nviol']:
            first = sorted(T['viol'].values(), key=lambda x: x[0])[0][1]
            problems.append(('specification', 'the implementation output violates the theorem statement on %d inputs; smallest: %s'
                             % (T['nviol'], first['what'])))
        if T['bp_same'] is False:
            problems.append(('correspondence', 'singlecellmultiomics.utils.bp_chunked is no longer utils.binning.bp_chunked'))
        if use_model:
            self.cov['traces_validated_against_impl'] = n_eval
            self.cov['disagreements'] = T['ndis']
            # contig level: expected rows from the model
            cdis = []
            for t, got in zip(cont, cimpl):
                exp = self.contig_expected(t, lambda ins: fw.run_model('C17', 0, ins) if ins else [])
                if got != exp:
                    cdis.append({'fn': 'blacklisted_binning_contigs', 'input': t, 'model': exp, 'impl': got})
            self.cdis = cdis
            # vm_compute cross-check of the extracted binary
            keep = T['keep']
            idx = sorted(self.rng.sample(range(len(keep)), min(100, len(keep))))
            ok, nm, log = fw.vm_crosscheck('C17', 0, [(keep[i][0], keep[i][1]) for i in idx])
            self.cov['vm_compute_crosscheck'] = {'cases': len(idx), 'mismatches': nm}
            if not ok:
                problems.append(('extraction', 'vm_compute and extracted model disagree: ' + log[-800:]))
            # the Python spec / pre used by the search agree with the Coq specb / pre (modes 2 and 1)
            sample = [(c, o) for c, m, o in keep if c[0] == 5 and isinstance(o, list) and o and o[0] == 0
                      and c[2] - c[1] <= 400 and pre_bb(c)]
            pert = [(c, [0, perturb(self.rng, o[1])]) for c, o in sample]
            both = sample + pert
            cb = fw.run_model('C17', 2, [[c, o[1]] for c, o in both]) if both else []
            bad = [(c, o, b) for (c, o), b in zip(both, cb) if (spec_bb(c, o) is None) != (b == 1)]
            pre_s = [c for c, m, o in keep if c[0] == 5]
            pb = fw.run_model('C17', 1, pre_s) if pre_s else []
            badp = [c for c, b in zip(pre_s, pb) if pre_bb(c) != (b == 1)]
            self.cov['python_spec_vs_coq_specb'] = {'cases': len(both), 'of_which_perturbed_outputs': len(pert),
                                                    'rejected_by_both': sum(1 for b in cb if b == 0),
                                                    'mismatches': len(bad), 'pre_cases': len(pre_s), 'pre_mismatches': len(badp)}
            if bad or badp:
                problems.append(('harness', 'Python spec/pre and Coq specb/pre disagree: %r' % ((bad or badp)[0],)))
            if T['ndis'] or cdis:
                d = (T['dis'] + cdis)[0]
                problems.insert(0, ('correspondence', 'model and implementation disagree on %d cases; smallest: %s'
                                    % (T['ndis'] + len(cdis), json.dumps(d)[:1500])))
        if problems:
            for k, d in problems[1:]:
                self.breaks.append((k, d))
            raise fw.Broken(problems[0][0], problems[0][1])

    def scope_summary(self):
        groups = Counter()
        for sc, L, bs, fr, lo, hi, maxn in self.blocks:
            groups[(sc, lo, hi, maxn)] += 1
        out = []
        for (sc, lo, hi, maxn), n in sorted(groups.items()):
            bl = [b for b in self.blocks if (b[0], b[4], b[5], b[6]) == (sc, lo, hi, maxn)]
            nbl = sum(1 for _ in blacklists(lo, hi, maxn))
            out.append({'region_start': sc, 'region_lengths': sorted(set(b[1] for b in bl)),
                        'bin_sizes': sorted(set(b[2] for b in bl)),
                        'fragment_sizes': sorted(set('None' if not b[3] else str(b[3][0]) for b in bl)),
                        'blacklists': 'all multisets of <= %d intervals (s <= e) with end points in %d..%d' % (maxn, lo, hi),
                        'blacklists_per_block': nbl, 'blocks': n, 'cases': n * nbl})
        return out

    # ---------------------------------------------------------------- search
    def search(self):
        """The theorem statement (Python transcription spec_* of Proofs/C17.v [spec], chain, merge_spec, trim_spec,
        bp_chunked_concat/chunks; not the Coq specb, so no model is needed) evaluated on the implementation's own
        outputs over the same streams and exhaustive small scopes; the smallest violating input per class is reported."""
        T = getattr(self, 'T', None)
        if T is None:
            try:
                T = self.run_streams(False)
            except Exception as e:
                self.notes.append('search could not run the implementation: %r' % (e,))
                return
        for key, (sz, w) in sorted(T['viol'].items(), key=lambda kv: kv[1][0]):
            w = dict(w)
            w['expected'] = 'spec of C17 (see Props/C17.v) - violated as described in "what"'
            self.witnesses.append(w)
        # contig level: every contig's rows must satisfy the spec for region (0, length)
        cont, cimpl = T['contigs']
        for t, got in zip(cont, cimpl):
            bad = self.contig_spec(t, got)
            if bad:
                self.witnesses.append({'key': 'blacklisted_binning_contigs:' + bad[0],
                                       'what': 'blacklisted_binning_contigs: ' + bad[1], 'input': t, 'impl': got})
                break

    def contig_spec(self, t, got):
        if got and got[0] == 'error':
            return ('exception', 'raised ' + got[1])
        want = [n for n, ln in t['contigs'] if t['whitelist'] is None or n in t['whitelist']]
        order = []
        for r in got:
            if r[0] not in order:
                order.append(r[0])
        for name, ln in t['contigs']:
            rows = [r[1:] for r in got if r[0] == name]
            if name not in want:
                if rows:
                    return ('whitelist', 'contig %s is not whitelisted but has bins' % name)
                continue
            bl = [[s, e] for c, s, e in (t['bed'] or []) if c == name]
            c = [5, 0, ln, t['bin_size'], bl, [] if t['fragment_size'] is None else [t['fragment_size']]]
            v = spec_bb(c, [0, rows])
            if v:
                return (v[0], 'contig %s (length %d): %s' % (name, ln, v[1]))
        if [n for n in want if n in order] != order:
            return ('order', 'contigs reported out of order / unknown contig: %r' % (order,))
        return None
