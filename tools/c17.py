"""C17 - blacklist-aware genome tiling is an exact partition with contained fetch windows.

EXTENSION (coq/Model/C17x.v, C17bed.v; section "extension" below, work_g): blacklisted_binning_contigs - the blacklist dictionary
read from a BED / BED.gz file, the loop over the contig list with the optional whitelist, with / without fragment size - the text
level of the BED file, and bp_chunked applied to the rows; K only.

T + K: the expressions the proofs hinge on are regenerated from the source (coq/Gen/GenTiling.v, see regen_tiling below) and
used by the model; the control flow of coq/Model/C17.v is a hand transcription (skeleton-pinned) of fill_range, trim_rangelist,
range_contains_overlap, _merge_overlapping_ranges, merge_overlapping_ranges, blacklisted_binning
(bamBinCounts.py) and bp_chunked (utils/binning.py); every function is run directly on the real code
(tools/impl_c17.py) and compared with the extracted model, exhaustively on small scopes and on random
medium/large inputs; the statement of the theorems (spec) is additionally evaluated on the implementation's
own output by an independent Python transcription (interval arithmetic), which is itself cross-checked
against the Coq boolean specb (proved equivalent to spec: C17_specb_iff)."""
import os, json, itertools, random, glob
from collections import Counter
from concurrent.futures import ProcessPoolExecutor
import fw

WORKERS = int(os.environ.get('VERIF_C17_WORKERS', '6'))
CORPUS = os.path.join(fw.VERIF, 'corpus', 'C17')
FN = {0: 'fill_range', 1: 'trim_rangelist', 2: 'range_contains_overlap', 3: '_merge_overlapping_ranges',
      4: 'merge_overlapping_ranges', 5: 'blacklisted_binning', 6: 'bp_chunked'}


# ============================================================================ T: translator tie
# Regenerates coq/Gen/GenTiling.v from the working tree of SCMO_REPO on every run: the expressions the proofs
# hinge on (comparisons, step / clip / merge expressions, the sentinel, call arguments) are translated by
# py2coq.ExprTranslator; everything else of the seven functions (control flow, statement order, names that are
# assigned) is pinned by a SKELETON = ast.unparse of the function with the translated expressions replaced by
# HOLE and the docstring removed.  Any other shape is refused (fail closed).  Model.C17 uses the generated
# definitions; Proofs.C17 connects them to the arithmetic facts by small shape lemmas (lia).
import ast, hashlib, py2coq
from py2coq import Untranslatable

BINCOUNTS = 'singlecellmultiomics/bamProcessing/bamBinCounts.py'
BINNING = 'singlecellmultiomics/utils/binning.py'
GEN = os.path.join(fw.COQ, 'Gen', 'GenTiling.v')

SKELETON = {
    'fill_range': """def fill_range(start, end, step):
    e = HOLE
    for s in range(HOLE):
        e = HOLE
        if HOLE:
            e = HOLE
            break
        yield HOLE
    if HOLE:
        yield HOLE""",
    'trim_rangelist': """def trim_rangelist(rangelist, start, end):
    for s, e in rangelist:
        overlap = HOLE
        if not overlap:
            continue
        yield HOLE""",
    'range_contains_overlap': """def range_contains_overlap(clist):
    clist = sorted(clist)
    if HOLE:
        return False
    for (start, end), (next_start, next_end) in windowed(clist, 2):
        if HOLE:
            return True
    return False""",
    '_merge_overlapping_ranges': """def _merge_overlapping_ranges(clist):
    merged = False
    for (start, end), (next_start, next_end) in windowed(clist, 2):
        if merged:
            merged = False
            continue
        if HOLE:
            yield HOLE
            merged = True
        else:
            yield HOLE
    if not merged:
        yield clist[-1]""",
    'merge_overlapping_ranges': """def merge_overlapping_ranges(clist):
    clist = sorted(clist)
    while range_contains_overlap(clist):
        clist = sorted(list(_merge_overlapping_ranges(clist)))
    return clist""",
    'blacklisted_binning': """def blacklisted_binning(start_coord: int, end_coord: int, bin_size: int, blacklist: list=None, fragment_size: int=None):
    if blacklist is None:
        blacklist = []
    elif HOLE:
        blacklist = merge_overlapping_ranges(blacklist)
    current = HOLE
    for i, (start, end) in enumerate(chain(trim_rangelist(blacklist, HOLE), [HOLE])):
        if HOLE:
            current = HOLE
            continue
        total_bins = len(list(fill_range(HOLE)))
        if HOLE:
            continue
        if HOLE:
            total_bins = HOLE
        local_bin_size = HOLE
        gap_start = HOLE
        for pos_s, pos_e in fill_range(HOLE):
            if fragment_size is None:
                yield HOLE
            else:
                fs = HOLE
                fe = HOLE
                yield HOLE
            current = pos_e
        current = HOLE""",
    'bp_chunked': """def bp_chunked(job_generator, bp_per_job):
    bp_current = HOLE
    current_tasks = []
    for job in job_generator:
        start, end = (job[1], job[2])
        bp_current += HOLE
        current_tasks.append(job)
        if HOLE:
            yield current_tasks
            bp_current = HOLE
            current_tasks = []
    yield current_tasks""",
}


class _Gen:
    """collects holes of one function: translates them and blanks them in the tree"""
    def __init__(self, path, rel, name):
        self.src = open(path).read()
        self.rel, self.name = rel, name
        self.fn = py2coq.find_function(ast.parse(self.src), name)
        if not isinstance(self.fn, ast.FunctionDef):
            raise Untranslatable('%s is not a function' % name)
        b = self.fn.body
        if b and isinstance(b[0], ast.Expr) and isinstance(b[0].value, ast.Constant) and isinstance(b[0].value.value, str):
            self.fn.body = b[1:]
        self.holes = {}
        self.chunks, self.meta = [], []

    def emit(self, coqname, params, node, kind, env=None, nodes=None):
        """kind: 'z' | 'b' | 'any' (tuple) ; nodes: several expressions emitted as one tuple (call arguments)"""
        tr = py2coq.ExprTranslator(env=env or {})
        if nodes is not None:
            body = '(%s)' % ', '.join(tr.z(n) for n in nodes)
            seg = ', '.join(ast.get_source_segment(self.src, n) for n in nodes)
            first, last = nodes[0], nodes[-1]
            for n in nodes:
                self.holes[id(n)] = True
        else:
            body = {'z': tr.z, 'b': tr.b, 'any': tr.any}[kind](node)
            seg = ast.get_source_segment(self.src, node)
            first = last = node
            self.holes[id(node)] = True
        sha = hashlib.sha256(seg.encode()).hexdigest()
        self.chunks.append('(* source: %s line %d-%d sha256 %s\n   %s *)\nDefinition %s %s :=\n  %s.' % (
            self.rel, first.lineno, last.end_lineno, sha, ' '.join(seg.split()).replace('*)', '* )'), coqname, params, body))
        self.meta.append({'source': self.rel, 'lines': [first.lineno, last.end_lineno], 'sha256': sha, 'coq': coqname})

    def emit_or(self, coqname, params, tests):
        """disjunction of an initial boolean and the tests of `if t: overlap = True` statements"""
        tr = py2coq.ExprTranslator()
        body = '(' + ' || '.join(tr.b(n) for n in tests) + ')'
        seg = ' || '.join(ast.get_source_segment(self.src, n) for n in tests)
        sha = hashlib.sha256(seg.encode()).hexdigest()
        self.chunks.append('(* source: %s line %d-%d sha256 %s\n   %s *)\nDefinition %s %s :=\n  %s.' % (
            self.rel, tests[0].lineno, tests[-1].end_lineno, sha, ' '.join(seg.split()), coqname, params, body))
        self.meta.append({'source': self.rel, 'lines': [tests[0].lineno, tests[-1].end_lineno], 'sha256': sha, 'coq': coqname})

    def check_skeleton(self):
        holes = self.holes

        class H(ast.NodeTransformer):
            def generic_visit(s, node):
                for field, old in ast.iter_fields(node):
                    if isinstance(old, list):
                        new, prev_hole = [], False
                        for v in old:
                            if isinstance(v, ast.AST):
                                if id(v) in holes:
                                    if not prev_hole:      # adjacent holes (call arguments) collapse into one
                                        new.append(ast.Name(id='HOLE', ctx=ast.Load()))
                                    prev_hole = True
                                    continue
                                prev_hole = False
                                v = s.visit(v)
                            new.append(v)
                        old[:] = new
                    elif isinstance(old, ast.AST):
                        if id(old) in holes:
                            setattr(node, field, ast.Name(id='HOLE', ctx=ast.Load()))
                        else:
                            setattr(node, field, s.visit(old))
                return node
        H().visit(self.fn)
        got = ast.unparse(ast.fix_missing_locations(self.fn))
        if got != SKELETON[self.name]:
            import difflib
            d = '\n'.join(l for l in difflib.unified_diff(SKELETON[self.name].splitlines(), got.splitlines(), lineterm='', n=0)
                          if not l.startswith(('---', '+++', '@@')))
            raise Untranslatable('%s: control-flow skeleton changed (not a shape the translator knows):\n%s' % (self.name, d))


def _nav(f):
    def g(*a):
        try:
            return f(*a)
        except Untranslatable:
            raise
        except (AssertionError, IndexError, AttributeError, KeyError, TypeError, ValueError) as e:
            raise Untranslatable('%s: the statement layout of the function differs from the shape the translator knows '
                                 '(%s: %s)' % (f.__name__, type(e).__name__, e))
    return g


def _yield_value(st):
    assert isinstance(st, ast.Expr) and isinstance(st.value, ast.Yield) and st.value.value is not None
    return st.value.value


@_nav
def gen_fill_range(p):
    G = _Gen(p, BINCOUNTS, 'fill_range')
    b = G.fn.body
    assert isinstance(b[0], ast.Assign) and isinstance(b[1], ast.For) and isinstance(b[2], ast.If)
    G.emit('g_fr_init', '(start end_ step : Z)', b[0].value, 'z')
    rng = b[1].iter
    assert isinstance(rng, ast.Call) and rng.func.id == 'range' and len(rng.args) == 3 and not rng.keywords
    G.emit('g_fr_range', '(start end_ step : Z)', None, None, nodes=rng.args)
    lb = b[1].body
    G.emit('g_fr_e', '(start end_ step s e : Z)', lb[0].value, 'z')
    G.emit('g_fr_over', '(start end_ step s e : Z)', lb[1].test, 'b')
    G.emit('g_fr_back', '(start end_ step s e : Z)', lb[1].body[0].value, 'z')
    G.emit('g_fr_yield', '(start end_ step s e : Z)', _yield_value(lb[2]), 'any')
    G.emit('g_fr_tail', '(start end_ step e : Z)', b[2].test, 'b')
    G.emit('g_fr_last', '(start end_ step e : Z)', _yield_value(b[2].body[0]), 'any')
    G.check_skeleton()
    return G


@_nav
def gen_trim(p):
    G = _Gen(p, BINCOUNTS, 'trim_rangelist')
    loop = G.fn.body[0]
    assert isinstance(loop, ast.For)
    lb = loop.body
    assert isinstance(lb[0], ast.Assign) and ast.unparse(lb[0].targets[0]) == 'overlap'
    tests = [lb[0].value]
    k = 1
    while k < len(lb) and isinstance(lb[k], ast.If) and not lb[k].orelse and len(lb[k].body) == 1 \
            and ast.unparse(lb[k].body[0]) == 'overlap = True':
        tests.append(lb[k].test)
        k += 1
    G.emit_or('g_trim_keep', '(start end_ s e : Z)', tests)
    G.holes[id(lb[0].value)] = True
    del lb[1:k]                      # the `if t: overlap = True` statements are folded into g_trim_keep
    G.emit('g_trim_clip', '(start end_ s e : Z)', _yield_value(lb[2]), 'any')
    G.check_skeleton()
    return G


@_nav
def gen_rco(p):
    G = _Gen(p, BINCOUNTS, 'range_contains_overlap')
    b = G.fn.body
    G.emit('g_rco_short', '(n : Z)', b[1].test, 'b', env={'len(clist)': 'n'})
    G.emit('g_rco_ov', '(start end_ next_start next_end : Z)', b[2].body[0].test, 'b')
    G.check_skeleton()
    return G


@_nav
def gen_mpass(p):
    G = _Gen(p, BINCOUNTS, '_merge_overlapping_ranges')
    st = G.fn.body[1].body[1]
    assert isinstance(st, ast.If)
    G.emit('g_mp_ov', '(start end_ next_start next_end : Z)', st.test, 'b')
    G.emit('g_mp_merge', '(start end_ next_start next_end : Z)', _yield_value(st.body[0]), 'any')
    G.emit('g_mp_keep', '(start end_ next_start next_end : Z)', _yield_value(st.orelse[0]), 'any')
    G.check_skeleton()
    return G


@_nav
def gen_merge(p):
    G = _Gen(p, BINCOUNTS, 'merge_overlapping_ranges')
    G.check_skeleton()
    return G


@_nav
def gen_bb(p):
    G = _Gen(p, BINCOUNTS, 'blacklisted_binning')
    b = G.fn.body
    G.emit('g_bb_need_merge', '(n : Z)', b[0].orelse[0].test, 'b', env={'len(blacklist)': 'n'})
    G.emit('g_bb_cur0', '(start_coord end_coord : Z)', b[1].value, 'z')
    loop = b[2]
    ch = loop.iter.args[0]
    trim_call, lst = ch.args
    assert ast.unparse(trim_call.func) == 'trim_rangelist' and len(trim_call.args) == 3 and not trim_call.keywords
    G.emit('g_bb_trim_args', '(start_coord end_coord : Z)', None, None, nodes=trim_call.args[1:])
    assert isinstance(lst, ast.List) and len(lst.elts) == 1
    G.emit('g_bb_sentinel', '(start_coord end_coord : Z)', lst.elts[0], 'any')
    lb = loop.body
    ctx = '(start_coord end_coord bin_size start end_ current : Z)'
    G.emit('g_bb_skip', ctx, lb[0].test, 'b')
    G.emit('g_bb_cur_skip', ctx, lb[0].body[0].value, 'z')
    fr = lb[1].value.args[0].args[0]
    assert ast.unparse(fr.func) == 'fill_range' and len(fr.args) == 3 and not fr.keywords
    G.emit('g_bb_tb_args', ctx, None, None, nodes=fr.args)
    G.emit('g_bb_tb_neg', '(total_bins : Z)', lb[2].test, 'b')
    G.emit('g_bb_tb_zero', '(total_bins : Z)', lb[3].test, 'b')
    G.emit('g_bb_tb_one', '(total_bins : Z)', lb[3].body[0].value, 'z')
    ctx2 = '(start_coord end_coord bin_size start end_ current total_bins : Z)'
    G.emit('g_bb_lbs', ctx2, lb[4].value, 'z')
    G.emit('g_bb_gap_start', ctx2, lb[5].value, 'z')
    inner = lb[6]
    fr2 = inner.iter
    assert ast.unparse(fr2.func) == 'fill_range' and len(fr2.args) == 3 and not fr2.keywords
    G.emit('g_bb_fill_args', '(start_coord end_coord bin_size start end_ current total_bins local_bin_size : Z)', None, None,
           nodes=fr2.args)
    iff = inner.body[0]
    # `current` is excluded on purpose: it is reassigned inside this loop
    ctx3 = '(start_coord end_coord bin_size start end_ gap_start pos_s pos_e fragment_size : Z)'
    G.emit('g_bb_yield2', '(start_coord end_coord bin_size start end_ gap_start pos_s pos_e : Z)', _yield_value(iff.body[0]), 'any')
    G.emit('g_bb_fs', ctx3, iff.orelse[0].value, 'z')
    G.emit('g_bb_fe', ctx3, iff.orelse[1].value, 'z')
    G.emit('g_bb_yield4', '(pos_s pos_e fs fe : Z)', _yield_value(iff.orelse[2]), 'any')
    G.emit('g_bb_cur_after', '(start_coord end_coord start end_ : Z)', lb[7].value, 'z')
    G.check_skeleton()
    return G


@_nav
def gen_bp(p):
    G = _Gen(p, BINNING, 'bp_chunked')
    b = G.fn.body
    G.emit('g_bp_init', '(bp_per_job : Z)', b[0].value, 'z')
    lb = b[2].body
    assert isinstance(lb[1], ast.AugAssign) and isinstance(lb[1].op, ast.Add)
    G.emit('g_bp_inc', '(start end_ : Z)', lb[1].value, 'z')
    G.emit('g_bp_full', '(bp_current bp_per_job : Z)', lb[3].test, 'b')
    G.emit('g_bp_reset', '(bp_per_job : Z)', lb[3].body[1].value, 'z')
    G.check_skeleton()
    return G


def regen_tiling():
    p1 = os.path.join(fw.REPO, BINCOUNTS)
    p2 = os.path.join(fw.REPO, BINNING)
    chunks, meta = [], []
    for g, p in ((gen_fill_range, p1), (gen_trim, p1), (gen_rco, p1), (gen_mpass, p1), (gen_merge, p1), (gen_bb, p1),
                 (gen_bp, p2)):
        G = g(p)
        chunks += G.chunks
        meta += G.meta
        meta.append({'source': G.rel, 'coq': 'skeleton of %s' % G.name,
                     'sha256': hashlib.sha256(SKELETON[G.name].encode()).hexdigest()})
    py2coq.write_gen(GEN, '', chunks)
    return meta


# ============================================================================ specification in Python
# (independent transcription of Proofs/C17.v [spec] etc.; interval arithmetic, works for large coordinates)
def union(ivs):
    """maximal non-empty intervals of the point set of a list of intervals"""
    out = []
    for s, e in sorted((s, e) for s, e in ivs if s < e):
        if out and s <= out[-1][1]:
            out[-1][1] = max(out[-1][1], e)
        else:
            out.append([s, e])
    return out


def free_of(sc, ec, bl):
    """[sc,ec) minus the blacklisted points, as maximal intervals"""
    out, cur = [], sc
    for s, e in union([(max(s, sc), min(e, ec)) for s, e in bl]):
        if cur < s:
            out.append([cur, s])
        cur = max(cur, e)
    if cur < ec:
        out.append([cur, ec])
    return out


def pre_bb(c):
    _, sc, ec, bs, bl, fr = c
    return bs > 0 and sc <= ec and all(s <= e for s, e in bl) and (not fr or fr[0] >= 0)


def spec_bb(c, out):
    """None when the output satisfies [spec sc ec bs bl frag out], else (class, text)"""
    _, sc, ec, bs, bl, fr = c
    if not (isinstance(out, list) and len(out) == 2 and out[0] == 0):
        return ('exception', 'raised %r' % (out,))
    rows = out[1]
    lo = sc
    for r in rows:
        x, y = r[0], r[1]
        if not (lo <= x):
            return ('overlap', 'bin (%d,%d) starts before %d (overlap, disorder or outside the region)' % (x, y, lo))
        if not x < y:
            return ('empty', 'empty or reversed bin (%d,%d)' % (x, y))
        lo = y
    if not lo <= ec:
        return ('outside', 'last bin ends at %d beyond the region end %d' % (lo, ec))
    for r in rows:
        if r[1] - r[0] > bs:
            return ('size', 'bin (%d,%d) longer than bin_size %d' % (r[0], r[1], bs))
    free = free_of(sc, ec, bl)
    got = union([(r[0], r[1]) for r in rows])
    if got != free:
        return ('coverage', 'bins cover %r, region minus blacklist is %r' % (got, free))
    if not fr:
        for r in rows:
            if len(r) != 2:
                return ('window', 'fetch window reported without fragment_size: %r' % (r,))
        return None
    f = fr[0]
    for r in rows:
        if len(r) != 4:
            return ('window', 'no fetch window for bin %r' % (r,))
        x, y, fs, fe = r
        if not (fs <= x and y <= fe):
            return ('window', 'window (%d,%d) does not contain its bin (%d,%d)' % (fs, fe, x, y))
        if x - fs > f or fe - y > f:
            return ('window', 'window (%d,%d) extends bin (%d,%d) by more than fragment_size %d' % (fs, fe, x, y, f))
        if fs < sc or fe > ec:
            return ('window', 'window (%d,%d) of bin (%d,%d) leaves the region (%d,%d)' % (fs, fe, x, y, sc, ec))
        if not any(a <= fs and fe <= b for a, b in free):
            return ('window', 'window (%d,%d) of bin (%d,%d) reaches a blacklisted base; free intervals %r'
                    % (fs, fe, x, y, free))
    return None


def spec_fill(c, out):
    _, s, e, step = c
    if not (step > 0 and s <= e):
        return None
    if not (isinstance(out, list) and len(out) == 2 and out[0] == 0):
        return ('exception', 'raised %r' % (out,))
    a = s
    for x, y in out[1]:
        if x != a or not a < y or y - a > step or y > e:
            return ('chain', 'piece (%d,%d) after %d is not a non-empty piece of at most %d inside the range' % (x, y, a, step))
        a = y
    if a != e:
        return ('chain', 'pieces end at %d, not at %d' % (a, e))
    return None


def spec_merge(c, out):
    _, l = c
    if not all(s <= e for s, e in l):
        return None
    if not (isinstance(out, list) and len(out) == 2 and out[0] == 0):
        return ('exception', 'raised %r' % (out,))
    m = out[1]
    for i, (s, e) in enumerate(m):
        if s > e or (i and m[i - 1][1] > s):
            return ('disjoint', 'result %r is not increasing / disjoint' % (m,))
    if union(m) != union(l):
        return ('points', 'result covers %r, input covers %r' % (union(m), union(l)))
    return None


def spec_trim(c, out):
    _, l, sc, ec = c
    ok = sc <= ec and all(s <= e for s, e in l) and all(l[i][1] <= l[i + 1][0] for i in range(len(l) - 1))
    if not ok:
        return None
    if not isinstance(out, list) or (out and out[0] == 'error'):
        return ('exception', 'raised %r' % (out,))
    lo = sc
    for s, e in out:
        if not (lo <= s <= e):
            return ('dchain', 'result %r is not increasing / inside the region' % (out,))
        lo = e
    if lo > ec:
        return ('dchain', 'result %r leaves the region' % (out,))
    want = union([(max(s, sc), min(e, ec)) for s, e in l])
    if union(out) != want:
        return ('points', 'result covers %r, the listed bases inside the region are %r' % (union(out), want))
    return None


def spec_bp(c, out):
    _, jobs, k = c
    if not isinstance(out, list) or (out and out[0] == 'error'):
        return ('exception', 'raised %r' % (out,))
    flat = [j for ch in out for j in ch]
    if flat != list(range(len(jobs))):
        return ('concat', 'chunks %r do not concatenate to the job list of %d jobs' % (out, len(jobs)))
    # (the closing rule of a chunk - C17_bp_chunked_chunks - is a fact about the model only; the property asks
    #  that grouping loses / duplicates / reorders nothing, so only that is searched for on the implementation)
    return None


SPEC = {0: spec_fill, 1: spec_trim, 4: spec_merge, 5: spec_bb, 6: spec_bp}


def in_domain(fn, c):
    """the hypotheses of the statements (the same tests the spec_* functions start with)"""
    try:
        if fn == 0:
            return c[3] > 0 and c[1] <= c[2]
        if fn == 1:
            l, sc, ec = c[1], c[2], c[3]
            return sc <= ec and all(s <= e for s, e in l) and all(l[i][1] <= l[i + 1][0] for i in range(len(l) - 1))
        if fn in (2, 3, 4):
            return all(s <= e for s, e in c[1])
        if fn == 5:
            return pre_bb(c)
    except Exception:
        return False
    return True


def canon_helper(fn, out):
    """the helper functions are constrained through the bases they describe (theorems C17_trim_*, C17_merge_same_bases):
    zero-length ranges in the output of trim_rangelist, and whether touching ranges are joined by the merge functions,
    are representation; blacklisted_binning itself (fn 5) is compared exactly"""
    try:
        if fn == 1 and isinstance(out, list) and all(isinstance(r, list) and len(r) == 2 for r in out):
            return [r for r in out if r[0] < r[1]]
        if fn in (3, 4):
            rows = out[1] if fn == 4 else out
            if (fn == 3 or (isinstance(out, list) and len(out) == 2 and out[0] == 0)) and \
                    all(isinstance(r, list) and len(r) == 2 and isinstance(r[0], int) for r in rows):
                merged = []
                for a, b in sorted(r for r in rows if r[0] < r[1]):
                    if merged and a <= merged[-1][1]:
                        merged[-1][1] = max(merged[-1][1], b)
                    else:
                        merged.append([a, b])
                return merged if fn == 3 else [0, merged]
    except Exception:
        pass
    return out


def case_size(c):
    return len(json.dumps(c)) + sum(abs(x) for x in flatten(c))


def flatten(v):
    if isinstance(v, int):
        yield v
    else:
        for e in v:
            yield from flatten(e)


# ============================================================================ case streams
def intervals(lo, hi):
    return [(s, e) for s in range(lo, hi + 1) for e in range(s, hi + 1)]


def blacklists(lo, hi, maxn):
    ivs = intervals(lo, hi)
    n = 0
    for k in range(maxn + 1):
        for comb in itertools.combinations_with_replacement(ivs, k):
            n += 1
            yield [list(x) for x in (comb if n % 2 else comb[::-1])]   # unsorted half of the time


def bb_block(desc):
    """all blacklists of <= maxn intervals over lo..hi for one (sc, L, bs, frag)"""
    sc, L, bs, fr, lo, hi, maxn = desc
    return [[5, sc, sc + L, bs, bl, fr] for bl in blacklists(lo, hi, maxn)]


def bb_scopes(tier):
    """exhaustive small scopes: list of block descriptors"""
    blocks = []
    if tier == 'quick':
        for L in range(0, 7):
            for bs in range(1, 8):
                for fr in ([], [0], [1], [3]):
                    blocks.append((0, L, bs, fr, -1, 7, 2))
        for L in (3, 4):
            for bs in (1, 2, 3):
                for fr in ([], [2]):
                    blocks.append((1, L, bs, fr, 0, 5, 3))
    else:
        for L in range(0, 11):
            for bs in range(1, 13):
                for fr in ([], [0], [1], [2], [3], [6]):
                    blocks.append((0, L, bs, fr, -2, 12, 2))
        for L in range(0, 6):
            for bs in range(1, 5):
                for fr in ([], [1], [2]):
                    blocks.append((0, L, bs, fr, -1, 6, 3))
        for L in range(0, 15):
            for bs in range(1, 17):
                for fr in ([], [0], [1], [2], [3], [4], [5], [6]):
                    blocks.append((-1, L, bs, fr, -2, 15, 1))
    return blocks


def rand_iv(rng, lo, hi, wf=True):
    s = rng.randint(lo, hi)
    e = rng.choice([s, s + 1, rng.randint(s, hi + 3), rng.randint(s, s + max(1, (hi - lo) // 4))])
    if not wf and rng.random() < 0.5:
        s, e = e + rng.randint(0, 3), s
    return [s, e]


def bb_random(rng, n, big=False, outside_pre=False):
    out = []
    for _ in range(n):
        if big:
            unit = rng.choice([10 ** 3, 10 ** 6, 2 ** 30, 2 ** 38])
            sc = rng.choice([0, 0, unit, rng.randint(0, 4 * unit)])
            L = rng.randint(0, 60) * unit + rng.choice([0, 0, 1, unit - 1, rng.randint(0, unit)])
            bs = max(1, rng.choice([unit, unit + 1, unit - 1, 3 * unit + 7, L + 5, max(1, L // 7)]))
            fr = rng.choice([[], [0], [rng.randint(0, unit // 2)], [unit], [3 * unit + 1]])
        else:
            sc = rng.choice([0, 0, rng.randint(-5, 50)])
            L = rng.randint(11, 200)      # beyond the exhaustive scopes
            bs = rng.choice([1, 2, 3, rng.randint(1, 60), rng.randint(1, L + 10), L, L + 1, L - 1 or 1])
            fr = rng.choice([[], [0], [1], [rng.randint(0, 80)], [bs], [bs + 1], [2 * bs + 3]])
        ec = sc + L
        bl = []
        k = rng.choice([0, 1, 1, 2, 2, 3, 4, 6, 9])
        for _ in range(k):
            kind = rng.randint(0, 9)
            span = max(1, L // 3)
            if kind == 0:
                iv = [sc - rng.randint(0, span), sc + rng.randint(0, span)]            # touches / crosses the start
            elif kind == 1:
                iv = [ec - rng.randint(0, span), ec + rng.randint(0, span)]            # touches / crosses the end
            elif kind == 2 and bl:
                p = rng.choice(bl)
                iv = [p[1], p[1] + rng.randint(0, span)]                               # adjacent to another one
            elif kind == 3 and bl:
                p = rng.choice(bl)
                iv = [rng.randint(min(p), max(p)), max(p) + rng.randint(0, span)]      # overlapping another one
            elif kind == 4:
                iv = [sc - rng.randint(0, 3), ec + rng.randint(0, 3)]                  # covers the region
            elif kind == 5:
                x = rng.randint(sc - 2, ec + 2)
                iv = [x, x]                                                            # empty interval
            elif kind == 6:
                iv = rng.choice([[sc - span, sc], [ec, ec + span], [sc - 5, sc - 1], [ec + 1, ec + 9]])  # outside
            else:
                s = rng.randint(sc, ec)
                iv = [s, s + rng.randint(0, span)]
            bl.append(iv)
        if outside_pre:
            what = rng.randint(0, 4)
            if what == 0:
                bs = rng.choice([0, -1, -bs, -3])
            elif what == 1:
                ec = sc - rng.randint(1, 20)
            elif what == 2 and bl:
                i = rng.randrange(len(bl))
                bl[i] = [bl[i][1] + rng.randint(1, 5), bl[i][0]]
            elif what == 3:
                fr = [-rng.randint(1, 9)]
            else:
                bl.append([ec + 2, ec - rng.randint(0, L)])
        rng.shuffle(bl)
        out.append([5, sc, ec, bs, bl, fr])
    return out


def small_streams(tier, rng):
    """fill_range / trim / overlap / merge / bp_chunked cases"""
    quick = tier == 'quick'
    cases = []
    # fill_range: exhaustive incl. step <= 0 and start > end, then large
    for s in range(-3, 7):
        for e in range(-3, 15):
            for step in range(-6, 18):
                cases.append([0, s, e, step])
    for _ in range(300 if quick else 3000):
        s = rng.randint(-10 ** 6, 2 ** 40)
        step = rng.choice([1, 7, 1000, rng.randint(1, 10 ** 7), 2 ** 33])
        e = s + step * rng.randint(0, 40) + rng.choice([0, 0, 1, step - 1, rng.randint(0, step)])
        cases.append([0, s, e, rng.choice([step, step, -step, 0]) if rng.random() < 0.1 else step])
    # trim_rangelist: single intervals exhaustive (also malformed), pairs/triples random
    for sc, ec in ((0, 5), (2, 6), (3, 3), (1, 2)):
        for s in range(-2, 9):
            for e in range(-2, 9):
                cases.append([1, [[s, e]], sc, ec])
    for _ in range(1500 if quick else 15000):
        sc = rng.randint(-3, 10)
        ec = sc + rng.randint(0, 12)
        l, cur = [], sc - rng.randint(0, 6)
        for _ in range(rng.randint(0, 5)):
            s = cur + rng.choice([0, 0, 1, rng.randint(0, 5)])
            e = s + rng.choice([0, 1, rng.randint(0, 8), 30])
            l.append([s, e])
            cur = e
        if rng.random() < 0.15:
            rng.shuffle(l)
        if rng.random() < 0.1 and l:
            i = rng.randrange(len(l)); l[i] = [l[i][1] + 1, l[i][0]]
        cases.append([1, l, sc, ec])
    # overlap test / one merge pass / merge loop: exhaustive ordered lists of <= 3 intervals, then random
    ivs = intervals(0, 4 if quick else 5)
    for k in range(0, 4):
        for comb in itertools.product(ivs, repeat=k):
            l = [list(x) for x in comb]
            cases.append([2, l])
            cases.append([4, l])
            if k >= 2:
                cases.append([3, sorted(l)])
    for _ in range(1500 if quick else 20000):
        n = rng.randint(2, 12)
        hi = rng.choice([6, 15, 40, 10 ** 6])
        l = [rand_iv(rng, 0, hi, wf=rng.random() < 0.85) for _ in range(n)]
        cases.append([2, l])
        cases.append([4, l])
        cases.append([3, sorted(l) if rng.random() < 0.8 else l])
    # bp_chunked: exhaustive job-size lists, then random (also reversed jobs, k <= 0)
    sizes = (0, 1, 2, 3, 5)
    for n in range(0, 5 if quick else 6):
        for comb in itertools.product(sizes, repeat=n):
            jobs, cur = [], 0
            for z in comb:
                jobs.append([cur, cur + z]); cur += z
            for k in (-1, 0, 1, 2, 3, 5, 7):
                cases.append([6, jobs, k])
    for _ in range(500 if quick else 5000):
        jobs, cur = [], rng.randint(0, 1000)
        for _ in range(rng.randint(0, 30)):
            z = rng.choice([0, 1, rng.randint(0, 500), 10 ** 5])
            jobs.append([cur + z, cur] if rng.random() < 0.1 else [cur, cur + z]); cur += z
        cases.append([6, jobs, rng.choice([0, 1, 100, 1000, rng.randint(1, 10 ** 5), 10 ** 6])])
    return cases


def contig_cases(tier, rng):
    out = []
    for _ in range(12 if tier == 'quick' else 150):
        names = ['chr%s' % x for x in rng.sample(['1', '2', 'X', 'M', 'Un_1'], rng.randint(1, 4))]
        contigs = [[n, rng.choice([0, 1, 7, 30, 100, rng.randint(1, 300)])] for n in names]
        bed = None
        if rng.random() < 0.8:
            bed = []
            for _ in range(rng.randint(0, 8)):
                n, ln = rng.choice(contigs + [['chrOther', 50]])
                s = rng.randint(0, ln + 3)
                bed.append([n, s, s + rng.choice([0, 1, rng.randint(0, ln + 5)])])
        out.append({'contigs': contigs, 'bed': bed, 'gz': rng.random() < 0.3,
                    'bin_size': rng.choice([1, 3, 10, 25, 1000]),
                    'fragment_size': rng.choice([None, 0, 2, 15]),
                    'whitelist': rng.choice([None, None, names[:1], names[1:]])})
    return out


def history_cases(tier, rng):
    """histories of blacklisted_binning_contigs calls made in one process with contig_length_resource = BAM path:
    the BAM at a path is rewritten between calls (contig shortened / lengthened / added / removed / unchanged),
    the BED file at a path is rewritten or another BED / bin size / fragment size is used"""
    out = []
    for _ in range(10 if tier == 'quick' else 120):
        names = ['chr%s' % x for x in rng.sample(['1', '2', 'X', 'M'], rng.randint(1, 3))]
        contigs = [[n, rng.choice([1, 7, 30, 100, rng.randint(1, 300)])] for n in names]
        bed, steps = None, []
        for j in range(rng.randint(2, 5)):
            if j:
                what = rng.randint(0, 6)
                contigs = [list(c) for c in contigs]
                i = rng.randrange(len(contigs))
                if what == 0:
                    contigs[i][1] = max(1, contigs[i][1] - rng.randint(1, 40))      # shorter
                elif what == 1:
                    contigs[i][1] += rng.randint(1, 60)                              # longer
                elif what == 2:
                    contigs.append(['chrNew%d' % j, rng.randint(1, 120)])            # new contig
                elif what == 3 and len(contigs) > 1:
                    del contigs[i]                                                   # contig removed
                elif what == 4:
                    contigs = [[c, rng.randint(1, 200)] for c, _ in contigs]         # all lengths change
                # 5, 6: header unchanged
            if j == 0 or rng.random() < 0.5:
                bed = None
                if rng.random() < 0.85:
                    bed = []
                    for _ in range(rng.randint(0, 6)):
                        n, ln = rng.choice(contigs)
                        s = rng.randint(0, ln + 3)
                        bed.append([n, s, s + rng.choice([0, 1, rng.randint(0, ln + 5)])])
            steps.append({'contigs': [list(c) for c in contigs], 'bed': None if bed is None else [list(b) for b in bed],
                          'gz': rng.random() < 0.3, 'bam_slot': 0 if rng.random() < 0.8 else 1,
                          'bed_slot': 0 if rng.random() < 0.7 else 1,
                          'bin_size': rng.choice([1, 3, 10, 25, 1000]), 'fragment_size': rng.choice([None, 0, 2, 15]),
                          'whitelist': rng.choice([None, None, None, [contigs[0][0]]])})
        out.append(steps)
    return out



# ============================================================================ extension: contig level, BED text, bp on rows
# (Model.C17x / Model.C17bed: fn 7 blacklisted_binning_contigs on records, 8 the records of a BED text, 9 bp_chunked on the
#  rows, 10 blacklisted_binning_contigs from the BED text, 11 print_bed)
import re
NAME_POOL = ['chr1', 'chr10', 'chr1_random', 'chr2', 'chrX', 'chrM', 'chrUn_1', '1', 'MT', 'HLA-A*01:01']
PY_SPACE = [9, 10, 11, 12, 13, 28, 29, 30, 31, 32, 133, 160, 5760] + list(range(8192, 8203)) + [8232, 8233, 8239, 8287, 12288]
INT_RE = re.compile(r'[+-]?[0-9]+(_[0-9]+)*\Z')


def gmodel_input(t, fn=7):
    """model input of a contig-level case (see coq/Model/C17x.v run_fnx)"""
    wl = [] if t['whitelist'] is None else [list(t['whitelist'])]
    fr = [] if t['fragment_size'] is None else [t['fragment_size']]
    if fn == 10:
        return [10, [list(x) for x in t['contigs']], wl, [] if t.get('text') is None else [t['text']], t['bin_size'], fr]
    bed = [] if t['bed'] is None else [[list(r) for r in t['bed']]]
    c = [fn, [list(x) for x in t['contigs']], wl, bed, t['bin_size'], fr]
    if fn == 9:
        c.append(t['bp'])
    return c


def canon_rows(rows):
    """rows of the implementation in the model's encoding (names as code lists); a refusal is [1]"""
    if isinstance(rows, list) and rows[:1] == [1]:
        return [1]
    if isinstance(rows, list) and rows[:1] == ['error']:
        return rows
    return [0, [[fw.to_val(r[0])] + list(r[1:]) for r in rows]]


def canon_model_rows(o):
    return [1] if o[0] == 1 else [0, o[1]]


def gpre_py(t):
    """hypothesis of C17_contigs_tiling (cross-checked against the Coq gpre, mode 1)"""
    sel = [(n, ln) for n, ln in t['contigs'] if t['whitelist'] is None or n in t['whitelist']]
    names = set(n for n, _ in sel)
    return t['bin_size'] > 0 and all(ln >= 0 for _, ln in sel) and \
        all(s <= e for c, s, e in (t['bed'] or []) if c in names) and \
        (t['fragment_size'] is None or t['fragment_size'] >= 0)


def nodup_py(t):
    sel = [n for n, ln in t['contigs'] if t['whitelist'] is None or n in t['whitelist']]
    return len(set(sel)) == len(sel)


def rand_bed(rng, contigs, extra_names):
    bed = []
    for _ in range(rng.choice([0, 1, 1, 2, 3, 4, 6, 10])):
        if contigs and rng.random() < 0.75:
            n, ln = rng.choice(contigs)
        else:
            n, ln = rng.choice(extra_names), rng.choice([0, 50, 10 ** 6])
        kind = rng.randint(0, 9)
        q = max(1, ln // 3)
        if kind == 0:
            r = [0, rng.randint(0, q)]                                   # touches the contig start
        elif kind == 1:
            r = [ln - rng.randint(0, min(ln, q)), ln]                    # touches the contig end
        elif kind == 2:
            r = [max(0, ln - rng.randint(0, q)), ln + rng.randint(1, 9)]  # crosses the contig end
        elif kind == 3:
            r = [0, ln + rng.choice([0, 1, 5])]                          # covers the contig
        elif kind == 4:
            x = rng.randint(0, ln + 2)
            r = [x, x]                                                   # empty
        elif kind == 5:
            r = [ln + rng.randint(0, 3), ln + rng.randint(3, 40)]        # beyond the end
        elif kind == 6 and bed:
            c0, s0, e0 = rng.choice(bed)
            n = c0 if rng.random() < 0.7 else n                          # same interval on the same / another contig
            r = [s0, e0] if rng.random() < 0.4 else [e0, e0 + rng.randint(0, q)] if rng.random() < 0.5 else \
                [rng.randint(min(s0, e0), max(s0, e0)), max(s0, e0) + rng.randint(0, q)]
        else:
            s0 = rng.randint(0, max(0, ln))
            r = [s0, s0 + rng.choice([1, rng.randint(0, q), rng.randint(0, ln + 5)])]
        bed.append([n] + r)
    return bed


def gcases_random(tier, rng):
    out = []
    for k in range(500 if tier == 'quick' else 4000):
        names = rng.sample(NAME_POOL, rng.randint(1, 5))
        big = rng.random() < 0.12
        contigs = [[n, rng.choice([2 ** 31 - 1, 10 ** 6, rng.randint(10 ** 5, 10 ** 8)]) if big else
                    rng.choice([0, 1, 2, 7, 30, 100, rng.randint(1, 300)])] for n in names]
        how = rng.choice(['list', 'list', 'items', 'bam'])
        if how == 'bam':
            contigs = [[n, max(1, ln)] for n, ln in contigs]
        elif rng.random() < 0.04:
            contigs.append(list(rng.choice(contigs)))                    # a repeated contig name (list only)
            contigs[-1][1] = rng.choice([contigs[-1][1], 5])
            how = 'list'
        others = [n for n in NAME_POOL if n not in names] + ['chrOther']
        bed = None if rng.random() < 0.12 else rand_bed(rng, contigs, others)
        mx = max(ln for _, ln in contigs)
        bs = rng.choice([max(1, mx // rng.randint(2, 40)), mx + 1]) if big else \
            rng.choice([1, 3, 10, 25, 1000, max(1, mx), mx + 1, rng.randint(1, 60)])
        fr = rng.choice([None, None, 0, 2, 15, bs, bs + 1])
        w = rng.random()
        wl = None if w < 0.4 else [] if w < 0.45 else rng.sample(names, rng.randint(1, len(names))) if w < 0.75 else \
            rng.sample(names + others[:3], rng.randint(1, 3))
        t = {'contigs': contigs, 'contigs_as': how, 'bed': bed, 'gz': rng.random() < 0.3, 'bin_size': bs, 'fragment_size': fr,
             'whitelist': wl, 'whitelist_as': rng.choice(['list', 'set', 'tuple']),
             'bp': rng.choice([None, None, 1, bs, 3 * bs + 1, 0, -1, 1000, rng.randint(1, 4 * bs)])}
        if rng.random() < 0.06:                                          # outside the precondition
            what = rng.randint(0, 2)
            if what == 0:
                # (not -1 on a 2^31 contig: the model's fill_range fuel is |end - start| / |step| as a unary nat)
                t['bin_size'] = rng.choice([0, -bs] if big else [0, -1, -bs])
            elif what == 1 and how != 'bam':
                t['contigs'][0][1] = -rng.randint(1, 9)
            elif bed:
                i = rng.randrange(len(bed))
                bed[i] = [bed[i][0], bed[i][2] + rng.randint(1, 5), bed[i][1]]
        out.append(t)
    return out


def gcases_scope(tier):
    """exhaustive small scope: two contigs a, b; every ordered list of <= 2 BED records over the contigs a, b, c with end
    points 0..3 (start <= end); whitelists None / [a] / [b, c]; with and without fragment size"""
    ivs = intervals(0, 3)
    recs = [[n, s, e] for n in 'abc' for s, e in ivs]
    beds = [[]] + [[r] for r in recs] + [[r1, r2] for r1 in recs for r2 in recs]
    if tier == 'quick':
        shapes = [([['a', 3], ['b', 2]], 2), ([['a', 0], ['b', 3]], 2)]
        wls = [None, ['a'], ['b', 'c']]
        frs = [None, 1]
    else:
        shapes = [([['a', la], ['b', lb]], bs) for la in (0, 1, 3) for lb in (2, 3) for bs in (1, 2, 3)]
        wls = [None, ['a'], ['b', 'c'], [], ['c']]
        frs = [None, 0, 1]
    out = []
    for contigs, bs in shapes:
        for bed in beds:
            for wl in wls:
                for fr in frs:
                    out.append({'contigs': contigs, 'bed': bed, 'gz': False, 'bin_size': bs, 'fragment_size': fr, 'whitelist': wl,
                                'bp': None})
    return out, {'contigs': [s[0] for s in shapes], 'bin_sizes': sorted(set(s[1] for s in shapes)),
                 'bed': 'every ordered list of <= 2 records (contig in a, b, c; 0 <= start <= end <= 3): %d lists' % len(beds),
                 'whitelists': [repr(w) for w in wls], 'fragment_sizes': [repr(f) for f in frs], 'cases': len(out)}


def int_literal_ok(tok):
    return bool(INT_RE.match(tok)) and sum(ch.isdigit() for ch in tok) <= 4300


def text_wellformed(text):
    """every line of the text has >= 3 whitespace separated columns and columns 2, 3 are ASCII int() literals (decided
    here independently of the model); lines as text-mode file iteration gives them"""
    lines = text.replace('\r\n', '\n').replace('\r', '\n').split('\n')
    if lines and lines[-1] == '':
        lines.pop()
    for l in lines:
        tk = l.split()
        if len(tk) < 3 or not int_literal_ok(tk[1]) or not int_literal_ok(tk[2]):
            return False
    return True


def rand_number(rng, good, nonascii=False, value=None):
    if good:
        v = value if value is not None else \
            rng.choice([0, 1, 7, 10, 99, 100, rng.randint(0, 300), rng.randint(0, 10 ** 9), 2 ** 31 - 1, 2 ** 63, 10 ** 25])
        s = str(v)
        k = rng.randint(0, 9)
        if k == 0:
            s = '+' + s
        elif k == 1 and (value is None or v == 0):
            s = '-' + s
        elif k == 2:
            s = '00' + s
        elif k == 3 and len(s) > 1:
            i = rng.randint(1, len(s) - 1)
            s = s[:i] + '_' + s[i:]
        elif k == 4 and value is None:
            s = '-0'
        return s
    return rng.choice(['', 'x', '1x', '1.0', '1e3', '0x10', '_1', '1_', '1__0', '+', '-', '+-1', '--1', '1-', 'NA', '.', '1,000',
                       '1\x00'] + (['\u0663', '\uff11\uff12'] if nonascii else []))


def rand_text(rng, nonascii, path=False):
    """a BED text: mostly well-formed lines with varied separators / line ends / extra columns; sometimes a malformed line.
    path: the text is fed to blacklisted_binning_contigs, so the coordinates are small and start <= end (an ill-formed record
    with a huge coordinate makes blacklisted_binning enumerate an astronomically long range - outside every hypothesis)"""
    seps = ['\t', '\t', ' ', '  ', '\t ', '\x0b', '\x0c', '\x1c', '\x1f'] + \
        (['\x85', '\xa0', '\u2003', '\u3000', '\u2028'] if nonascii else [])
    eols = ['\n', '\n', '\n', '\r\n', '\r']
    lines = []
    bad = rng.random() < 0.3
    n = rng.choice([0, 1, 2, 3, 5])
    for i in range(n):
        name = rng.choice(NAME_POOL + ['a', 'chr\xe9' if nonascii else 'chrE', '#chr1', 'track', '0'])
        if path:
            s0 = rng.randint(0, 120)
            cols = [name, rand_number(rng, True, value=s0), rand_number(rng, True, value=s0 + rng.choice([0, 1, rng.randint(0, 200)]))]
        else:
            cols = [name, rand_number(rng, True), rand_number(rng, True)]
        if bad and rng.random() < 0.5:
            k = rng.randint(0, 5)
            if k == 0:
                cols = cols[:rng.randint(0, 2)]                          # too few columns / blank line
            elif k == 1:
                cols[rng.choice([1, 2])] = rand_number(rng, False, nonascii)
            elif k == 2:
                cols = ['#', 'comment']
            elif k == 3:
                cols = ['track', 'name=blacklist', 'description="x y"']
            elif k == 4:
                cols = ['browser', 'position', 'chr1:1-100']
            else:
                cols[2 if path else rng.choice([1, 2])] = rng.choice(['9' * 40, '0' * 50 + '7', '1_0' * 20]) if rng.random() < 0.85 else \
                    '1' * rng.choice([4300, 4301]) if rng.random() < 0.5 else '0' * 4295 + '123456'   # int()'s digit limit (few: slow in the model)
        if rng.random() < 0.3:
            cols += rng.choice([['x'], ['name', '0', '+'], ['1', '2', '3', '4 5'], ['.']])
        line = rng.choice(['', '', '', ' ', '\t']) + ''.join(c + rng.choice(seps) for c in cols[:-1]) + (cols[-1] if cols else '') \
            + rng.choice(['', '', ' ', '\t'])
        lines.append(line + (rng.choice(eols) if i < n - 1 or rng.random() < 0.8 else ''))
    if bad and rng.random() < 0.2:
        lines.insert(rng.randint(0, len(lines)), rng.choice(['\n', '\r\n', ' \n', '\r']))   # blank line
    return ''.join(lines)


def texts_scope(tier):
    """every text of <= n characters over a small alphabet (letters, digits, sign, underscore, blank, tab, both line ends)"""
    alpha, n = ('a1 \n\r-_', 4) if tier == 'quick' else ('a1 \t\n\r-_+', 5)
    out = ['']
    for k in range(1, n + 1):
        out += [''.join(p) for p in itertools.product(alpha, repeat=k)]
    # the same with a well-formed first line in front (so that later lines are reached)
    out += ['a 1 2\n' + x for x in out if len(x) <= n - 1]
    # int()'s limit of 4300 digits (leading zeros count, underscores and the sign do not)
    fixed = ['a\t1\t' + '1' * 4300 + '\n', 'a\t1\t' + '1' * 4301 + '\n', 'a\t' + '0' * 4295 + '123456\t7\n',
             'a\t-' + '9' * 4300 + '\t+' + '1_' * 4299 + '1\n', 'a\t-' + '9' * 4301 + '\t1\n']
    if tier == 'quick':
        fixed = fixed[:3]
    out += fixed
    return out, {'alphabet': alpha, 'max_length': n, 'texts': len(out),
                 'plus': '%d fixed texts at the 4300-digit limit of int()' % len(fixed)}


def unbig(v):
    """[sign, limbs base 2^30 least significant first] -> int (see Model.C17x.ofBig)"""
    return v[0] * sum(l << (30 * i) for i, l in enumerate(v[1]))


def canon_parse_model(o):
    """model output of fn 8 -> {contig: ...} canonical form (see canon_parse)"""
    if o[0] == 1:
        return [1]
    d = {}
    for name, s, e in o[1]:
        d.setdefault(fw.as_str(name), []).append((unbig(s), unbig(e)))
    return canon_parse(d)


def canon_parse_impl(o):
    if isinstance(o, list) and (o[:1] == [1] or o[:1] == ['error'] or o == ['missing']):
        return o
    return canon_parse({c: [(int(s), int(e)) for s, e in l] for c, l in o})


def canon_parse(d):
    """what blacklisted_binning_contigs can observe of the parsed file: per contig the blacklisted bases (maximal intervals of
    the records with start < end); ill-formed records (start > end, outside every hypothesis) are kept as a sorted list"""
    out = []
    for c in sorted(d):
        u = [tuple(x) for x in union(d[c])]
        ill = sorted((s, e) for s, e in d[c] if s > e)
        if u or ill:
            out.append([c, u, ill])
    return [0, out]


def perturb_rows(rng, rows):
    rows = [list(r) for r in rows]
    if not rows:
        return [[[97], 0, 1]]
    i = rng.randrange(len(rows))
    k = rng.randint(0, 4)
    if k == 0:
        rows[i][rng.randrange(1, len(rows[i]))] += rng.choice([-1, 1])
    elif k == 1:
        del rows[i]
    elif k == 2:
        rows.insert(i, list(rows[i]))
    elif k == 3:
        rows[i][0] = rows[i][0] + [95]
    else:
        rows.append(rows.pop(0))
    return rows


def work_g(args):
    """the contig-level / BED-text chunk (own process): implementation, model, specification; returns a summary"""
    tier, seed, use_model, corpus_g, skip_scopes = args
    rng = random.Random(seed)
    S = {'dis': [], 'ndis': 0, 'viol': {}, 'nviol': 0, 'hist': Counter(), 'keep': [], 'notes': [], 'n': 0, 'spec_evals': 0,
         'nontrivial': 0, 'errors': 0}
    scope, scope_desc = gcases_scope(tier)
    if skip_scopes:
        scope, scope_desc = [], 'exhaustive scopes were run in the first pass'
    gc = list(corpus_g) + gcases_random(tier, rng) + scope
    # the whole path from a BED text (well-formed or not), and the records of a text
    tscope, tscope_desc = texts_scope(tier)
    if skip_scopes:
        tscope, tscope_desc = [], 'exhaustive scopes were run in the first pass'
    nonascii = True      # non-ASCII cases are dropped below when the implementation's text encoding is not UTF-8
    texts = [{'text': x, 'gz': False} for x in tscope]
    for i in range(800 if tier == 'quick' else 6000):
        texts.append({'text': rand_text(rng, nonascii), 'gz': rng.random() < 0.4})
    # round trip (theorem C17_bed_round_trip): records printed with the format string of the harness
    rt = []
    for i in range(150 if tier == 'quick' else 2000):
        recs = []
        for _ in range(rng.randint(0, 6)):
            s0 = rng.choice([0, 1, rng.randint(0, 10 ** 6), rng.randint(-50, 50), 2 ** 62, -10 ** 30])
            recs.append([rng.choice(NAME_POOL), s0, rng.choice([s0, s0 + 1, s0 + rng.randint(0, 10 ** 4), rng.randint(-5, 500)])])
        rt.append(recs)
    for recs in rt:
        texts.append({'text': ''.join('%s\t%d\t%d\n' % tuple(r) for r in recs), 'gz': rng.random() < 0.3, 'records': recs})
    tcases = []
    for i in range(120 if tier == 'quick' else 800):
        names = rng.sample(NAME_POOL, rng.randint(1, 3))
        contigs = [[n, rng.choice([1, 7, 30, 100, rng.randint(1, 300)])] for n in names]
        tcases.append({'contigs': contigs, 'bed': None, 'text': rand_text(rng, nonascii, path=True), 'gz': rng.random() < 0.4,
                       'bin_size': rng.choice([1, 3, 10, 25]), 'fragment_size': rng.choice([None, 2]), 'whitelist': None, 'bp': None})
    # outside-precondition cases last: whatever they leave behind in the process cannot reach the other cases
    gc.sort(key=lambda t: not gpre_py(t))
    try:
        res = fw.run_impl('impl_c17.py', {'gcases': gc + tcases, 'texts': texts, 'budget': 90 if tier == 'quick' else 900},
                          timeout=600 if tier == 'quick' else 3000)
    except Exception as e:
        S['fatal'] = 'the implementation could not be run on the contig-level / BED-text stream: %r' % (e,)
        S['scope'], S['counts'] = {}, {'contig_level_cases': len(gc)}
        return S
    gi, ti = res['gcases'], res['texts']
    S['n'] = len(gc) + len(tcases) + len(texts)
    nskip = sum(1 for o in gi if o['rows'] == ['skipped']) + sum(1 for o in ti if o == ['skipped'])
    if nskip:
        S['fatal'] = 'the implementation used up the time budget of the contig-level / BED-text stream (a normal run takes ' \
                     'seconds): %d of %d cases were not evaluated' % (nskip, S['n'])
    skip_na = res.get('text_encoding') != 'utf8'

    def non_ascii(x):
        # int() also reads non-ASCII decimal digits, Model.C17bed.parse_int does not (stated in the trusted base)
        if any(ord(ch) > 127 and ch.isdigit() for ch in x):
            S['hist']['text_with_non_ascii_digit_not_compared'] += 1
            return True
        return skip_na and any(ord(ch) > 127 for ch in x)

    def disagree(fn, inp, m, o):
        S['ndis'] += 1
        if len(S['dis']) < 40:
            S['dis'].append({'fn': fn, 'input': inp, 'model': m, 'impl': o})

    def violation(key, what, inp, o):
        S['nviol'] += 1
        sz = len(json.dumps(inp))
        if key not in S['viol'] or sz < S['viol'][key][0]:
            S['viol'][key] = (sz, {'key': key, 'what': what, 'input': inp, 'impl': o,
                                   'note': 'the cases of this stream are run one after the other in ONE process (tools/impl_c17.py '
                                           'run_gcase / run_text); if the input alone does not reproduce the failure, state left behind '
                                           'by earlier calls is involved'})

    # ---- contig level
    if use_model:
        m7 = fw.run_model('C17', 0, [gmodel_input(t) for t in gc])
        bpc = [i for i, t in enumerate(gc) if t.get('bp') is not None]
        m9 = dict(zip(bpc, fw.run_model('C17', 0, [gmodel_input(gc[i], 9) for i in bpc]))) if bpc else {}
        pre = fw.run_model('C17', 1, [gmodel_input(t) for t in gc])
        nd = fw.run_model('C17', 3, [gmodel_input(t) for t in gc])
    P = Prop.__new__(Prop)
    for i, t in enumerate(gc):
        o = gi[i]
        if o['rows'] == ['skipped']:
            continue
        rows = canon_rows(o['rows'])
        if rows[:1] == ['error']:
            S['errors'] += 1
        ok_pre = gpre_py(t)
        S['hist']['precondition_holds'] += ok_pre
        S['hist']['contigs_as_%s' % t.get('contigs_as', 'list')] += 1
        S['hist']['whitelist_%s' % ('None' if t['whitelist'] is None else 'given')] += 1
        S['hist']['bed_%s' % ('None' if t['bed'] is None else 'gz' if t.get('gz') else 'plain')] += 1
        sel = set(n for n, ln in t['contigs'] if t['whitelist'] is None or n in t['whitelist'])
        other = [r for r in (t['bed'] or []) if r[0] not in sel]
        rel = [r for r in (t['bed'] or []) if r[0] in sel]
        if other:
            S['hist']['has_record_on_unselected_contig'] += 1
        if t['whitelist'] is not None and any(n not in t['whitelist'] for n, _ in t['contigs']):
            S['hist']['whitelist_excludes_a_contig'] += 1
        if not nodup_py(t):
            S['hist']['repeated_contig_name'] += 1
        if t.get('bp') is not None:
            S['hist']['with_bp_chunked'] += 1
        if ok_pre and rows[0] == 0 and len(set(json.dumps(r[0]) for r in rows[1])) >= 2 and rel and other:
            S['nontrivial'] += 1
        if use_model:
            # outside the hypotheses (a negative contig length, a reversed BED record on a selected contig, bin size <= 0,
            # negative fragment size) the behaviour is not constrained: counted, not compared
            if not ok_pre:
                S['hist']['outside_domain_not_compared'] += 1
            elif canon_model_rows(m7[i]) != rows:
                disagree('blacklisted_binning_contigs', t, m7[i], o['rows'])
            if (pre[i] == 1) != ok_pre or (nd[i] == 1) != nodup_py(t):
                S['notes'].append('harness: Python gpre/nodup and Coq gpre/nodupb disagree on %r' % (t,))
            if i in m9 and 'chunks' in o:
                mc = [1] if m9[i][0] == 1 else [0, m9[i][1]]
                ic = [0, [[[fw.to_val(r[0])] + list(r[1:]) for r in ch] for ch in o['chunks']]]
                if ok_pre and mc != ic:
                    disagree('bp_chunked(blacklisted_binning_contigs)', dict(t), m9[i], o.get('chunks'))
            if i % 7 == 0 or len(S['keep']) < 30:
                S['keep'].append((gmodel_input(t), m7[i], None))
                if i in m9:
                    S['keep'].append((gmodel_input(t, 9), m9[i], None))
        # the statement on the implementation's rows (Python transcription contig_spec, cross-checked against gspecb below)
        if ok_pre and nodup_py(t) and rows[:1] != ['error']:
            S['spec_evals'] += 1
            got = ['error', 'the call raises (%s)' % o.get('why', '')] if rows == [1] else o['rows']
            bad = P.contig_spec(t, got)
            if bad:
                violation('blacklisted_binning_contigs:' + bad[0], 'blacklisted_binning_contigs: ' + bad[1], t, o['rows'])
            if 'chunks' in o and [r for ch in o['chunks'] for r in ch] != o['rows']:
                violation('bp_chunked:concat', 'bp_chunked(blacklisted_binning_contigs(..)): chunks do not concatenate to the rows', t, o)
    # Python contig_spec vs Coq gspecb (mode 2) on implementation rows and perturbed rows
    if use_model:
        samp = [(t, canon_rows(gi[i]['rows'])) for i, t in enumerate(gc)
                if gpre_py(t) and nodup_py(t) and i % 5 == 0 and gi[i]['rows'] != ['skipped']]
        samp = [(t, r[1]) for t, r in samp if r[0] == 0 and all(ln <= 400 for _, ln in t['contigs'])][:400]
        both = samp + [(t, perturb_rows(rng, r)) for t, r in samp]
        cb = fw.run_model('C17', 2, [[gmodel_input(t), r] for t, r in both]) if both else []
        mism = 0
        for (t, r), b in zip(both, cb):
            py = P.contig_spec(t, [[fw.as_str(x[0])] + list(x[1:]) for x in r]) is None
            if py != (b == 1):
                mism += 1
                S['notes'].append('harness: Python contig_spec and Coq gspecb disagree on %r rows %r' % (t, r))
        S['gspec_cross'] = {'cases': len(both), 'of_which_perturbed_rows': len(samp), 'rejected_by_gspecb': sum(1 for b in cb if b == 0),
                            'mismatches': mism}
    # ---- whole path from a text
    if use_model:
        m10 = fw.run_model('C17', 0, [gmodel_input(t, 10) for t in tcases])
        for t, m, o in zip(tcases, m10, gi[len(gc):]):
            if non_ascii(t['text']) or o['rows'] == ['skipped']:
                continue
            wf = text_wellformed(t['text'])
            S['hist']['path_text_%s' % ('wellformed' if wf else 'malformed')] += 1
            if canon_model_rows(m) != canon_rows(o['rows']):
                if wf or m[0] == 0:
                    disagree('blacklisted_binning_contigs(BED text)', t, m, o['rows'])
                else:
                    S['hist']['malformed_text_model_raises_impl_differs'] += 1
    # ---- the records of a text
    if use_model:
        m8 = fw.run_model('C17', 0, [[8, t['text']] for t in texts])
    for i, t in enumerate(texts):
        if non_ascii(t['text']) or ti[i] == ['skipped']:
            continue
        o = canon_parse_impl(ti[i])
        wf = text_wellformed(t['text'])
        S['hist']['text_%s' % ('wellformed' if wf else 'malformed')] += 1
        if t.get('gz'):
            S['hist']['text_gz'] += 1
        if any(ord(ch) > 127 for ch in t['text']):
            S['hist']['text_non_ascii'] += 1
        if o == ['missing']:
            S['hist']['text_reader_missing'] += 1
            continue
        if o[:1] == ['error']:
            S['errors'] += 1
        if 'records' in t:                       # theorem C17_bed_round_trip on the implementation
            S['spec_evals'] += 1
            want = canon_parse_records(t['records'])
            if o != want:
                violation('bed_round_trip', 'reading back the BED file %r gives %r, the records written are %r'
                          % (t['text'], ti[i], t['records']), t, ti[i])
        if use_model:
            m = canon_parse_model(m8[i])
            if m != o:
                if wf or m[0] == 0:
                    disagree('get_bins_from_bed_dict(BED text)', t, m8[i], ti[i])
                else:
                    S['hist']['malformed_text_model_raises_impl_differs'] += 1
            if i % 40 == 0 and len(t['text']) < 200:
                S['keep'].append(([8, t['text']], m8[i], None))
    # ---- print_bed of the model = the format string the files are written with
    if use_model:
        small = [recs for recs in rt if all(abs(v) < 2 ** 60 for r in recs for v in r[1:])]
        pm = fw.run_model('C17', 0, [[11, recs] for recs in small]) if small else []
        for recs, m in zip(small, pm):
            if fw.as_str(m) != ''.join('%s\t%d\t%d\n' % tuple(r) for r in recs):
                disagree('print_bed', recs, fw.as_str(m), ''.join('%s\t%d\t%d\n' % tuple(r) for r in recs))
        S['print_bed_checked'] = len(small)
    S['scope'] = {'contig_level': scope_desc, 'bed_text': tscope_desc}
    S['counts'] = {'contig_level_cases': len(gc), 'of_which_exhaustive_scope': len(scope), 'of_which_with_bp_chunked': sum(1 for t in gc if t.get('bp') is not None),
                   'whole_path_from_text_cases': len(tcases), 'bed_texts': len(texts), 'of_which_exhaustive_scope_texts': len(tscope),
                   'round_trip_files': len(rt), 'text_encoding': res.get('text_encoding')}
    S['dis'] = sorted(S['dis'], key=lambda d: len(json.dumps(d['input'])))[:10]
    S['notes'] = S['notes'][:5]
    return S


def canon_parse_records(recs):
    d = {}
    for c, s, e in recs:
        d.setdefault(c, []).append((s, e))
    return canon_parse(d)


# ============================================================================ chunk worker (own process)
def nontrivial(c, out):
    fn = c[0]
    if fn == 5:
        if not pre_bb(c) or not (isinstance(out, list) and out and out[0] == 0):
            return False
        _, sc, ec, bs, bl, fr = c
        return len(out[1]) >= 2 and (bool(fr) or any(s < ec and e > sc and s < e for s, e in bl))
    if fn == 0:
        return c[3] > 0 and c[1] < c[2] and (c[2] - c[1]) % c[3] != 0
    if fn == 1:
        return any((s < c[2] < e) or (s < c[3] < e) for s, e in c[1])
    if fn in (2, 3, 4):
        l = sorted(c[1])
        return any(l[i][1] > l[i + 1][0] for i in range(len(l) - 1))
    if fn == 6:
        return isinstance(out, list) and len(out) >= 3
    return False


def features(c, out, h):
    _, sc, ec, bs, bl, fr = c
    L = ec - sc
    h['len_%s' % ('0' if L == 0 else '1-6' if L <= 6 else '7-14' if L <= 14 else '15-200' if L <= 200 else '>200')] += 1
    h['blacklist_n=%s' % (len(bl) if len(bl) < 4 else '4+')] += 1
    if bs > L:
        h['bin_size>region'] += 1
    if fr:
        h['with_fragment_size'] += 1
        if fr[0] > bs:
            h['fragment_size>bin_size'] += 1
    srt = sorted(bl)
    if any(srt[i][1] > srt[i + 1][0] for i in range(len(srt) - 1)):
        h['bl_overlapping'] += 1
    if any(srt[i][1] == srt[i + 1][0] for i in range(len(srt) - 1)):
        h['bl_adjacent'] += 1
    if any(s == e for s, e in bl):
        h['bl_empty_interval'] += 1
    if any(s <= sc < e or s == sc for s, e in bl):
        h['bl_touches_start'] += 1
    if any(s < ec <= e or e == ec for s, e in bl):
        h['bl_touches_end'] += 1
    if any(s <= sc and ec <= e and s < e for s, e in bl):
        h['bl_covers_region'] += 1
    if isinstance(out, list) and out and out[0] == 0:
        rows = out[1]
        if any(rows[i][1] == rows[i + 1][0] and rows[i][1] - rows[i][0] != rows[i + 1][1] - rows[i + 1][0]
               for i in range(len(rows) - 1)):
            h['remainder_bin'] += 1
        if fr and any(r[2] != r[0] - fr[0] or r[3] != r[1] + fr[0] for r in rows if len(r) == 4):
            h['window_clipped'] += 1


def work(args):
    """one chunk: build cases, run the implementation, the model, the Python spec; return a summary"""
    kind, desc, use_model, seed = args
    if kind == 'blocks':
        cases = [c for d in desc for c in bb_block(d)]
    else:
        cases = desc
    impl = fw.run_impl('impl_c17.py', {'cases': cases})['out']
    S = {'n': len(cases), 'dis': [], 'viol': {}, 'hist': Counter(), 'fn': Counter(), 'pre': 0, 'pre_n': 0,
         'nontrivial': 0, 'spec_evals': 0, 'errors': 0, 'keep': [], 'ndis': 0, 'nviol': 0}
    model = fw.run_model('C17', 0, cases, timeout=600) if use_model else None
    seen = set()
    rng = random.Random(seed)
    for i, c in enumerate(cases):
        o = impl[i]
        fn = c[0]
        S['fn'][FN[fn]] += 1
        if isinstance(o, list) and o and o[0] == 'error':
            S['errors'] += 1
        if o == ['missing']:
            continue
        if model is not None and not in_domain(fn, c):
            # outside the hypotheses of every statement about this function (a reversed region / interval, a step or bin
            # size <= 0, an unsorted list given to trim_rangelist): the behaviour is not constrained and not compared
            S['hist']['outside_domain_not_compared'] += 1
        elif model is not None and canon_helper(fn, model[i]) != canon_helper(fn, o):
            S['ndis'] += 1
            S['dis'].append({'fn': FN[fn], 'input': c, 'model': model[i], 'impl': o})
            if len(S['dis']) > 40:
                S['dis'] = sorted(S['dis'], key=lambda d: case_size(d['input']))[:10]
        if fn == 5:
            S['pre_n'] += 1
            ok = pre_bb(c)
            S['pre'] += ok
            features(c, o, S['hist'])
        else:
            ok = True
        sp = SPEC.get(fn)
        if sp and ok:
            S['spec_evals'] += 1
            v = sp(c, o)
            if v:
                S['nviol'] += 1
                key = '%s:%s' % (FN[fn], v[0])
                sz = case_size(c)
                if key not in S['viol'] or sz < S['viol'][key][0]:
                    S['viol'][key] = (sz, {'key': key, 'what': '%s%r: %s' % (FN[fn], tuple(c[1:]), v[1]),
                                           'input': c, 'impl': o})
        if nontrivial(c, o):
            k = json.dumps(c)
            if k not in seen:
                seen.add(k)
                S['nontrivial'] += 1
        if i < 2 or rng.random() < 200.0 / len(cases):
            S['keep'].append((c, model[i] if model is not None else None, o))
    S['dis'] = sorted(S['dis'], key=lambda d: case_size(d['input']))[:10]
    return S


def perturb(rng, rows):
    rows = [list(r) for r in rows]
    if not rows:
        return [[0, 1]]
    i = rng.randrange(len(rows))
    k = rng.randint(0, 3)
    if k == 0:
        rows[i][rng.randrange(len(rows[i]))] += rng.choice([-1, 1])
    elif k == 1:
        del rows[i]
    elif k == 2:
        rows.insert(i, list(rows[i]))
    else:
        rows[i] = rows[i][:2] if len(rows[i]) == 4 else rows[i] + rows[i]
    return rows


class Prop(fw.PropBase):
    ID = 'C17'
    PROPS = 'Props/C17.v'
    TRUSTED = [
        'T: the comparisons, step/clip/merge expressions, call arguments, the sentinel and the bp threshold test of fill_range, '
        'trim_rangelist, range_contains_overlap, _merge_overlapping_ranges, blacklisted_binning and bp_chunked are regenerated from '
        'the source into coq/Gen/GenTiling.v on every run (tools/c17.py regen_tiling + py2coq.ExprTranslator) and the model uses them; '
        'the control flow around them in coq/Model/C17.v is a hand transcription, pinned by the translator\'s skeleton check '
        '(ast.unparse of each function with the translated expressions blanked must equal the recorded skeleton, else the tie is '
        'refused) and tied to the source by the correspondence check (exhaustive small scopes + random); trusted: the skeleton '
        'strings, the reading of the holes by Model.C17, py2coq; /repo contains fixes C17-D21 (D21+D22), C17-D23, C17-D31',
        'int((start - current) / total_bins) is modelled as Z.quot: assumes the float quotient of two integers below 2^53 '
        'truncates to the exact quotient (sampled up to 2^44); sorted() on tuples = insertion sort by (start, end)',
        'K only (no translator): coq/Model/C17x.v (get_bins_from_bed_dict as an insertion-ordered association list, the loop of '
        'blacklisted_binning_contigs over the contig list with the whitelist test, sorted() = insertion sort, bp_chunked on the rows) and '
        'coq/Model/C17bed.v (text-mode line iteration with universal newlines, str.strip().split(None, 3)[:3] with str.isspace() as a '
        'table of code points, int() on a token incl. sign, single underscores and the 4300-digit limit) are hand transcriptions tied to '
        'the code by the correspondence check through real BED / BED.gz files, contig lists, dict items and BAM headers',
        'modelled not verified: gzip and the text codec (the model starts from the decoded text; K writes UTF-8), pysam header '
        'reading (get_contig_sizes: a BAM path is modelled as its (name, length) list, names unique), dict / set / tuple membership of '
        'the whitelist (modelled as list membership by ==); int() also accepts non-ASCII decimal digits, the model does not (such texts '
        'are generated but not compared); a whitelist that is a str (substring test) is outside the model; '
        'more_itertools.windowed; generator laziness (an exception after some rows were yielded is compared as the exception only)',
        'tools/c17.py spec_* (Python transcription of the theorem statement used by the search), cross-checked against the Coq '
        'specb (C17_specb_iff) on implementation outputs and on perturbed outputs',
    ]
    ASSUMPTIONS = ['bin_size > 0, region start <= end, every blacklist interval has start <= end, fragment_size >= 0 or None '
                   '(outside this precondition model and code are still compared, the theorem says nothing)',
                   'contig level (C17_contigs_tiling and its consequences): bin_size > 0, every whitelisted contig has length >= 0, every '
                   'BED record naming a whitelisted contig has start <= end (records of other contigs are unconstrained), fragment_size >= 0 '
                   'or None; C17_genome_exactly_once / C17_gspecb_iff additionally need pairwise different contig names (a BAM header, a dict)',
                   'BED text (C17_bed_round_trip*): contig names non-empty and free of Python whitespace, coordinates of at most 4300 digits; '
                   'texts with a malformed line (fewer than 3 columns, a column int() refuses) raise in model and code - compared, but a '
                   'difference there is only counted in the evidence (no theorem speaks about them)']

    # ---------------------------------------------------------------- T
    def regen(self):
        try:
            return regen_tiling()
        except BaseException:
            # fail closed: never prove / run against definitions generated from another source
            for ext in ('.v', '.vo', '.vos', '.vok', '.glob'):
                try:
                    os.remove(GEN[:-2] + ext)
                except OSError:
                    pass
            raise

    # ---------------------------------------------------------------- K
    def plan(self):
        quick = self.tier == 'quick'
        rng = self.rng
        chunks = []
        corpus, self.corpus_contigs, self.corpus_histories, self.corpus_g = [], [], [], []
        for p in sorted(glob.glob(os.path.join(CORPUS, '*.json'))):
            d = json.load(open(p))
            corpus += d.get('cases', [])
            self.corpus_contigs += d.get('contigs', [])
            self.corpus_histories += d.get('histories', [])
            self.corpus_g += d.get('gcases', [])
        self.n_corpus = len(corpus) + len(self.corpus_contigs) + len(self.corpus_histories) + len(self.corpus_g)
        rnd = bb_random(rng, 6000 if quick else 60000) + bb_random(rng, 1500 if quick else 15000, big=True) \
            + bb_random(rng, 1000 if quick else 8000, outside_pre=True)
        small = small_streams(self.tier, rng)
        chunks.append(('cases', corpus + small))
        step = 5000 if quick else 20000
        for i in range(0, len(rnd), step):
            chunks.append(('cases', rnd[i:i + step]))
        blocks = bb_scopes(self.tier)
        per = 36 if quick else 12
        for i in range(0, len(blocks), per):
            chunks.append(('blocks', blocks[i:i + per]))
        self.blocks = blocks
        return chunks

    def run_streams(self, use_model):
        chunks = self.plan()
        args = [(k, d, use_model, self.seed * 1000 + i) for i, (k, d) in enumerate(chunks)]
        with ProcessPoolExecutor(max_workers=WORKERS) as ex:
            # the contig-level / BED-text chunk first: it is the longest single task
            # (extra passes after a translator refusal draw fresh random streams and do not repeat the exhaustive scopes)
            self._gpass = getattr(self, '_gpass', 0) + 1
            gfut = ex.submit(work_g, (self.tier, self.rng.randrange(2 ** 31), use_model, self.corpus_g, self._gpass > 1))
            res = list(ex.map(work, args))
            G = gfut.result()
        T = {'n': 0, 'dis': [], 'viol': {}, 'hist': Counter(), 'fn': Counter(), 'pre': 0, 'pre_n': 0, 'nontrivial': 0,
             'spec_evals': 0, 'errors': 0, 'keep': [], 'ndis': 0, 'nviol': 0}
        for S in res:
            for k in ('n', 'pre', 'pre_n', 'nontrivial', 'spec_evals', 'errors', 'ndis', 'nviol'):
                T[k] += S[k]
            T['hist'].update(S['hist']); T['fn'].update(S['fn'])
            T['dis'] += S['dis']; T['keep'] += S['keep']
            for key, (sz, w) in S['viol'].items():
                if key not in T['viol'] or sz < T['viol'][key][0]:
                    T['viol'][key] = (sz, w)
        T['dis'] = sorted(T['dis'], key=lambda d: case_size(d['input']))[:10]
        # contig level / BED text / bp on rows (Model.C17x, Model.C17bed)
        T['G'] = G
        T['n'] += G['n']
        T['ndis'] += G['ndis']; T['dis'] = G['dis'][:5] + T['dis']
        T['nviol'] += G['nviol']; T['spec_evals'] += G['spec_evals']; T['errors'] += G['errors']; T['nontrivial'] += G['nontrivial']
        for key, (sz, w) in G['viol'].items():
            T['viol'][key] = (sz, w)
        # blacklisted_binning_contigs through a BED file
        cont = self.corpus_contigs + contig_cases(self.tier, self.rng)
        hist = self.corpus_histories + history_cases(self.tier, self.rng)
        cres = fw.run_impl('impl_c17.py', {'contigs': cont, 'histories': hist})
        # every call of a history is one contig-level case, checked against the files as they were at that call
        flat, fres = [], []
        for hi, (h, hr) in enumerate(zip(hist, cres['histories'])):
            for j, (st, r) in enumerate(zip(h, hr)):
                st = dict(st)
                st['history'] = {'index': hi, 'call': j, 'earlier_calls_in_same_process': h[:j]}
                flat.append(st); fres.append(r)
        T['n_histories'], T['n_history_calls'] = len(hist), len(flat)
        T['contigs'] = (cont + flat, cres['contigs'] + fres)
        T['bp_same'] = cres.get('bp_chunked_same_object')
        return T

    def contig_expected(self, t, runner):
        """expected rows of blacklisted_binning_contigs from per-contig blacklisted_binning results"""
        ins, names = [], []
        for name, ln in t['contigs']:
            if t['whitelist'] is not None and name not in t['whitelist']:
                continue
            bl = sorted([s, e] for c, s, e in (t['bed'] or []) if c == name)
            ins.append([5, 0, ln, t['bin_size'], bl, [] if t['fragment_size'] is None else [t['fragment_size']]])
            names.append(name)
        outs = runner(ins)
        rows = []
        for name, o in zip(names, outs):
            if o[0] != 0:
                return ['error', 'model raises %r' % (o,)]
            rows += [[name] + list(r) for r in o[1]]
        return rows

    def correspondence(self):
        use_model = bool(self.model_ok)
        try:
            T = self.run_streams(use_model)
        except Exception as e:   # e.g. the implementation no longer imports: fail closed
            raise fw.Broken('correspondence', 'could not run the implementation / model on the case streams: %r' % (e,))
        self.T = T
        cont, cimpl = T['contigs']
        n_eval = T['n'] + len(cont)
        self.cov.update({
            'evaluations': n_eval,
            'distinct_nontrivial': T['nontrivial'],
            'rule': 'every function called directly on the real code and on the extracted model. blacklisted_binning: EXHAUSTIVE over '
                    'all blacklists (multisets, half of them given unsorted) of <= k well-formed intervals with end points in lo..hi, '
                    'for every (region length, bin size, fragment size) block listed in exhaustive_scopes; random medium (length 11..200) '
                    'and large (up to 2^44) regions with blacklists of up to 9 intervals built to touch/cross the region ends, be adjacent, '
                    'overlapping, empty, covering or outside; plus inputs outside the precondition. fill_range exhaustive for start -3..6, '
                    'end -3..14, step -6..17; merge/overlap exhaustive for ordered lists of <= 3 intervals; bp_chunked exhaustive for job-size '
                    'lists over {0,1,2,3,5}. non-trivial = blacklisted_binning: precondition holds, >= 2 bins, and (fragment size given or a '
                    'non-empty blacklist interval intersects the region); fill_range: remainder piece; trim: interval crossing a region end; '
                    'merge: an overlap exists; bp_chunked: >= 3 chunks. distinct = distinct input (exhaustive blocks are disjoint by '
                    'construction, random regions are longer than the exhaustive ones). EXTENSION (see extension_contig_level): '
                    'blacklisted_binning_contigs through real BED / BED.gz files and contig lists / dict items / BAM headers against '
                    'Model.C17x (exhaustive small scope + random, also followed by bp_chunked), the records of BED texts against '
                    'Model.C17bed (exhaustive short texts + structured random texts, plain and gzipped), the whole path from a text; '
                    'non-trivial = precondition holds, rows on >= 2 contigs, a blacklist record on a selected and one on an unselected contig',
            'per_function': dict(T['fn']),
            'exhaustive_scopes': self.scope_summary(),
            'exhaustive': False,
            'exhaustive_note': 'the small scopes listed in exhaustive_scopes are enumerated completely; the property domain itself is infinite '
                               '(covered by the Coq theorems)',
            'input_histogram_blacklisted_binning': dict(T['hist']),
            'precondition_hit_rate': round(T['pre'] / max(1, T['pre_n']), 4),
            'spec_evaluated_on_impl_outputs': T['spec_evals'],
            'spec_violations_on_impl_outputs': T['nviol'],
            'impl_unexpected_exceptions': T['errors'],
            'corpus_cases': self.n_corpus,
            'contig_level_cases': len(cont),
            'contig_level_histories': {'histories': T['n_histories'], 'calls': T['n_history_calls'],
                                       'what': 'blacklisted_binning_contigs(<BAM path>, ...) called repeatedly in one process '
                                               'while the BAM / BED at the same path is rewritten between calls'},
            'utils.bp_chunked is utils.binning.bp_chunked': T['bp_same'],
            'extension_contig_level': {
                'counts': T['G']['counts'], 'exhaustive_scopes': T['G']['scope'], 'input_histogram': dict(T['G']['hist']),
                'precondition_hit_rate': round(T['G']['hist'].get('precondition_holds', 0) / max(1, T['G']['counts']['contig_level_cases']), 4),
                'nontrivial': T['G']['nontrivial'], 'spec_evaluated_on_impl_outputs': T['G']['spec_evals'],
                'spec_violations_on_impl_outputs': T['G']['nviol'], 'disagreements': T['G']['ndis'],
                'python_contig_spec_vs_coq_gspecb': T['G'].get('gspec_cross'), 'print_bed_vs_format_string': T['G'].get('print_bed_checked'),
                'what': 'fn 7: rows of blacklisted_binning_contigs compared exactly with the model; fn 9: chunks of '
                        'bp_chunked(blacklisted_binning_contigs(..), k) compared exactly; fn 8: the parsed file compared as the blacklisted '
                        'bases per contig (what the caller can observe); on malformed texts (a line with < 3 columns or a column that is not '
                        'an ASCII int() literal of <= 4300 digits) a difference between model (raises) and code is only counted '
                        '(malformed_text_model_raises_impl_differs), they are outside the hypotheses of every theorem; the statement of '
                        'C17_contigs_tiling (contig_spec, cross-checked with the Coq gspecb) and of C17_bed_round_trip is evaluated on '
                        'the implementation outputs'},
            'samples': [{'input': c, 'impl': o} for c, m, o in T['keep'][:: max(1, len(T['keep']) // 6)][:6]],
        })
        problems = []
        if T['nviol']:
            first = sorted(T['viol'].values(), key=lambda x: x[0])[0][1]
            problems.append(('specification', 'the implementation output violates the theorem statement on %d inputs; smallest: %s'
                             % (T['nviol'], first['what'])))
        for note in T['G']['notes']:
            problems.append(('harness', note))
        if T['G'].get('fatal'):
            problems.append(('correspondence', T['G']['fatal']))
        if T['bp_same'] is False:
            problems.append(('correspondence', 'singlecellmultiomics.utils.bp_chunked is no longer utils.binning.bp_chunked'))
        if use_model:
            self.cov['traces_validated_against_impl'] = n_eval
            self.cov['disagreements'] = T['ndis']
            # contig level: expected rows from the model
            cdis = []
            for t, got in zip(cont, cimpl):
                exp = self.contig_expected(t, lambda ins: fw.run_model('C17', 0, ins) if ins else [])
                if got != exp:
                    cdis.append({'fn': 'blacklisted_binning_contigs', 'input': t, 'model': exp, 'impl': got})
            self.cdis = cdis
            # vm_compute cross-check of the extracted binary
            keep = T['keep']
            gkeep = [k for k in T['G']['keep'] if len(json.dumps(k[0])) < 3000]
            gsel = self.rng.sample(gkeep, min(35, len(gkeep)))
            idx = sorted(self.rng.sample(range(len(keep)), min(100 - len(gsel), len(keep))))
            ok, nm, log = fw.vm_crosscheck('C17', 0, [(keep[i][0], keep[i][1]) for i in idx] + [(k[0], k[1]) for k in gsel],
                                           run_name='run_C17x', require='Model.C17x')
            self.cov['vm_compute_crosscheck'] = {'cases': len(idx) + len(gsel), 'of_which_contig_level_or_text': len(gsel),
                                                 'mismatches': nm}
            if not ok:
                problems.append(('extraction', 'vm_compute and extracted model disagree: ' + log[-800:]))
            # the Python spec / pre used by the search agree with the Coq specb / pre (modes 2 and 1)
            sample = [(c, o) for c, m, o in keep if c[0] == 5 and isinstance(o, list) and o and o[0] == 0
                      and c[2] - c[1] <= 400 and pre_bb(c)]
            pert = [(c, [0, perturb(self.rng, o[1])]) for c, o in sample]
            both = sample + pert
            cb = fw.run_model('C17', 2, [[c, o[1]] for c, o in both]) if both else []
            bad = [(c, o, b) for (c, o), b in zip(both, cb) if (spec_bb(c, o) is None) != (b == 1)]
            pre_s = [c for c, m, o in keep if c[0] == 5]
            pb = fw.run_model('C17', 1, pre_s) if pre_s else []
            badp = [c for c, b in zip(pre_s, pb) if pre_bb(c) != (b == 1)]
            self.cov['python_spec_vs_coq_specb'] = {'cases': len(both), 'of_which_perturbed_outputs': len(pert),
                                                    'rejected_by_both': sum(1 for b in cb if b == 0),
                                                    'mismatches': len(bad), 'pre_cases': len(pre_s), 'pre_mismatches': len(badp)}
            if bad or badp:
                problems.append(('harness', 'Python spec/pre and Coq specb/pre disagree: %r' % ((bad or badp)[0],)))
            if T['ndis'] or cdis:
                d = (T['dis'] + cdis)[0]
                problems.insert(0, ('correspondence', 'model and implementation disagree on %d cases; smallest: %s'
                                    % (T['ndis'] + len(cdis), json.dumps(d)[:1500])))
        if problems:
            for k, d in problems[1:]:
                self.breaks.append((k, d))
            raise fw.Broken(problems[0][0], problems[0][1])

    def scope_summary(self):
        groups = Counter()
        for sc, L, bs, fr, lo, hi, maxn in self.blocks:
            groups[(sc, lo, hi, maxn)] += 1
        out = []
        for (sc, lo, hi, maxn), n in sorted(groups.items()):
            bl = [b for b in self.blocks if (b[0], b[4], b[5], b[6]) == (sc, lo, hi, maxn)]
            nbl = sum(1 for _ in blacklists(lo, hi, maxn))
            out.append({'region_start': sc, 'region_lengths': sorted(set(b[1] for b in bl)),
                        'bin_sizes': sorted(set(b[2] for b in bl)),
                        'fragment_sizes': sorted(set('None' if not b[3] else str(b[3][0]) for b in bl)),
                        'blacklists': 'all multisets of <= %d intervals (s <= e) with end points in %d..%d' % (maxn, lo, hi),
                        'blacklists_per_block': nbl, 'blocks': n, 'cases': n * nbl})
        return out

    # ---------------------------------------------------------------- search
    def search(self):
        """The theorem statement (Python transcription spec_* of Proofs/C17.v [spec], chain, merge_spec, trim_spec,
        bp_chunked_concat/chunks; not the Coq specb, so no model is needed) evaluated on the implementation's own
        outputs over the same streams and exhaustive small scopes; the smallest violating input per class is reported."""
        T = getattr(self, 'T', None)
        if T is None:
            try:
                T = self.run_streams(False)
            except Exception as e:
                self.notes.append('search could not run the implementation: %r' % (e,))
                return
        for key, (sz, w) in sorted(T['viol'].items(), key=lambda kv: kv[1][0]):
            w = dict(w)
            w['expected'] = 'spec of C17 (see Props/C17.v) - violated as described in "what"'
            self.witnesses.append(w)
        # contig level: every contig's rows must satisfy the spec for region (0, length)
        cont, cimpl = T['contigs']
        for t, got in zip(cont, cimpl):
            bad = self.contig_spec(t, got)
            if bad:
                self.witnesses.append({'key': 'blacklisted_binning_contigs:' + bad[0],
                                       'what': 'blacklisted_binning_contigs: ' + bad[1], 'input': t, 'impl': got})
                break

    def contig_spec(self, t, got):
        if got and got[0] == 'error':
            return ('exception', 'raised ' + got[1])
        want = [n for n, ln in t['contigs'] if t['whitelist'] is None or n in t['whitelist']]
        order = []
        for r in got:
            if r[0] not in order:
                order.append(r[0])
        for name, ln in t['contigs']:
            rows = [r[1:] for r in got if r[0] == name]
            if name not in want:
                if rows:
                    return ('whitelist', 'contig %s is not whitelisted but has bins' % name)
                continue
            bl = [[s, e] for c, s, e in (t['bed'] or []) if c == name]
            c = [5, 0, ln, t['bin_size'], bl, [] if t['fragment_size'] is None else [t['fragment_size']]]
            v = spec_bb(c, [0, rows])
            if v:
                return (v[0], 'contig %s (length %d): %s' % (name, ln, v[1]))
        if [n for n in want if n in order] != order:
            return ('order', 'contigs reported out of order / unknown contig: %r' % (order,))
        return None
