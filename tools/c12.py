"""C12 - binned molecule counting is independent of how the genome is split into jobs.

T: the arithmetic of count_fragments_binned (fetch window, ownership test, bin index / start / end), the job
   step / job end expressions of generate_jobs and the read_counts filter are REGENERATED from the source into
   coq/Gen/GenBinCount.v on every run; the theorems in Props/C12.v are proved about those definitions.
K: synthetic tagged BAMs through obtain_counts(generate_commands(...)) for many bins_per_job / schedules.
"""
import ast, hashlib, itertools, json, os
import fw, py2coq
from py2coq import Untranslatable

SRC = 'singlecellmultiomics/bamProcessing/bamBinCounts.py'


# ----------------------------------------------------------------------------- T
def _sha(s):
    return hashlib.sha256(s.encode()).hexdigest()


def _chunk(rel, node, src, coqname, params, body):
    seg = ast.get_source_segment(src, node)
    text = '(* source: %s line %d-%d sha256 %s\n   %s *)\nDefinition %s %s :=\n  %s.' % (
        rel, node.lineno, node.end_lineno, _sha(seg), ' '.join(seg.split()).replace('*)', '* )'), coqname, params, body)
    return text, {'source': rel, 'lines': [node.lineno, node.end_lineno], 'sha256': _sha(seg), 'coq': coqname}


def translate_generate_jobs(path, rel):
    """generate_jobs must be:  for job_group in ((( contig, <start>, <end> ) for start in range(<lo>, <hi>, <step>))
                                                  for contig, length in get_contig_sizes(alignments_path).items()):
                                   yield from job_group
    anything else -> Untranslatable (fail closed)."""
    src = open(path).read()
    fn = py2coq.find_function(ast.parse(src), 'generate_jobs')
    argnames = [a.arg for a in fn.args.args]
    if argnames != ['alignments_path', 'bin_size', 'bins_per_job'] or fn.args.vararg or fn.args.kwarg:
        raise Untranslatable('generate_jobs: signature changed: %r' % argnames)
    body = [s for s in fn.body if not (isinstance(s, ast.Expr) and isinstance(s.value, ast.Constant))]
    if len(body) != 1 or not isinstance(body[0], ast.For):
        raise Untranslatable('generate_jobs: body is not a single for loop')
    loop = body[0]
    if not (isinstance(loop.target, ast.Name) and len(loop.body) == 1 and not loop.orelse
            and isinstance(loop.body[0], ast.Expr) and isinstance(loop.body[0].value, ast.YieldFrom)
            and isinstance(loop.body[0].value.value, ast.Name) and loop.body[0].value.value.id == loop.target.id):
        raise Untranslatable('generate_jobs: loop body is not `yield from <loop variable>`')
    outer = loop.iter
    if not (isinstance(outer, ast.GeneratorExp) and len(outer.generators) == 1):
        raise Untranslatable('generate_jobs: outer generator expression changed')
    og = outer.generators[0]
    if og.ifs or og.is_async or ast.unparse(og.target) != '(contig, length)' or \
            ast.unparse(og.iter) != 'get_contig_sizes(alignments_path).items()':
        raise Untranslatable('generate_jobs: outer comprehension changed: %s' % ast.unparse(og)[:120])
    inner = outer.elt
    if not (isinstance(inner, ast.GeneratorExp) and len(inner.generators) == 1):
        raise Untranslatable('generate_jobs: inner generator expression changed')
    ig = inner.generators[0]
    if ig.ifs or ig.is_async or not (isinstance(ig.target, ast.Name) and ig.target.id == 'start'):
        raise Untranslatable('generate_jobs: inner comprehension changed')
    rng = ig.iter
    if not (isinstance(rng, ast.Call) and isinstance(rng.func, ast.Name) and rng.func.id == 'range'
            and len(rng.args) == 3 and not rng.keywords):
        raise Untranslatable('generate_jobs: inner iterable is not range(lo, hi, step)')
    elt = inner.elt
    if not (isinstance(elt, ast.Tuple) and len(elt.elts) == 3 and ast.unparse(elt.elts[0]) == 'contig'):
        raise Untranslatable('generate_jobs: job tuple is not (contig, start, end)')
    tr = py2coq.ExprTranslator()
    out = []
    for node, name, params, allowed in (
            (rng.args[0], 'g_range_lo', '(length bin_size bins_per_job : Z)', ()),
            (rng.args[1], 'g_range_hi', '(length bin_size bins_per_job : Z)', ()),
            (rng.args[2], 'g_job_step', '(length bin_size bins_per_job : Z)', ()),
            (elt.elts[1], 'g_job_start', '(start length bin_size bins_per_job : Z)', ('start',)),
            (elt.elts[2], 'g_job_end', '(start length bin_size bins_per_job : Z)', ('start',))):
        free = {n.id for n in ast.walk(node) if isinstance(n, ast.Name)}
        if not free <= {'length', 'bin_size', 'bins_per_job'} | set(allowed):
            raise Untranslatable('generate_jobs: unexpected free names %r in %s' % (sorted(free), ast.unparse(node)))
        out.append(_chunk(rel, node, src, name, params, tr.z(node)))
    return out


FILTER_ENV = {
    'read1_only': 'read1_only', 'read.is_read1': 'is_read1', 'read is None': 'false',
    'read.is_qcfail': 'is_qcfail', 'ignore_qcfail': 'ignore_qcfail', 'dedup': 'dedup',
    'read.is_duplicate': 'is_duplicate', 'ignore_mp': 'ignore_mp', "read.has_tag('mp')": 'has_mp',
    "read.get_tag('mp') != 'unique'": '(negb mp_unique)', 'min_mq is not None': 'has_min_mq',
    'read.mapping_quality': 'mapq', 'min_mq': 'min_mq',
}
FILTER_PARAMS = ('(has_min_mq : bool) (min_mq : Z) (dedup read1_only ignore_mp ignore_qcfail : bool) '
                 '(is_read1 is_qcfail is_duplicate has_mp mp_unique : bool) (mapq : Z)')


def _is_verbose_print(st):
    return (isinstance(st, ast.If) and isinstance(st.test, ast.Name) and st.test.id == 'verbose' and not st.orelse
            and all(isinstance(s, ast.Expr) and isinstance(s.value, ast.Call) and isinstance(s.value.func, ast.Name)
                    and s.value.func.id == 'print' for s in st.body))


def translate_read_counts(path, rel):
    """read_counts must be a sequence of `if <test>: [if verbose: print(..)] return False` followed by
    `return True`; the result is negb (test1 || test2 || ...)."""
    src = open(path).read()
    fn = py2coq.find_function(ast.parse(src), 'read_counts')
    args = [a.arg for a in fn.args.args]
    defaults = dict(zip(args[len(args) - len(fn.args.defaults):], [ast.unparse(d) for d in fn.args.defaults]))
    if args != ['read', 'min_mq', 'dedup', 'read1_only', 'ignore_mp', 'ignore_qcfail', 'verbose']:
        raise Untranslatable('read_counts: signature changed: %r' % args)
    tr = py2coq.ExprTranslator(env=dict(FILTER_ENV))
    tests = []
    body = [s for s in fn.body if not (isinstance(s, ast.Expr) and isinstance(s.value, ast.Constant))]
    if not body or not (isinstance(body[-1], ast.Return) and isinstance(body[-1].value, ast.Constant)
                        and body[-1].value.value is True):
        raise Untranslatable('read_counts: does not end in `return True`')
    for st in body[:-1]:
        if _is_verbose_print(st):
            continue
        if not (isinstance(st, ast.If) and not st.orelse):
            raise Untranslatable('read_counts: statement outside subset at line %d' % st.lineno)
        inner = [s for s in st.body if not _is_verbose_print(s)]
        if not (len(inner) == 1 and isinstance(inner[0], ast.Return) and isinstance(inner[0].value, ast.Constant)
                and inner[0].value.value is False):
            raise Untranslatable('read_counts: rejection arm at line %d is not `return False`' % st.lineno)
        free = {n.id for n in ast.walk(st.test) if isinstance(n, ast.Name)}
        if not free <= {'read', 'min_mq', 'dedup', 'read1_only', 'ignore_mp', 'ignore_qcfail'}:
            raise Untranslatable('read_counts: unexpected names %r' % sorted(free))
        tests.append(tr.b(st.test))
    chunk = _chunk(rel, fn, src, 'g_read_counts', FILTER_PARAMS, 'negb (%s)' % '\n    || '.join(tests or ['false']))
    return chunk, defaults


def translate_filter_call(path, rel, defaults, func='count_fragments_binned', coqname='g_job_filter'):
    """the call `read_counts(read, min_mq=min_mq, dedup=dedup, read1_only=True, ignore_mp=ignore_mp)` inside
    count_fragments_binned (resp. `read_counts(read, min_mq=min_mq, dedup=dedup, verbose=False)` inside
    count_methylation_binned), negated in an `if not ...: continue`"""
    src = open(path).read()
    fn = py2coq.find_function(ast.parse(src), func)
    calls = [n for n in ast.walk(fn) if isinstance(n, ast.Call) and isinstance(n.func, ast.Name) and n.func.id == 'read_counts']
    if len(calls) != 1:
        raise Untranslatable('%s: expected exactly one read_counts call, found %d' % (func, len(calls)))
    call = calls[0]
    ifs = [n for n in ast.walk(fn) if isinstance(n, ast.If) and isinstance(n.test, ast.UnaryOp)
           and isinstance(n.test.op, ast.Not) and n.test.operand is call]
    if len(ifs) != 1 or len(ifs[0].body) != 1 or not isinstance(ifs[0].body[0], ast.Continue) or ifs[0].orelse:
        raise Untranslatable('%s: the filter is not `if not read_counts(...): continue`' % func)
    if len(call.args) != 1 or ast.unparse(call.args[0]) != 'read':
        raise Untranslatable('count_fragments_binned: read_counts positional arguments changed')
    actual = {}
    for kw in call.keywords:
        if kw.arg is None:
            raise Untranslatable('count_fragments_binned: **kwargs in read_counts call')
        actual[kw.arg] = ast.unparse(kw.value)
    vals = {}
    for name in ('min_mq', 'dedup', 'read1_only', 'ignore_mp', 'ignore_qcfail'):
        v = actual.get(name, defaults.get(name))
        if v is None:
            raise Untranslatable('read_counts call: no value for %s' % name)
        if v in ('True', 'False'):
            vals[name] = v.lower()
        elif v == name and name in ('min_mq', 'dedup', 'ignore_mp'):
            vals[name] = name
        else:
            raise Untranslatable('read_counts call: argument %s=%s outside subset' % (name, v))
    if actual.get('verbose', 'False') != 'False':
        raise Untranslatable('read_counts call: verbose')
    mm = 'has_min_mq min_mq' if vals['min_mq'] == 'min_mq' else None
    if mm is None:
        raise Untranslatable('read_counts call: min_mq is not passed through')
    body = 'g_read_counts %s %s %s %s %s is_read1 is_qcfail is_duplicate has_mp mp_unique mapq' % (
        mm, vals['dedup'], vals['read1_only'], vals['ignore_mp'], vals['ignore_qcfail'])
    params = '(has_min_mq : bool) (min_mq : Z) (dedup ignore_mp : bool) (is_read1 is_qcfail is_duplicate has_mp mp_unique : bool) (mapq : Z)'
    return _chunk(rel, call, src, coqname, params, body)


def regen_bincount():
    rel = SRC
    p = os.path.join(fw.REPO, rel)
    chunks, meta = [], []

    def add(tm):
        chunks.append(tm[0]); meta.append(tm[1])
    F = 'count_fragments_binned'
    add(translate_assign(p, rel, F, 'f_start', 'g_f_start', ['start', 'max_fragment_size']))
    add(translate_assign(p, rel, F, 'f_end', 'g_f_end', ['end', 'max_fragment_size', 'contig_size']))
    add(translate_owner_test(p, rel, F))
    add(translate_assign(p, rel, F, 'bin_i', 'g_bin_i', ['site', 'bin_size']))
    add(translate_assign(p, rel, F, 'bin_start', 'g_bin_start', ['bin_size', 'bin_i']))
    add(translate_assign(p, rel, F, 'bin_end', 'g_bin_end', ['bin_size', 'bin_i', 'contig_size']))
    _check_loop_shape(p)
    for tm in translate_generate_jobs(p, rel):
        add(tm)
    rc, defaults = translate_read_counts(p, rel)
    add(rc)
    add(translate_filter_call(p, rel, defaults))
    for tm in translate_regions(p, rel):
        add(tm)
    for tm in translate_methylation(p, rel, defaults):
        add(tm)
    py2coq.write_gen(os.path.join(fw.COQ, 'Gen', 'GenBinCount.v'), '', chunks)
    return meta


def translate_assign(path, rel, func, target, coqname, params):
    """the unique assignment `target = <expr>` inside func; <expr> may only mention `params`"""
    src = open(path).read()
    fn = py2coq.find_function(ast.parse(src), func)
    nodes = [n for n in ast.walk(fn) if isinstance(n, ast.Assign) and len(n.targets) == 1
             and isinstance(n.targets[0], ast.Name) and n.targets[0].id == target]
    if len(nodes) != 1:
        raise Untranslatable('%s: expected exactly one assignment to %s, found %d' % (func, target, len(nodes)))
    v = nodes[0].value
    free = {n.id for n in ast.walk(v) if isinstance(n, ast.Name)} - {'max', 'min', 'int', 'abs'}
    if not free <= set(params):
        raise Untranslatable('%s: %s = %s mentions %r' % (func, target, ast.unparse(v), sorted(free - set(params))))
    body = py2coq.ExprTranslator().z(v)
    return _chunk(rel, v, src, coqname, '(%s : Z)' % ' '.join(py2coq.mangle(x) for x in params), body)


def translate_owner_test(path, rel, func, coqname='g_not_owned'):
    """the unique `if <test over site, start, end>: continue` inside func"""
    src = open(path).read()
    fn = py2coq.find_function(ast.parse(src), func)
    nodes = []
    for n in ast.walk(fn):
        if isinstance(n, ast.If) and len(n.body) == 1 and isinstance(n.body[0], ast.Continue) and not n.orelse:
            free = {x.id for x in ast.walk(n.test) if isinstance(x, ast.Name)}
            if 'site' in free and free <= {'site', 'start', 'end'}:
                nodes.append(n)
    if len(nodes) != 1:
        raise Untranslatable('%s: expected exactly one `if <site/start/end test>: continue`, found %d' % (func, len(nodes)))
    t = nodes[0].test
    return _chunk(rel, t, src, coqname, '(site start end_ : Z)', py2coq.ExprTranslator().b(t))


def _check_loop_shape(path):
    """the translated assignments must be the only assignments to their targets inside count_fragments_binned and
    the ownership test must guard a bare `continue` (fail closed otherwise)."""
    src = open(path).read()
    fn = py2coq.find_function(ast.parse(src), 'count_fragments_binned')
    want = {'f_start': 1, 'f_end': 1, 'bin_i': 1, 'bin_start': 1, 'bin_end': 1}
    seen = dict.fromkeys(want, 0)
    for n in ast.walk(fn):
        if isinstance(n, (ast.Assign, ast.AugAssign, ast.AnnAssign)):
            targets = n.targets if isinstance(n, ast.Assign) else [n.target]
            for t in targets:
                for x in ast.walk(t):
                    if isinstance(x, ast.Name) and x.id in seen:
                        seen[x.id] += 1
    if seen != want:
        raise Untranslatable('count_fragments_binned: assignments to %r' % seen)
    fetch = [n for n in ast.walk(fn) if isinstance(n, ast.Call) and isinstance(n.func, ast.Attribute) and n.func.attr == 'fetch']
    if len(fetch) != 1 or sorted((k.arg, ast.unparse(k.value)) for k in fetch[0].keywords) != \
            [('contig', 'contig'), ('start', 'f_start'), ('stop', 'f_end')] or fetch[0].args:
        raise Untranslatable('count_fragments_binned: fetch call changed')


def translate_regions(path, rel):
    """D15: region widening in get_binned_counts and the ownership test of _generate_count_dict"""
    out = []
    out.append(py2coq.translate_inline_test(path, 'get_binned_counts', ['max(0', 'start - fs'], {}, 'g_region_start',
                                            '(start fs : Z)', repo_rel=rel, which='assign'))
    out.append(py2coq.translate_inline_test(
        path, '_generate_count_dict', ['cut_pos < start'],
        {'start is not None': 'true', 'stop is not None': 'true'}, 'g_region_skip',
        '(cut_pos start stop : Z)', repo_rel=rel, which='test'))
    out.append(py2coq.translate_inline_test(path, '_generate_count_dict', ['int(cut_pos / bin_size)'], {}, 'g_region_bin',
                                            '(cut_pos bin_size : Z)', repo_rel=rel, which='assign'))
    # the sibling with the same pattern: get_binned_counts_prefixed / _generate_count_dict_prefixed (two widening
    # assignments, one per region-tuple shape: both must be the same expression)
    src = open(path).read()
    fn = py2coq.find_function(ast.parse(src), 'get_binned_counts_prefixed')
    wid = [n for n in ast.walk(fn) if isinstance(n, ast.Assign) and len(n.targets) == 1 and ast.unparse(n.targets[0]) == 'start'
           and not isinstance(n.value, ast.Constant)]
    if len(wid) != 2 or ast.unparse(wid[0].value) != ast.unparse(wid[1].value):
        raise Untranslatable('get_binned_counts_prefixed: expected the same region-start widening in both tuple branches, found %r'
                             % [ast.unparse(n.value) for n in wid])
    free = {n.id for n in ast.walk(wid[0].value) if isinstance(n, ast.Name)} - {'max', 'min', 'int', 'abs'}
    if not free <= {'start', 'fs'}:
        raise Untranslatable('get_binned_counts_prefixed: widening mentions %r' % sorted(free))
    out.append(_chunk(rel, wid[0].value, src, 'g_pregion_start', '(start fs : Z)', py2coq.ExprTranslator().z(wid[0].value)))
    out.append(py2coq.translate_inline_test(
        path, '_generate_count_dict_prefixed', ['cut_pos < start'],
        {'start is not None': 'true', 'stop is not None': 'true'}, 'g_pregion_skip',
        '(cut_pos start stop : Z)', repo_rel=rel, which='test'))
    out.append(py2coq.translate_inline_test(path, '_generate_count_dict_prefixed', ['int(cut_pos / bin_size)'], {}, 'g_pregion_bin',
                                            '(cut_pos bin_size : Z)', repo_rel=rel, which='assign'))
    return out


def _top_index(loop, node):
    """index of the top-level statement of `loop`'s body that contains `node` (None when outside)"""
    for i, st in enumerate(loop.body):
        if any(x is node for x in ast.walk(st)):
            return i
    return None


def translate_methylation(path, rel, defaults):
    """count_methylation_binned: fetch window, ownership test of every aligned position, the dyad shift, the bin
    expressions and the read filter - each located BY ROLE (fail closed):
      for ... in enumerate(alignments.fetch(contig=contig, start=f_start, stop=f_end)):
          if not read_counts(read, min_mq=min_mq, dedup=dedup, verbose=False): continue
          for i, (qpos, site) in enumerate(read.get_aligned_pairs(matches_only=True)):
              if <ownership test over site, start, end>: continue          <- first use of `site`
              ... if read.is_reverse and dyad_mode: site += 1 ...          <- after the ownership test
              if single_location: ... else: bin_i = ..; bin_start = ..; bin_end = ..   <- after the shift
              ... met_counts[sample, bin_id][final_call] += 1"""
    F = 'count_methylation_binned'
    src = open(path).read()
    fn = py2coq.find_function(ast.parse(src), F)
    out = [translate_assign(path, rel, F, 'f_start', 'g_m_f_start', ['start', 'max_fragment_size']),
           translate_assign(path, rel, F, 'f_end', 'g_m_f_end', ['end', 'max_fragment_size', 'contig_size'])]
    fetch = [n for n in ast.walk(fn) if isinstance(n, ast.Call) and isinstance(n.func, ast.Attribute) and n.func.attr == 'fetch'
             and any(k.arg == 'stop' for k in n.keywords)]
    if len(fetch) != 1 or fetch[0].args or sorted((k.arg, ast.unparse(k.value)) for k in fetch[0].keywords) != \
            [('contig', 'contig'), ('start', 'f_start'), ('stop', 'f_end')]:
        raise Untranslatable('%s: the alignment fetch call changed' % F)
    loops = [n for n in ast.walk(fn) if isinstance(n, ast.For) and 'get_aligned_pairs' in ast.unparse(n.iter)]
    if len(loops) != 1:
        raise Untranslatable('%s: expected exactly one loop over get_aligned_pairs, found %d' % (F, len(loops)))
    loop = loops[0]
    if ast.unparse(loop.target) != '(i, (qpos, site))' or \
            ast.unparse(loop.iter) != 'enumerate(read.get_aligned_pairs(matches_only=True))' or loop.orelse:
        raise Untranslatable('%s: the aligned-pairs loop changed: for %s in %s' % (F, ast.unparse(loop.target), ast.unparse(loop.iter)))
    # ownership test: top-level statement of the pair loop
    owner = [st for st in loop.body if isinstance(st, ast.If) and len(st.body) == 1 and isinstance(st.body[0], ast.Continue)
             and not st.orelse and 'site' in {x.id for x in ast.walk(st.test) if isinstance(x, ast.Name)}
             and {x.id for x in ast.walk(st.test) if isinstance(x, ast.Name)} <= {'site', 'start', 'end'}]
    if len(owner) != 1:
        raise Untranslatable('%s: expected exactly one `if <site/start/end test>: continue` in the aligned-pairs loop, found %d' % (F, len(owner)))
    i_own = loop.body.index(owner[0])
    for st in loop.body[:i_own]:
        if any(isinstance(x, ast.Name) and x.id == 'site' for x in ast.walk(st)):
            raise Untranslatable('%s: `site` is used before the ownership test' % F)
    out.append(_chunk(rel, owner[0].test, src, 'g_m_not_owned', '(site start end_ : Z)', py2coq.ExprTranslator().b(owner[0].test)))
    # every other write to `site` inside the pair loop: exactly the dyad shift, after the ownership test
    writes = [n for n in ast.walk(loop) if isinstance(n, (ast.Assign, ast.AugAssign, ast.AnnAssign))
              and any(isinstance(x, ast.Name) and x.id == 'site'
                      for t in (n.targets if isinstance(n, ast.Assign) else [n.target]) for x in ast.walk(t))]
    alt = [n for n in writes if isinstance(n, ast.Assign) and 'obtain_approximate_reference_cut_position' in ast.unparse(n.value)]
    writes = [n for n in writes if n not in alt]
    if len(writes) != 1 or not isinstance(writes[0], ast.AugAssign) or not isinstance(writes[0].op, (ast.Add, ast.Sub)):
        raise Untranslatable('%s: expected exactly one `site += <n>` (dyad shift) in the aligned-pairs loop, found %d writes' % (F, len(writes)))
    aug = writes[0]
    guards = [n for n in ast.walk(loop) if isinstance(n, ast.If) and len(n.body) == 1 and n.body[0] is aug and not n.orelse]
    if len(guards) != 1:
        raise Untranslatable('%s: the dyad shift is not the whole body of one `if`' % F)
    i_dyad = _top_index(loop, aug)
    if i_dyad is None or i_dyad <= i_own:
        raise Untranslatable('%s: the dyad shift is not after the ownership test' % F)
    tr = py2coq.ExprTranslator(env={'read.is_reverse': 'is_reverse', 'dyad_mode': 'dyad_mode'})
    free = {x.id for x in ast.walk(guards[0].test) if isinstance(x, ast.Name)}
    if not free <= {'read', 'dyad_mode'}:
        raise Untranslatable('%s: the dyad guard mentions %r' % (F, sorted(free)))
    shifted = ast.parse('site %s (%s)' % ('+' if isinstance(aug.op, ast.Add) else '-', ast.unparse(aug.value)), mode='eval').body
    if {x.id for x in ast.walk(aug.value) if isinstance(x, ast.Name)}:
        raise Untranslatable('%s: the dyad shift amount is not a constant' % F)
    out.append(_chunk(rel, guards[0], src, 'g_m_dyad_site', '(site : Z) (is_reverse dyad_mode : bool)',
                      '(if %s then %s else site)' % (tr.b(guards[0].test), py2coq.ExprTranslator().z(shifted))))
    # bins: the `if single_location: .. else: bin_i / bin_start / bin_end` that is a top-level statement of the pair loop
    sl = [st for st in loop.body if isinstance(st, ast.If) and ast.unparse(st.test) == 'single_location']
    if len(sl) != 1 or loop.body.index(sl[0]) <= i_dyad:
        raise Untranslatable('%s: expected one `if single_location:` after the dyad shift in the aligned-pairs loop' % F)
    names = [(ast.unparse(st.targets[0]) if isinstance(st, ast.Assign) and len(st.targets) == 1 else None) for st in sl[0].orelse]
    if names != ['bin_i', 'bin_start', 'bin_end']:
        raise Untranslatable('%s: the binned branch assigns %r' % (F, names))
    for st, (coqname, params) in zip(sl[0].orelse, (('g_m_bin_i', ['site', 'bin_size']), ('g_m_bin_start', ['bin_size', 'bin_i']),
                                                    ('g_m_bin_end', ['bin_size', 'bin_i', 'contig_size']))):
        free = {n.id for n in ast.walk(st.value) if isinstance(n, ast.Name)} - {'max', 'min', 'int', 'abs'}
        if not free <= set(params):
            raise Untranslatable('%s: %s mentions %r' % (F, ast.unparse(st), sorted(free - set(params))))
        out.append(_chunk(rel, st.value, src, coqname, '(%s : Z)' % ' '.join(py2coq.mangle(x) for x in params),
                          py2coq.ExprTranslator().z(st.value)))
    i_sl = loop.body.index(sl[0])
    later = [n for st in loop.body[i_sl + 1:] for n in ast.walk(st)
             if isinstance(n, (ast.Assign, ast.AugAssign)) and any(isinstance(x, ast.Name) and x.id in ('bin_start', 'bin_end', 'site')
                                                                   for t in (n.targets if isinstance(n, ast.Assign) else [n.target])
                                                                   for x in ast.walk(t))]
    if later:
        raise Untranslatable('%s: bin_start / bin_end / site are written again after the bin computation' % F)
    inc = [n for st in loop.body[i_sl + 1:] for n in ast.walk(st) if isinstance(n, ast.AugAssign)
           and ast.unparse(n).replace(' ', '') == 'met_counts[sample,bin_id][final_call]+=1']
    if len(inc) != 1:
        raise Untranslatable('%s: `met_counts[sample, bin_id][final_call] += 1` not found after the bin computation' % F)
    out.append(translate_filter_call(path, rel, defaults, func=F, coqname='g_m_filter'))
    return out


# ----------------------------------------------------------------------------- K
SAMPLES = [None, 'c1', 'c2', 'c3', 'bulk']
SAMPLE_ID = {None: 0, 'bulk': 0, 'c1': 1, 'c2': 2, 'c3': 3}
DA_ID = {None: 1, 'a': 2, 'b': 3}
MP_ID = {None: 0, 'unique': 1, 'multi': 2}


def span_of(r):
    return r['span'] if (r.get('span') and r['span'] > r['len'] and r['len'] >= 2) else r['len']


def py_passes(r, run):
    """the filter as the property statement words it: read-1, not rejected (qcfail), not duplicate (when
    deduplicating), not marked non-uniquely mappable (unless ignored), mapping quality >= threshold"""
    f = r['flag']
    return bool(f & 64) and not (f & 512) and not (run['dedup'] and (f & 1024)) and \
        (bool(run['ignore_mp']) or r.get('mp') in (None, 'unique')) and \
        (run['min_mq'] is None or r['mq'] >= run['min_mq'])


def py_site(r):
    return r['ds'] if r.get('ds') is not None else r['pos']


def py_regular(r, run, length):
    if not py_passes(r, run):
        return True
    s, lo, hi = py_site(r), r['pos'], r['pos'] + span_of(r)
    return 0 <= s < length and lo <= s + run['mfs'] and s - run['mfs'] < hi and 0 <= lo < length and lo < hi


def py_pre(lib, run):
    return run['b'] > 0 and run['k'] > 0 and run['mfs'] >= 0 and \
        all(py_regular(r, run, lib['contigs'][r['c']][1]) for r in lib['reads'])


def py_spec(lib, run):
    """declarative matrix: {(key, contig, bin_start, bin_end, sample): n} - python transcription of [decl]"""
    out = {}
    b = run['b']
    for r in lib['reads']:
        if not py_passes(r, run):
            continue
        s = py_site(r)
        length = lib['contigs'][r['c']][1]
        cell = (DA_ID[r.get('da')] if run['key_tags'] else 0, r['c'] + 1, b * (s // b), min(b * (s // b + 1), length),
                SAMPLE_ID[r.get('sm')])
        out[cell] = out.get(cell, 0) + 1
    return out


def canon_cells(lib, run, cells):
    """implementation cells -> {(key id, contig id, bs, be, sample id): n}; None when a name is unknown"""
    names = {n: i + 1 for i, (n, _) in enumerate(lib['contigs'])}
    out = {}
    for key, contig, bs, be, s, n in cells:
        kid = 0 if key is None else (DA_ID.get(key[0], -1) if len(key) == 1 else -1)
        cell = (kid, names.get(contig, -1), bs, be, SAMPLE_ID.get(s, -1))
        if cell in out:
            return None
        out[cell] = n
    return out


def enc_read(r, run):
    return [r['pos'], r['pos'] + span_of(r), [] if r.get('ds') is None else [r['ds']],
            1 if r['flag'] & 64 else 0, 1 if r['flag'] & 512 else 0, 1 if r['flag'] & 1024 else 0,
            MP_ID[r.get('mp')], r['mq'], SAMPLE_ID[r.get('sm')], DA_ID[r.get('da')] if run['key_tags'] else 0]


def enc_input(lib, run, njobs):
    cfg = [run['b'], run['k'], run['mfs'], [] if run['min_mq'] is None else [run['min_mq']],
           1 if run['dedup'] else 0, 1 if run['ignore_mp'] else 0]
    genome = []
    for ci, (name, length) in enumerate(lib['contigs']):
        rs = sorted(((r['pos'], i) for i, r in enumerate(lib['reads']) if r['c'] == ci))
        genome.append([ci + 1, length, [enc_read(lib['reads'][i], run) for _, i in rs]])
    sched = run['sched'] if run.get('sched') is not None else list(range(njobs))
    return [cfg, genome, sched]


# ---- extension (b): count_methylation_binned
M_SAMPLE_ID = {None: 0, 'bulk_sample': 0, 'c1': 1, 'c2': 2, 'c3': 3}
STRAND_ID = {None: 0, '+': 1, '-': 2}
XM_CODE = {'Z': 1, 'z': 2}


def m_positions(r):
    """reference positions of get_aligned_pairs(matches_only=True) for the CIGARs make_bam writes (M or M N M)"""
    L, span = r['len'], span_of(r)
    if span > L:
        h = L // 2
        return list(range(r['pos'], r['pos'] + h)) + list(range(r['pos'] + h + (span - L), r['pos'] + span))
    return list(range(r['pos'], r['pos'] + L))


def m_passes_py(r, run):
    f = r['flag']
    return not (f & 512) and not (run['dedup'] and (f & 1024)) and r.get('mp') in (None, 'unique') and \
        (run['min_mq'] is None or r['mq'] >= run['min_mq'])


def py_mpre(lib, run):
    return run['b'] > 0 and run['k'] > 0 and run['mfs'] >= 0 and not run['dyad']


def py_mspec(lib, run):
    """declarative methylation matrix {(sample, strand, contig, bin_start, bin_end): [n_z, n_Z]} - python transcription
    of [m_decl] (no dyad shift)"""
    out = {}
    b = run['b']
    for r in lib['reads']:
        if not m_passes_py(r, run):
            continue
        length = lib['contigs'][r['c']][1]
        for pos, ch in zip(m_positions(r), r['xm']):
            if ch not in 'Zz':
                continue
            strand = (2 if r['flag'] & 16 else 1) if run['stranded'] else 0
            cell = (M_SAMPLE_ID[r.get('sm')], strand, r['c'] + 1, b * (pos // b), min(b * (pos // b + 1), length))
            v = out.setdefault(cell, [0, 0])
            v[1 if ch == 'Z' else 0] += 1
    return {k: tuple(v) for k, v in out.items()}


def canon_mcells(lib, cells):
    names = {n: i + 1 for i, (n, _) in enumerate(lib['contigs'])}
    out = {}
    for sample, strand, contig, bs, be, u, v in cells:
        cell = (M_SAMPLE_ID.get(sample, -1), STRAND_ID.get(strand, -1), names.get(contig, -1), bs, be)
        if cell in out:
            return None
        out[cell] = (u, v)
    return out


def enc_minput(lib, run, njobs):
    cfg = [[run['b'], run['k'], run['mfs'], [] if run['min_mq'] is None else [run['min_mq']], 1 if run['dedup'] else 0, 0],
           1 if run['dyad'] else 0, 1 if run['stranded'] else 0]
    genome = []
    for ci, (name, length) in enumerate(lib['contigs']):
        rs = sorted(((r['pos'], i) for i, r in enumerate(lib['reads']) if r['c'] == ci))
        recs = []
        for _, i in rs:
            r = lib['reads'][i]
            f = r['flag']
            recs.append([r['pos'], r['pos'] + span_of(r), 1 if f & 64 else 0, 1 if f & 512 else 0, 1 if f & 1024 else 0,
                         MP_ID[r.get('mp')], r['mq'], M_SAMPLE_ID[r.get('sm')], 1 if f & 16 else 0,
                         [[pos, XM_CODE.get(ch, 0 if ch == '.' else 3)] for pos, ch in zip(m_positions(r), r['xm'])]])
        genome.append([ci + 1, length, recs])
    sched = run['sched'] if run.get('sched') is not None else list(range(njobs))
    return [cfg, genome, sched]


def m_njobs(lib, run):
    return sum(-(-l // (run['b'] * run['k'])) for _, l in lib['contigs'])


class Prop(fw.PropBase):
    ID = 'C12'
    PROPS = 'Props/C12.v'
    TRUSTED = [
        'modelled not verified: pysam/htslib AlignmentFile.fetch(contig, start, stop) returns exactly the records whose '
        'aligned span overlaps [start, stop) (model: r_lo < stop and start < r_hi), in file order; tag / flag accessors; '
        'multiprocessing.Pool.imap_unordered yields every job result exactly once in SOME order (the theorems quantify over '
        'all permutations); get_contig_sizes returns the @SQ names and lengths of the header (names distinct)',
        'hand-written (tied by K, not by T): the loop of count_fragments_binned around the generated expressions, the nested '
        'dict accumulation, the site extraction int(DS) with reference_start fallback, the SM fallback "bulk", the update-merge '
        'of obtain_counts, Python range(lo, hi, step)',
        'py2coq idiom int(a / b) -> Z.quot: assumes the IEEE quotient of two integers below 2^52 truncates to the exact quotient',
        'custom AST matchers in tools/c12.py for the nested generator of generate_jobs and the rejection chain of read_counts '
        '(fail closed)',
        'extension, regions (hand-written, tied by K): one job per user region, pysam fetch overlap with [widened start, stop), the '
        'Counter addition of the job results (modelled as a multiset count), the record filter of _generate_count_dict and '
        'mate_iter (K uses unpaired passing records; a paired read-1 without proper-pair flag is yielded twice by mate_iter - not '
        'modelled); fs = 1000 is a literal of the harness; regenerated: region start widening, ownership test, bin expression',
        'extension, methylation (hand-written, tied by K): the read loop / aligned-pairs loop of count_methylation_binned around the '
        'generated expressions (fetch window, ownership test, dyad shift and its place after the test, bin expressions, filter call), '
        'get_aligned_pairs(matches_only=True) paired with XM by index (input of the model), the Z/z classification, the key tuple, '
        'MethylationCountMatrix.__getitem__/update modelled as ONE finite map keyed by (sample, location) (iteration order not '
        'modelled), the caller get_methylation_count_matrix; AST matcher translate_methylation (role checks, fail closed)',
    ]
    ASSUMPTIONS = [
        'H1 (visible in the theorems): every record that passes the filter has 0 <= site < contig length; a negative site is '
        'never counted, a site >= contig length is counted or not depending on bins_per_job (C12_site_beyond_contig_refuted)',
        'H2 (visible): the site of every passing record is within max_fragment_size of its aligned span; otherwise the owning '
        'job does not fetch the record and the result depends on bins_per_job (C12_far_site_refuted)',
        'bin_size > 0, bins_per_job > 0, max_fragment_size >= 0; records are mapped (0 <= reference_start < contig length, '
        'reference_start < reference_end); one alignment file; alt_spans=None; head=None; skip_contigs=None; kwargs is a dict '
        '(the default kwargs=None of generate_commands makes count_fragments_binned raise AttributeError)',
        'methylation theorems: dyad_mode off (visible hypothesis; with it the matrix depends on bins_per_job and completion order: '
        'C12_meth_dyad_refuted, reproduced on the code, suggestion fixes/C12-D37), single_location off (bin_size != 1), '
        'contexts_to_capture / known / maxtime / key_tags / alt_spans None, count_reads not compared, min_samples=0 and '
        'min_variance=None (no pruning), XM present with one letter per aligned base, records inside their contig',
        'region theorems are about the code AS IT IS (closed widened windows); the statement of the property is refuted on that path '
        '(known finding D15)',
    ]

    def regen(self):
        try:
            return regen_bincount()
        except BaseException:
            # fail closed: never prove / run against definitions generated from an older source
            for ext in ('.v', '.vo', '.vos', '.vok', '.glob'):
                try:
                    os.remove(os.path.join(fw.COQ, 'Gen', 'GenBinCount' + ext))
                except OSError:
                    pass
            raise

    # ---------------------------------------------------------------- generators
    def gen_lib(self, wild):
        rng = self.rng
        b = rng.choice([1, 2, 3, 5, 10, 10, 30, 100])
        ncont = rng.choice([1, 2, 2, 3])
        lens = [rng.choice([b * 7, b * 7 + rng.randint(1, max(1, b - 1)), 95, 40, b * 12, b, max(1, b - 1), b + 1, 1,
                            rng.randint(1, 400)]) for _ in range(ncont)]
        contigs = [['chr%d' % (i + 1), l] for i, l in enumerate(lens)]
        dmax = rng.choice([0, 0, 3, 25, 200])
        keyed = rng.random() < 0.4
        K = rng.choice([2, 3, 4])
        reads = []
        for _ in range(rng.randint(4, 45 if self.tier == 'quick' else 90)):
            c = rng.randrange(ncont)
            L = lens[c]
            rl = rng.randint(1, 20)
            pos = rng.randint(0, L - 1)
            rl = min(rl, L - pos)
            span = rl
            if rl >= 2 and rng.random() < 0.2:
                span = min(L - pos, rl + rng.randint(1, 150))
            W = b * rng.randint(1, K)
            m = rng.randint(0, max(0, L // W))
            lo, hi = pos, pos + (span if span > rl else rl)
            if wild and rng.random() < 0.5:
                ds = rng.choice([-1, -rng.randint(1, 50), L, L + 1, L + rng.randint(1, 3 * W + 3), rng.randint(-5, L + 5),
                                 m * W, m * W - 1])
            else:
                cand = [m * W, m * W - 1, m * W + 1, lo, hi - 1, hi, lo - dmax, hi - 1 + dmax, rng.randint(lo - dmax, hi - 1 + dmax),
                        (pos // b) * b, (pos // b) * b + b - 1, L - 1, 0]
                cand = [x for x in cand if 0 <= x < L and lo - dmax <= x <= hi - 1 + dmax]
                ds = rng.choice(cand) if cand else pos
                if rng.random() < 0.12:
                    ds = None
            flag = rng.choice([65, 65, 65, 65, 64, 129, 0, 65 | 16, 65 | 256, 65 | 2048])
            if rng.random() < 0.12:
                flag |= 1024
            if rng.random() < 0.08:
                flag |= 512
            reads.append({'c': c, 'pos': pos, 'len': rl, 'span': span, 'flag': flag, 'ds': ds,
                          'mq': rng.choice([0, 20, 29, 30, 49, 50, 60, 60, 60]), 'sm': rng.choice(SAMPLES),
                          'mp': rng.choice([None, None, 'unique', 'unique', 'multi']),
                          'da': rng.choice([None, 'a', 'b']) if keyed else None})
        runs = []
        base = {'b': b, 'min_mq': rng.choice([None, 0, 30, 50, 50]), 'dedup': rng.random() < 0.8,
                'ignore_mp': rng.choice([False, False, True, None]), 'key_tags': keyed}
        kmax = 6 if self.tier == 'quick' else 12
        ks = list(range(1, kmax + 1)) + [rng.choice([50, 1000])]
        for k in ks:
            run = dict(base, k=k, mfs=(rng.choice([0, 1, 7, 1000]) if wild else rng.choice([dmax, dmax + 1, 2 * dmax + 5, 1000])))
            mode = rng.choice(['pool', 'fake', 'fake', 'fake'])
            if mode == 'pool':
                run.update(threads=rng.randint(1, 4), sched=None)
            else:
                njobs = sum(-(-l // (b * k)) for l in lens)
                order = list(range(njobs))
                how = rng.choice(['rev', 'shuffle', 'shuffle', 'id'])
                if how == 'rev':
                    order.reverse()
                elif how == 'shuffle':
                    rng.shuffle(order)
                run.update(threads=1, sched=order)
            runs.append(run)
        return {'contigs': contigs, 'reads': reads, 'runs': runs, 'wild': wild}

    def sweep_libs(self):
        """small exhaustive scopes: one record per site of a short contig (every site, every bins_per_job up to
        one job per contig and beyond), once with the site inside a 1-base record and once at the far end of a
        4-base record"""
        quick = self.tier == 'quick'
        out = []
        for b, L in ([(1, 7), (3, 10), (5, 12)] if quick else [(b, L) for b in (1, 2, 3, 5) for L in (b * 3, b * 3 + 1, 7, 10, 12)]):
            for far in (False, True):
                reads = []
                for s in range(L):
                    pos = max(0, s - 3) if far else s
                    reads.append({'c': 0, 'pos': pos, 'len': (s - pos + 1), 'span': (s - pos + 1), 'flag': 65, 'ds': s, 'mq': 60,
                                  'sm': ['c1', 'c2', 'c3'][s % 3], 'mp': None, 'da': None})
                runs = []
                for k in range(1, L // b + 3):
                    njobs = -(-L // (b * k))
                    order = list(range(njobs))
                    if k % 2:
                        order.reverse()
                    runs.append({'b': b, 'k': k, 'mfs': 0, 'threads': 1, 'min_mq': 50, 'dedup': True, 'ignore_mp': False,
                                 'key_tags': False, 'sched': order if k % 3 else None})
                out.append({'contigs': [['chr1', L]], 'reads': reads, 'runs': runs, 'wild': False, 'sweep': True})
        return out

    def resched(self, lib, run):
        """a run of `lib` with a schedule that fits the job count of lib's contigs"""
        rng = self.rng
        run = dict(run)
        if rng.random() < 0.35 or run['b'] * run['k'] <= 0:
            run.update(threads=rng.randint(1, 4), sched=None)
        else:
            njobs = sum(-(-l // (run['b'] * run['k'])) for _, l in lib['contigs'])
            order = list(range(njobs))
            rng.shuffle(order)
            run.update(threads=1, sched=order)
        return run

    def variant(self, lib):
        """the BAM a re-run pipeline step would write to the same path: longer contig / extra contig / contig removed"""
        rng = self.rng
        contigs = [list(c) for c in lib['contigs']]
        reads = [dict(r) for r in lib['reads']]

        def more(ci, lo, hi):
            for _ in range(rng.randint(3, 8)):
                pos = rng.randint(lo, hi - 1)
                rl = rng.randint(1, min(10, contigs[ci][1] - pos))
                reads.append({'c': ci, 'pos': pos, 'len': rl, 'span': rl, 'flag': 65, 'ds': rng.choice([pos, pos + rl - 1, None]),
                              'mq': 60, 'sm': rng.choice(['c1', 'c2', 'c3']), 'mp': None, 'da': None})
        how = rng.choice(['longer', 'longer', 'extra', 'extra', 'drop'])
        if how == 'drop' and len(contigs) < 2:
            how = 'longer'
        if how == 'longer':
            ci = rng.randrange(len(contigs))
            L = contigs[ci][1]
            contigs[ci][1] = L + rng.choice([1, 7, L, 3 * L + 5, 250])
            more(ci, L, contigs[ci][1])
        elif how == 'extra':
            contigs.append(['chr%d' % (len(contigs) + 1), rng.choice([1, 30, 95, 300])])
            more(len(contigs) - 1, 0, contigs[-1][1])
        else:
            contigs.pop()
            reads = [r for r in reads if r['c'] < len(contigs)]
        return {'contigs': contigs, 'reads': reads, 'runs': lib['runs'], 'wild': lib.get('wild', False)}

    def gen_history(self):
        """one path: count (two bins_per_job), count again without rewriting, rewrite with other contigs, count, ..."""
        rng = self.rng
        cur = self.gen_lib(wild=False)
        first = cur
        hist = []
        for stepno in range(rng.randint(3, 5)):
            rewrite = True
            if stepno > 0:
                what = rng.choice(['same', 'variant', 'variant', 'variant', 'fresh', 'back'])
                if what == 'same':
                    rewrite = False
                elif what == 'variant':
                    cur = self.variant(cur)
                elif what == 'fresh':
                    cur = self.gen_lib(wild=False)
                else:
                    cur = first
            runs = []
            for r in rng.sample(cur['runs'], 2):
                # the calls of one history differ in the parameters that change the correct KEY SET (bin size, filter,
                # key tags), so anything carried over from an earlier call shows up as a stale / missing entry
                r = dict(r, b=rng.choice([r['b'], r['b'], 2 * r['b'], 3 * r['b'] + 1, max(1, r['b'] // 2), 7]),
                         min_mq=rng.choice([r['min_mq'], None, 0, 30, 50, 61]), dedup=rng.choice([r['dedup'], True, False]),
                         ignore_mp=rng.choice([r['ignore_mp'], True, False]), key_tags=rng.choice([r['key_tags'], True, False]),
                         mfs=rng.choice([r['mfs'], r['mfs'] + 7, 1000]), k=rng.choice([r['k'], 1, 2, 3, 7]))
                runs.append(self.resched(cur, r))
            hist.append({'contigs': cur['contigs'], 'reads': cur['reads'], 'runs': runs, 'rewrite': rewrite, 'wild': False})
        return hist


    def gen_meth_lib(self):
        rng = self.rng
        b = rng.choice([2, 3, 5, 10, 10, 30])
        ncont = rng.choice([1, 1, 2])
        lens = [rng.choice([b * 6, b * 6 + rng.randint(1, b - 1), b * 4, 40, 95, b, b + 1, rng.randint(2, 200)]) for _ in range(ncont)]
        contigs = [['chr%d' % (i + 1), l] for i, l in enumerate(lens)]
        K = rng.choice([1, 2, 3])
        reads = []
        for _ in range(rng.randint(3, 18 if self.tier == 'quick' else 40)):
            c = rng.randrange(ncont)
            L = lens[c]
            W = b * rng.randint(1, K)
            m = rng.randint(0, max(0, L // W))
            rl = rng.randint(1, 12)
            # most records straddle or touch a job boundary
            pos = rng.choice([m * W - rng.randint(0, rl), m * W, m * W - 1, m * W - rl, rng.randint(0, L - 1), 0, L - rl])
            pos = max(0, min(L - 1, pos))
            rl = max(1, min(rl, L - pos))
            span = rl
            if rl >= 2 and rng.random() < 0.2:
                span = min(L - pos, rl + rng.randint(1, 3 * b))
            flag = rng.choice([65, 65, 65 | 16, 65 | 16, 129, 129 | 16, 0, 16, 65 | 256, 65 | 2048])
            if rng.random() < 0.1:
                flag |= 1024
            if rng.random() < 0.07:
                flag |= 512
            xm = ''.join(rng.choice('ZZzz..xhXHuU') if rng.random() < 0.8 else rng.choice('Zz') for _ in range(rl))
            reads.append({'c': c, 'pos': pos, 'len': rl, 'span': span, 'flag': flag, 'ds': None, 'xm': xm,
                          'mq': rng.choice([0, 29, 30, 50, 60, 60, 60]), 'sm': rng.choice([None, 'c1', 'c2', 'c3']),
                          'mp': rng.choice([None, None, 'unique', 'multi']), 'da': None})
        runs = []
        base = {'b': b, 'min_mq': rng.choice([None, 0, 30, 50]), 'stranded': rng.random() < 0.4}
        for k in [1, 2, 3, 4, rng.choice([5, 7, 50])]:
            via = rng.choice(['jobs', 'jobs', 'caller'])
            run = dict(base, k=k, via=via, dyad=rng.random() < 0.2,
                       mfs=0 if via == 'caller' else rng.choice([0, 0, 1, 7, 1000]),
                       dedup=True if via == 'caller' else rng.random() < 0.8, threads=1, sched=None)
            order = list(range(m_njobs({'contigs': contigs}, run)))
            how = rng.choice(['rev', 'shuffle', 'shuffle', 'id', 'pool'] if via == 'caller' else ['rev', 'shuffle', 'shuffle', 'id'])
            if how == 'rev':
                order.reverse()
            elif how == 'shuffle':
                rng.shuffle(order)
            if how == 'pool':
                # a real pool completes in an order the harness does not control: only inside the hypotheses of the theorems
                # (with the dyad shift the matrix depends on the completion order - C12_meth_dyad_refuted)
                run.update(threads=rng.randint(2, 3), sched=None, dyad=False)
            elif via == 'caller' and how == 'id':
                run.update(threads=1, sched=None)          # the caller's serial branch (generation order)
            else:
                # the caller consults its pool only when threads != 1; the stand-in pool then completes in `order`
                run.update(sched=order, threads=2 if via == 'caller' else 1)
            runs.append(run)
        return {'contigs': contigs, 'reads': reads, 'runs': runs}

    def meth_sweep(self):
        """one Z call on every position of a short contig (forward and reverse records), every bins_per_job"""
        out = []
        for b, L in ([(3, 10)] if self.tier == 'quick' else [(2, 7), (3, 10), (5, 12)]):
            reads = []
            for s in range(L):
                pos = max(0, s - 2)
                reads.append({'c': 0, 'pos': pos, 'len': s - pos + 1, 'span': s - pos + 1, 'flag': 65 | (16 if s % 2 else 0), 'ds': None,
                              'xm': '.' * (s - pos) + 'Zz'[s % 2], 'mq': 60, 'sm': ['c1', 'c2'][s % 2], 'mp': None, 'da': None})
            runs = []
            for k in range(1, L // b + 3):
                order = list(range(-(-L // (b * k))))
                if k % 2:
                    order.reverse()
                runs.append({'b': b, 'k': k, 'mfs': 0, 'threads': 1, 'min_mq': 50, 'dedup': True, 'dyad': False, 'stranded': bool(k % 2),
                             'via': 'jobs', 'sched': order})
            out.append({'contigs': [['chr1', L]], 'reads': reads, 'runs': runs, 'sweep': True})
        return out

    def gen_regions2(self):
        """user region lists of every relative position (overlapping, adjacent, closer / farther than 1000, repeated, unsorted)
        with sites on every edge of every window"""
        rng = self.rng
        L = rng.choice([6000, 9000])
        grid = [0, 500, 1000, 1500, 2000, 2500, 3001, 3500, 4000, 5000, 5001, L - 1000, L - 1]
        regs = []
        for _ in range(rng.choice([1, 2, 2, 3, 3, 4])):
            a, z = sorted(rng.sample(grid, 2))
            regs.append([a, z])
        how = rng.random()
        if how < 0.25 and len(regs) >= 2:
            regs[1][0] = regs[0][1]                                  # adjacent
            regs[1][1] = max(regs[1][1], regs[1][0] + 500)
        elif how < 0.45 and len(regs) >= 2:
            regs[1][0] = regs[0][1] + rng.choice([999, 1000, 1001, 1, 1500])     # a gap around the margin
            regs[1][1] = regs[1][0] + rng.choice([10, 700])
        elif how < 0.55:
            regs.append(list(regs[0]))                               # the same region twice
        elif how < 0.8:
            regs, at = [], rng.choice([0, 300, 1200])                # pairwise farther apart than the margin
            for _ in range(rng.choice([2, 3])):
                z = at + rng.choice([200, 900])
                regs.append([at, z])
                at = z + rng.choice([1001, 1001, 1300, 2000])
            rng.shuffle(regs)
        regs = [[a, min(z, L - 1)] for a, z in regs if a < min(z, L - 1)]
        if not regs:
            regs = [[1000, 2000]]
        sites = set()
        for a, z in regs:
            sites.update([a - 1001, a - 1000, a - 999, a - 1, a, a + 1, z - 1, z, z + 1])
        sites.update(rng.randint(2, L - 4) for _ in range(6))
        reads = []
        for sx in sorted(x for x in sites if 2 <= x <= L - 4):
            lo = sx - rng.choice([0, 0, 1, 2])
            reads.append([lo, lo + 3, sx])
        return {'len': L, 'bin': rng.choice([1, 1, 100, 1000]), 'regions': regs, 'reads': reads, 'ext': True}

    def gen_all(self):
        quick = self.tier == 'quick'
        rng = self.rng
        libs = [self.gen_lib(wild=(i % 4 == 3)) for i in range(70 if quick else 1500)]
        libs += self.sweep_libs()
        # degenerate configurations (outside the precondition; model and code must still agree)
        odd = self.gen_lib(wild=False)
        odd['runs'] = [dict(odd['runs'][0], b=bb, k=kk, threads=1, sched=None)
                       for bb, kk in ((0, 1), (1, 0), (-5, -1), (-5, 2), (7, -1))]
        libs.append(odd)
        jobs = []
        for b in range(1, 9 if quick else 16):
            for k in range(1, 6 if quick else 10):
                for L in list(range(0, 3 * b * k + 3)) if b * k <= 12 else [b * k - 1, b * k, b * k + 1, 2 * b * k, 3 * b * k + 1]:
                    jobs.append([[L], b, k])
        for _ in range(200 if quick else 3000):
            b = rng.choice([1, 3, 10, 1000, 10 ** 6, rng.randint(1, 10 ** 7)])
            k = rng.choice([1, 2, 5, 10, rng.randint(1, 50)])
            m = rng.randint(0, 40)
            jobs.append([[rng.choice([m * b * k, m * b * k + 1, max(0, m * b * k - 1), rng.randint(0, 60 * b * k)])
                          for _ in range(rng.randint(1, 3))], b, k])
        jobs += [[[50], 0, 3], [[50], 3, 0], [[50], -3, 2], [[50], -3, -2], [[0], 5, 1], [[], 5, 1]]
        filters = [list(t) for t in itertools.product([None, 30], [0, 1], [0, 1], [0, 1], [0, 1], [0, 1], [0, 1], [0, 1],
                                                      [0, 1, 2], [29, 30])]
        merges = []
        for _ in range(150 if quick else 1500):
            res = []
            for _j in range(rng.randint(0, 4)):
                d, seen = [], set()
                for _e in range(rng.randint(0, 3)):
                    q = (rng.randint(0, 1), rng.randint(1, 2), 10 * rng.randint(0, 2), 10 * rng.randint(1, 3))
                    if q in seen:
                        continue
                    seen.add(q)
                    ss = rng.sample([0, 1, 2, 3], rng.randint(1, 3))
                    d.append([list(q), [[s, rng.randint(1, 9)] for s in ss]])
                res.append(d)
            merges.append(res)
        regions = []
        for _ in range(6 if quick else 40):
            L = rng.choice([3000, 5000, 7000])
            cut = rng.choice([1500, 2000, 2500])
            sites = sorted(set([cut, cut - 1, cut + 1, 2, L - 3, max(2, cut - 1000), max(2, cut - 1001)] +
                               [rng.randint(2, L - 3) for _ in range(12)]))
            reads = []
            for s in sites:
                lo = s - rng.randint(0, 2)
                reads.append([lo, lo + 3, s])
            regions.append({'len': L, 'bin': rng.choice([100, 500, 1000]),
                            'regions': rng.choice([None, [[0, cut], [cut, L]], [[cut, L]], [[0, cut]]]), 'reads': reads})
        histories = [self.gen_history() for _ in range(12 if quick else 150)]
        regions += [self.gen_regions2() for _ in range(30 if quick else 400)]
        meth = [self.gen_meth_lib() for _ in range(24 if quick else 500)] + self.meth_sweep()
        mmerges = []
        for _ in range(60 if quick else 600):
            mats = []
            for _j in range(rng.randint(0, 4)):
                seen, mat = set(), []
                for _e in range(rng.randint(0, 3)):
                    key = (rng.randint(0, 2), rng.randint(0, 2), 1, 10 * rng.randint(0, 2), 10 * rng.randint(1, 3))
                    if key in seen:
                        continue
                    seen.add(key)
                    mat.append(list(key) + [rng.randint(0, 4), rng.randint(1, 4)])
                mats.append(mat)
            mmerges.append(mats)
        return {'libs': libs, 'histories': histories, 'jobs': jobs, 'filters': filters, 'merges': merges, 'regions': regions,
                'meth': meth, 'mmerges': mmerges}

    def load_corpus(self):
        d = os.path.join(fw.VERIF, 'corpus', 'C12')
        out = []
        if os.path.isdir(d):
            for f in sorted(os.listdir(d)):
                if f.endswith('.json') and not f.startswith('hist'):
                    out.append(json.load(open(os.path.join(d, f))))
        return out

    def load_corpus_histories(self):
        d = os.path.join(fw.VERIF, 'corpus', 'C12')
        out = []
        if os.path.isdir(d):
            for f in sorted(os.listdir(d)):
                if f.endswith('.json') and f.startswith('hist'):
                    out.append(json.load(open(os.path.join(d, f))))
        return out

    def run_impl_all(self):
        payload = self.gen_all()
        payload['libs'] = self.load_corpus() + payload['libs']
        # split the libraries over a few processes
        from concurrent.futures import ThreadPoolExecutor
        n = 4
        payload['histories'] = self.load_corpus_histories() + payload['histories']
        parts = [dict(libs=payload['libs'][i::n], histories=payload['histories'][i::n]) for i in range(n)]
        parts[0].update({k: payload[k] for k in ('jobs', 'filters', 'merges', 'regions')})
        parts[1].update({k: payload[k] for k in ('meth', 'mmerges')})
        with ThreadPoolExecutor(n) as ex:
            rs = list(ex.map(lambda p: fw.run_impl('impl_c12.py', p), parts))
        res = dict(rs[0])
        res['meth'], res['mmerges'] = rs[1]['meth'], rs[1]['mmerges']
        libs = [None] * len(payload['libs'])
        for i in range(n):
            libs[i::n] = rs[i]['libs']
        res['libs'] = libs
        hs = [None] * len(payload['histories'])
        for i in range(n):
            hs[i::n] = rs[i]['histories']
        res['histories'] = hs
        self.sessions = []
        for i in range(n):
            sess = []
            for lib, lr in zip(parts[i]['libs'], rs[i]['libs']):
                for run, rr in zip(lib['runs'], lr.get('runs', [])):
                    sess.append((lib, run, rr))
            for hist, hr in zip(parts[i]['histories'], rs[i]['histories']):
                for st, sr in zip(hist, hr):
                    for run, rr in zip(st['runs'], sr.get('runs', [])):
                        sess.append((st, run, rr))
            self.sessions.append(sess)
        self.payload, self.impl_res = payload, res
        return payload, res

    # ---------------------------------------------------------------- K
    def correspondence(self):
        try:
            self._correspondence()
        except fw.Broken:
            raise
        except Exception as e:
            import traceback
            raise fw.Broken('harness', 'correspondence harness raised %r\n%s' % (e, traceback.format_exc()[-1500:]))

    def _correspondence(self):
        payload, res = self.run_impl_all()
        libs = payload['libs']
        flat = []        # (lib, run, impl result)
        for lib, lr in zip(libs, res['libs']):
            if 'error' in lr:
                raise fw.Broken('correspondence', 'harness could not write a BAM: %s' % lr['error'])
            for run, rr in zip(lib['runs'], lr['runs']):
                flat.append((lib, run, rr))
        n_lib_runs = len(flat)
        hist_index = []   # per history: positions in flat
        for hist, hr in zip(payload['histories'], res['histories']):
            pos = []
            for step, sr in zip(hist, hr):
                if 'error' in sr:
                    raise fw.Broken('correspondence', 'harness could not write a BAM (history): %s' % sr['error'])
                for run, rr in zip(step['runs'], sr['runs']):
                    pos.append(len(flat))
                    flat.append((step, run, rr))
            hist_index.append(pos)
        n_pre = sum(1 for lib, run, rr in flat if py_pre(lib, run))
        nontrivial = set()
        for lib, run, rr in flat:
            if 'cells' in rr and len(rr['jobs']) >= 2 and sum(c[5] for c in rr['cells']) >= 2:
                nontrivial.add(fw.canon_hash([enc_input(lib, run, len(rr['jobs'])), sorted(map(str, rr['cells']))]))
        nt_jobs = set(fw.canon_hash(j) for j, rj in zip(payload['jobs'], res['jobs']) if len(rj.get('jobs', [])) >= 2)
        nt_merges = set(fw.canon_hash(m) for m in payload['merges']
                        if len(set(tuple(e[0]) for d in m for e in d)) < sum(len(d) for d in m))
        on_boundary = sum(1 for lib, run, rr in flat for r in lib['reads']
                          if run['b'] > 0 and run['k'] > 0 and py_site(r) % (run['b'] * run['k']) == 0)
        self.cov.update({
            'evaluations': len(flat) + len(payload['jobs']) + len(payload['filters']) + len(payload['merges']) + len(payload['regions']),
            'distinct_nontrivial': len(nontrivial) + len(nt_jobs) + len(nt_merges),
            'distinct_nontrivial_breakdown': {'pipeline': len(nontrivial), 'job_lists': len(nt_jobs), 'merges': len(nt_merges)},
            'rule': 'histories: ONE path per history counted repeatedly in one process, rewritten (BAM + index) between steps with a longer '
                    'contig / an extra contig / a contig removed / a fresh BAM, each count compared with the model of the BAM as it is at '
                    'that moment. pipeline runs: one synthetic BAM (1-3 contigs, 4-45 records, flags/tags/MAPQ varied, sites on job '
                    'boundaries) through obtain_counts(generate_commands(..)) per (bins_per_job, max_fragment_size, schedule); '
                    'non-trivial = at least 2 jobs and at least 2 counted records; distinct by hash of (model input, cells); job-list cases '
                    'count when they have at least 2 jobs, merge cases when two job results share a bin id; filter cases are not counted. '
                    'kernels: generate_commands job lists (exhaustive small + large lengths), read_counts (exhaustive over flags), '
                    'obtain_counts merge on prepared colliding job results, get_binned_counts regions (D15)',
            'pipeline_runs': len(flat), 'libraries': len(libs),
            'histories': len(payload['histories']), 'history_runs': len(flat) - n_lib_runs,
            'history_rewrites_changing_contigs': sum(1 for h in payload['histories'] for a, b in zip(h, h[1:])
                                                     if b.get('rewrite', True) and a['contigs'] != b['contigs']),
            'precondition_hit_rate': round(n_pre / max(1, len(flat)), 4),
            'schedules': {'real_pool': sum(1 for _, run, _ in flat if run.get('sched') is None),
                          'prescribed_order': sum(1 for _, run, _ in flat if run.get('sched') is not None)},
            'bins_per_job_hist': _hist(run['k'] for _, run, _ in flat),
            'threads_hist': _hist(run['threads'] for _, run, _ in flat if run.get('sched') is None),
            'jobs_per_run_hist': _hist(min(len(rr.get('jobs', [])), 20) for _, _, rr in flat),
            'record_sites_on_job_boundary': on_boundary,
            'job_kernel_cases': len(payload['jobs']), 'filter_kernel_cases': len(payload['filters']),
            'merge_kernel_cases': len(payload['merges']), 'region_cases': len(payload['regions']),
            'samples': [{'run': {k: v for k, v in flat[i][1].items() if k != 'sched'}, 'contigs': flat[i][0]['contigs'],
                         'n_reads': len(flat[i][0]['reads']),
                         'impl_cells': flat[i][2]['cells'][:6] if 'cells' in flat[i][2] else flat[i][2]}
                        for i in (0, len(flat) // 2, len(flat) - 8)],
            'exhaustive': False,
            'site_sweep_libraries': sum(1 for l in libs if l.get('sweep')),
            'exhaustive_scopes': 'site sweeps: every site of a short contig x every bins_per_job 1..L/b+2 (mfs=0); '
                                 'read_counts: all 2^8 x 3 x 2 flag/option combinations; job lists: all lengths 0..3*b*k+2 for b*k <= 12',
        })
        # ---- extension: methylation counter and region lists
        mflat = []
        for lib, lr in zip(payload['meth'], res['meth']):
            if 'error' in lr:
                raise fw.Broken('correspondence', 'harness could not write a BAM (methylation): %s' % lr['error'])
            for run, rr in zip(lib['runs'], lr['runs']):
                mflat.append((lib, run, rr))
        self.mflat = mflat
        m_nontrivial = set()
        for lib, run, rr in mflat:
            if 'cells' in rr and m_njobs(lib, run) >= 2 and sum(c[5] + c[6] for c in rr['cells']) >= 2:
                m_nontrivial.add(fw.canon_hash([enc_minput(lib, run, m_njobs(lib, run)), sorted(map(str, rr['cells']))]))
        ext_regions = [g for g in payload['regions'] if g.get('ext')]
        calls_on_boundary = sum(1 for lib, run, rr in mflat for r in lib['reads'] for pos, ch in zip(m_positions(r), r['xm'])
                                if ch in 'Zz' and (pos % (run['b'] * run['k']) in (0, run['b'] * run['k'] - 1)))
        self.cov['evaluations'] += len(mflat) + len(payload['mmerges']) + len(ext_regions)   # + the get_binned_counts_prefixed calls
        self.cov['distinct_nontrivial'] += len(m_nontrivial) + len(set(fw.canon_hash([g['bin'], g['regions'], g['reads']]) for g in ext_regions if len(g['regions']) >= 2))
        self.cov['distinct_nontrivial_breakdown'].update({'methylation_runs': len(m_nontrivial),
                                                          'region_lists': len(set(fw.canon_hash([g['bin'], g['regions'], g['reads']]) for g in ext_regions if len(g['regions']) >= 2))})
        self.cov['rule'] += ('. EXTENSION: count_methylation_binned on synthetic BAMs with XM tags (records straddling job boundaries, both strands, '
                             'read 2 / duplicates / QC fails / mp, spliced CIGARs), per (bins_per_job, max_fragment_size, dedup, min_mq, stranded, dyad_mode, '
                             'completion order): either generate_commands + count_methylation_binned per job merged by the real '
                             'MethylationCountMatrix.update in a prescribed order, or the real caller bamToMethylationCalls.get_methylation_count_matrix '
                             '(serial, prescribed order through a stand-in pool, or a real Pool); non-trivial = at least 2 jobs and 2 calls counted. '
                             'get_binned_counts region lists: 1-4 regions (adjacent, overlapping, repeated, gaps of 1 / 999 / 1000 / 1001 / 1500), sites on '
                             'every edge of every widened window, bin sizes 1 (per-site multiplicity) / 100 / 1000; non-trivial = at least 2 regions')
        self.cov.update({
            'methylation_runs': len(mflat), 'methylation_libraries': len(payload['meth']),
            'methylation_via': _hist(run['via'] + ('' if run.get('sched') is not None else ':pool' if run['threads'] > 1 else ':serial')
                                     for _, run, _ in mflat),
            'methylation_dyad_runs': sum(1 for _, run, _ in mflat if run['dyad']),
            'methylation_stranded_runs': sum(1 for _, run, _ in mflat if run['stranded']),
            'methylation_precondition_hit_rate': round(sum(1 for lib, run, _ in mflat if py_mpre(lib, run)) / max(1, len(mflat)), 4),
            'methylation_calls_on_job_edge': calls_on_boundary,
            'methylation_bins_per_job_hist': _hist(run['k'] for _, run, _ in mflat),
            'methylation_update_kernel_cases': len(payload['mmerges']),
            'region_list_cases': len(ext_regions), 'region_list_calls': 2 * len(ext_regions),
            'region_list_sizes': _hist(len(g['regions']) for g in ext_regions),
            'region_bin1_cases': sum(1 for g in ext_regions if g['bin'] == 1),
        })
        if not self.model_ok:
            return
        dis = []
        # pipeline
        ins = [enc_input(lib, run, len(rr.get('jobs', []))) for lib, run, rr in flat]
        mo = fw.run_model('C12', 0, ins)
        mpre = fw.run_model('C12', 1, [i[:2] for i in ins])
        mdecl = fw.run_model('C12', 2, [i[:2] for i in ins])
        for pos in hist_index:
            if pos:
                mh = fw.run_model('C12', 7, [[ins[i] for i in pos]])[0]
                if mh != [mo[i] for i in pos]:
                    dis.append({'fn': 'model', 'what': 'run_history differs from the per-step model outputs', 'positions': pos})
        spec_checked = 0
        for (lib, run, rr), inp, m, mp_, md in zip(flat, ins, mo, mpre, mdecl):
            tag = {'fn': 'obtain_counts(generate_commands)', 'lib': {k: lib[k] for k in ('contigs', 'reads')}, 'run': run}
            if (mp_ == 1) != py_pre(lib, run):
                dis.append(dict(tag, what='python precondition differs from Coq [pre]', model=mp_))
            if not (run['b'] > 0 and run['k'] > 0):
                continue    # outside every hypothesis (bin size / bins per job not positive): raise, loop or empty result - free
            if m[0] != 0:
                if 'error' not in rr or not rr['error'].startswith('ValueError'):
                    dis.append(dict(tag, model='Raise %d' % m[0], impl=rr))
                continue
            if 'error' in rr:
                dis.append(dict(tag, model='Ok', impl=rr))
                continue
            got = canon_cells(lib, run, rr['cells'])
            exp = {tuple(c[:5]): c[5] for c in m[1]}
            # a negative bin size is outside every hypothesis of the statement (bin sizes are positive): which cells such
            # a run produces is not constrained and not compared
            # likewise sites outside their contig or farther from the read than max_fragment_size (hypotheses of every
            # theorem: where such records end up differs between admissible job lists) - compared only inside [pre]
            if run['b'] > 0 and py_pre(lib, run) and (got is None or got != exp or len(exp) != len(m[1])):
                dis.append(dict(tag, model=sorted(exp.items()), impl=sorted((got or {}).items())))
            # the python oracle used by search() is the Coq [decl] (theorem statement) - tie them
            dd = {tuple(c[:5]): c[5] for c in md[0]}
            ps = py_spec(lib, run) if run['b'] > 0 else {}
            if run['b'] > 0 and (dd != ps or md[1] != sum(ps.values())):
                dis.append(dict(tag, what='python oracle differs from Coq [decl]', model=sorted(dd.items()), oracle=sorted(ps.items())))
            if mp_ == 1:
                spec_checked += 1
                if exp != dd:
                    dis.append(dict(tag, what='model output differs from [decl] although [pre] holds (theorem C12_matrix!)'))
        # kernels
        mj = fw.run_model('C12', 3, [[L, b, k] for lens, b, k in payload['jobs'] for L in lens])
        it = iter(mj)
        for (lens, b, k), rj in zip(payload['jobs'], res['jobs']):
            exp = [[ci, lo, hi] for ci, L in enumerate(lens) for lo, hi in next(it)]
            if not (b > 0 and k > 0):
                continue    # bin size and bins per job are positive in every statement: what other values do is not compared
            # the end of the last job of a contig may lie at or beyond the contig end (nothing lives there): compared clipped
            clip = lambda js: [[ci, lo, min(hi, lens[ci])] for ci, lo, hi in js] if isinstance(js, list) else js
            if clip(rj.get('jobs')) != clip(exp) or not rj.get('passthrough'):
                dis.append({'fn': 'generate_commands', 'input': [lens, b, k], 'model': exp[:6], 'impl': rj if 'error' in rj else rj['jobs'][:6]})
        fin = [[0 if f[0] is None else 1, f[0] or 0] + f[1:] for f in payload['filters']]
        mf = fw.run_model('C12', 4, fin)
        for f, m, r in zip(payload['filters'], mf, res['filters']):
            if r != bool(m):
                dis.append({'fn': 'read_counts', 'input': f, 'model': m, 'impl': r})
        mm = fw.run_model('C12', 5, payload['merges'])
        for inp, m, r in zip(payload['merges'], mm, res['merges']):
            if r != m:
                dis.append({'fn': 'obtain_counts(merge)', 'input': inp, 'model': m, 'impl': r})
        mr = fw.run_model('C12', 6, [[1000, g['bin'], g['regions'], g['reads']] for g in payload['regions'] if g['regions'] is not None])
        it = iter(mr)
        for g, r in zip(payload['regions'], res['regions']):
            if g['regions'] is None:
                exp = sorted(_hist((r[2] // g['bin']) * g['bin'] for r in g['reads']).items())
                exp = [[int(a), b] for a, b in exp]
            else:
                exp = sorted(next(it))
            if r.get('cells') != exp:
                dis.append({'fn': 'get_binned_counts', 'input': g, 'model': exp, 'impl': r})
        # ---- extension: region multiplicities (theorem C12_regions_exact / _separated_once evaluated on model and implementation)
        rin = [[1000, g['regions'], g['reads']] for g in ext_regions]
        mult = fw.run_model('C12', 8, rin)
        sep = fw.run_model('C12', 9, [[1000, g['regions']] for g in ext_regions])
        rres = {id(g): r for g, r in zip(payload['regions'], res['regions'])}
        mult_hist, n_sep = {}, 0
        for g, mu, sp in zip(ext_regions, mult, sep):
            for x in mu:
                mult_hist[min(x, 3)] = mult_hist.get(min(x, 3), 0) + 1
            n_sep += 1 if sp == 1 else 0
            if sp == 1 and any(x > 1 for x in mu):
                dis.append({'fn': 'model', 'what': 'separated regions with a multiplicity > 1 (theorem C12_regions_separated_once!)', 'input': g})
            # statement C12_regions_exact on the implementation's table: count of bin b = sum of the multiplicities of its records
            h = {}
            for (lo, hi, sx), x in zip(g['reads'], mu):
                if x:
                    bs = (sx // g['bin']) * g['bin']
                    h[bs] = h.get(bs, 0) + x
            exp = sorted([a, n] for a, n in h.items())
            if rres[id(g)].get('cells') != exp:
                dis.append({'fn': 'get_binned_counts(regions)', 'what': 'table differs from the sum of region multiplicities (C12_regions_exact)',
                            'input': g, 'model': exp, 'impl': rres[id(g)]})
            if rres[id(g)].get('prefixed') != exp:
                dis.append({'fn': 'get_binned_counts_prefixed(regions)', 'what': 'table differs from the sum of region multiplicities '
                            '(C12_regions_exact with C12_regions_prefixed_same)', 'input': g, 'model': exp, 'impl': rres[id(g)].get('prefixed')})
        self.cov['region_multiplicity_hist'] = dict(sorted(mult_hist.items()))
        self.cov['region_lists_separated'] = n_sep
        # ---- extension: methylation
        mins = [enc_minput(lib, run, m_njobs(lib, run)) for lib, run, rr in mflat]
        mmo = fw.run_model('C12', 10, mins)
        mmpre = fw.run_model('C12', 11, [i[:2] for i in mins])
        mmd = fw.run_model('C12', 12, [i[:2] for i in mins])
        m_spec = 0
        for (lib, run, rr), m, mp_, md in zip(mflat, mmo, mmpre, mmd):
            tag = {'fn': 'count_methylation_binned via %s' % run['via'], 'lib': {k: lib[k] for k in ('contigs', 'reads')}, 'run': run}
            if (mp_ == 1) != py_mpre(lib, run):
                dis.append(dict(tag, what='python precondition differs from Coq [m_pre]', model=mp_))
            if 'error' in rr:
                dis.append(dict(tag, model='Ok', impl=rr))
                continue
            got = canon_mcells(lib, rr['cells'])
            exp = {tuple(c[:5]): (c[5], c[6]) for c in m}
            if got is None or got != exp or len(exp) != len(m):
                dis.append(dict(tag, model=sorted(exp.items()), impl=sorted((got or {}).items())))
            dd = {tuple(c[:5]): (c[5], c[6]) for c in md[0]}
            ps = py_mspec(lib, run)
            if dd != ps or md[1] != sum(u + v for u, v in ps.values()):
                dis.append(dict(tag, what='python oracle differs from Coq [m_decl]', model=sorted(dd.items()), oracle=sorted(ps.items())))
            if mp_ == 1:
                m_spec += 1
                if exp != dd:
                    dis.append(dict(tag, what='model output differs from [m_decl] although [m_pre] holds (theorem C12_meth_obtain!)'))
        mk = fw.run_model('C12', 14, payload['mmerges'])
        for inp, m, r in zip(payload['mmerges'], mk, res['mmerges']):
            if not isinstance(r, list) or sorted(r) != sorted(m):
                dis.append({'fn': 'MethylationCountMatrix.update', 'input': inp, 'model': m, 'impl': r})
        self.cov['methylation_theorem_instances_checked_on_model'] = m_spec
        self.cov['traces_validated_against_impl'] = self.cov['evaluations']
        self.cov['theorem_instances_checked_on_model'] = spec_checked
        self.cov['disagreements'] = len(dis)
        idx = sorted(self.rng.sample(range(len(ins)), min(100, len(ins))))
        ok, nm, log = fw.vm_crosscheck('C12', 0, [(ins[i], mo[i]) for i in idx])
        self.cov['vm_compute_crosscheck'] = {'cases': len(idx), 'mismatches': nm}
        if not ok:
            raise fw.Broken('extraction', 'vm_compute and extracted model disagree: ' + log[-800:])
        midx = sorted(self.rng.sample(range(len(mins)), min(40, len(mins))))
        ok, nm, log = fw.vm_crosscheck('C12', 10, [(mins[i], mmo[i]) for i in midx], run_name='run_C12x', require='Model.C12 Model.C12x')
        self.cov['vm_compute_crosscheck_methylation'] = {'cases': len(midx), 'mismatches': nm}
        if not ok:
            raise fw.Broken('extraction', 'vm_compute and extracted model disagree (methylation): ' + log[-800:])
        ridx = sorted(self.rng.sample(range(len(rin)), min(20, len(rin))))
        ok, nm, log = fw.vm_crosscheck('C12', 8, [(rin[i], mult[i]) for i in ridx], run_name='run_C12x', require='Model.C12 Model.C12x')
        self.cov['vm_compute_crosscheck_regions'] = {'cases': len(ridx), 'mismatches': nm}
        if not ok:
            raise fw.Broken('extraction', 'vm_compute and extracted model disagree (regions): ' + log[-800:])
        if dis:
            self.dis = dis
            raise fw.Broken('correspondence', 'model and implementation disagree on %d cases; first: %s'
                            % (len(dis), json.dumps({k: dis[0][k] for k in sorted(dis[0], key=lambda k: (k == 'lib', k))},
                                                    default=str)[:2500]))


def _hist(it):
    h = {}
    for x in it:
        h[x] = h.get(x, 0) + 1
    return dict(sorted(h.items(), key=lambda kv: str(kv[0])))


# ----------------------------------------------------------------------------- search / findings
def _tile_spec(lens, b, k):
    w = b * k
    return [[ci, i * w, (i + 1) * w] for ci, L in enumerate(lens) for i in range(-(-L // w))]


def _tile_ok(lens, b, k, jobs):
    """statement C12_jobs_tile on the implementation's job list: per contig, in contig order, consecutive jobs that start at
    0, meet on multiples of bin_size*bins_per_job and cover the contig (the last end may lie at or beyond the contig end)"""
    if not isinstance(jobs, list):
        return False
    w = b * k
    per = {}
    order = []
    for j in jobs:
        if not (isinstance(j, list) and len(j) == 3):
            return False
        if j[0] not in per:
            order.append(j[0])
        per.setdefault(j[0], []).append(j[1:])
    if order != sorted(order) or any(jobs[i][0] > jobs[i + 1][0] for i in range(len(jobs) - 1)):
        return False
    for ci, L in enumerate(lens):
        js = per.get(ci, [])
        if L <= 0:
            if js:
                return False
            continue
        pos = 0
        for n, (lo, hi) in enumerate(js):
            last = n == len(js) - 1
            if lo != pos or lo % w != 0 or hi <= lo or lo >= L:
                return False
            if not last and hi != lo + w:
                return False
            if last and not (L <= hi <= lo + w):
                return False
            pos = hi
        if not js:
            return False
    return set(per) <= set(range(len(lens)))


def _filter_spec(f):
    min_mq, dedup, r1only, ign_mp, ign_qc, is_r1, is_qc, is_dup, mp, mq = f
    return not ((r1only and not is_r1) or (is_qc and not ign_qc) or (dedup and is_dup) or
                (not ign_mp and mp == 2) or (min_mq is not None and mq < min_mq))


def _region_union_spec(g):
    """each record whose site lies in the union of the half-open user regions is counted once"""
    h = {}
    for lo, hi, s in g['reads']:
        if g['regions'] is None or any(a <= s < b for a, b in g['regions']):
            bs = (s // g['bin']) * g['bin']
            h[bs] = h.get(bs, 0) + 1
    return sorted([a, n] for a, n in h.items())


def _region_defect_model(g, fs=1000):
    """python transcription of the D15 behaviour (widened start reused as ownership bound, inclusive stop)"""
    h = {}
    for a, b in g['regions']:
        st = max(0, a - fs)
        for lo, hi, s in g['reads']:
            if lo < b and st < hi and not (s < st or s > b):
                bs = (s // g['bin']) * g['bin']
                h[bs] = h.get(bs, 0) + 1
    return sorted([a, n] for a, n in h.items())


D15_WITNESS = {'len': 5000, 'bin': 100, 'regions': [[0, 2000], [2000, 4000]], 'reads': [[1500, 1503, 1500]]}
FAR_LIB = {'contigs': [['chr1', 1000]], 'reads': [{'c': 0, 'pos': 500, 'len': 10, 'flag': 65, 'mq': 60, 'sm': 'c1', 'ds': 100}]}
BEYOND_LIB = {'contigs': [['chr1', 95]], 'reads': [{'c': 0, 'pos': 85, 'len': 10, 'flag': 65, 'mq': 60, 'sm': 'c1', 'ds': 105}]}
NEG_LIB = {'contigs': [['chr1', 95]], 'reads': [{'c': 0, 'pos': 0, 'len': 10, 'flag': 65, 'mq': 60, 'sm': 'c1', 'ds': -2}]}


def _run(b, k, mfs):
    return {'b': b, 'k': k, 'mfs': mfs, 'threads': 1, 'min_mq': 50, 'dedup': True, 'ignore_mp': False,
            'key_tags': False, 'sched': None}


def _search(self):
    """the SPECIFICATION (python transcription of [decl] / C12_jobs_tile / C12_filter_spec; tied to the Coq
    definitions by the correspondence run when the model builds) evaluated on the implementation's outputs"""
    if getattr(self, 'impl_res', None) is None:
        self.run_impl_all()
    payload, res = self.payload, self.impl_res
    # 1. the matrix, call by call, in the order each implementation process made the calls (its "session"): every
    #    count must be the declarative matrix of the BAM as it is at that moment.  A failing call is re-run ALONE in a
    #    fresh process; if it is only wrong after earlier calls, the witness is the shortest verified history.
    worst = None
    for sess in self.sessions:
        for n, (content, run, rr) in enumerate(sess):
            if not py_pre(content, run):
                continue
            got = canon_cells(content, run, rr['cells']) if 'cells' in rr else None
            if got != py_spec(content, run):
                size = (n, len(content['reads']))
                if worst is None or size < worst[0]:
                    worst = (size, sess, n)
                break
    if worst:
        self.witnesses.append(self.call_witness(worst[1], worst[2]))
    # 2. job lists
    best = None
    for (lens, b, k), rj in zip(payload['jobs'], res['jobs']):
        if b > 0 and k > 0:
            exp = _tile_spec(lens, b, k)
            if not _tile_ok(lens, b, k, rj.get('jobs')) or not rj.get('passthrough'):
                size = sum(lens) + b + k
                if best is None or size < best[0]:
                    best = (size, {'key': 'jobs', 'what': 'generate_commands(contig lengths %r, bin_size=%d, bins_per_job=%d) does not tile the '
                                                           'contigs in steps of bin_size*bins_per_job' % (lens, b, k),
                                   'input': [lens, b, k], 'impl': rj.get('error') or rj['jobs'][:8], 'expected': exp[:8]})
    if best:
        self.witnesses.append(best[1])
    # 3. the filter
    for f, r in zip(payload['filters'], res['filters']):
        if r != _filter_spec(f):
            self.witnesses.append({'key': 'filter', 'what': 'read_counts(min_mq=%r, dedup=%r, read1_only=%r, ignore_mp=%r, ignore_qcfail=%r) on a record '
                                                           'with is_read1=%r is_qcfail=%r is_duplicate=%r mp=%s mapq=%r returns %r'
                                                           % (f[0], bool(f[1]), bool(f[2]), bool(f[3]), bool(f[4]), bool(f[5]), bool(f[6]), bool(f[7]),
                                                              {0: 'absent', 1: 'unique', 2: 'multi'}[f[8]], f[9], r),
                                   'input': f, 'impl': r, 'expected': _filter_spec(f)})
            break
    # 4. the region counter: every case is looked at; the recorded behaviour (D15: widened closed windows, one count per
    #    containing window - theorem C12_regions_exact) is told apart from any OTHER deviation from "once per record in the regions"
    d15, other = None, None
    for g, r0, fname, field in [(g, r, 'get_binned_counts', 'cells') for g, r in zip(payload['regions'], res['regions'])] + \
                               [(g, r, 'get_binned_counts_prefixed', 'prefixed') for g, r in zip(payload['regions'], res['regions'])
                                if g.get('ext')]:
        exp = _region_union_spec(g)
        r = {'cells': r0.get(field)} if field in r0 else r0
        if r.get('cells') != exp:
            w = {'what': '%s(bin_size=%d, regions=%r): counts differ from one count per record '
                         'whose site lies in the regions' % (fname, g['bin'], g['regions']),
                 'input': {k: v for k, v in g.items() if k != 'ext'}, 'impl': r, 'expected': exp}
            if g['regions'] is not None and r.get('cells') == _region_defect_model(g):
                if d15 is None:
                    d15 = dict(w, key='D15-region-edge')
            elif other is None or len(g['reads']) < len(other['input']['reads']):
                other = dict(w, key='regions-other', expected_as_recorded=_region_defect_model(g) if g['regions'] is not None else exp)
    for w in (d15, other):
        if w:
            self.witnesses.append(w)
    # 5. the methylation counter: the declarative matrix [m_decl] (python transcription, tied to Coq by the correspondence run)
    #    on the implementation's matrices, for the runs inside the theorem's hypotheses (no dyad shift)
    mflat = getattr(self, 'mflat', None)
    if mflat is None:
        mflat = [(lib, run, rr) for lib, lr in zip(payload.get('meth', []), res.get('meth', [])) if 'runs' in lr
                 for run, rr in zip(lib['runs'], lr['runs'])]
    worst = None
    for lib, run, rr in mflat:
        if not py_mpre(lib, run):
            continue
        got = canon_mcells(lib, rr['cells']) if 'cells' in rr else None
        if got != py_mspec(lib, run):
            size = (len(lib['reads']), m_njobs(lib, run))
            if worst is None or size < worst[0]:
                worst = (size, lib, run, rr)
    if worst:
        lib, run, rr = _mshrink(worst[1], worst[2], worst[3])
        exp = py_mspec(lib, run)
        got = canon_mcells(lib, rr['cells']) if 'cells' in rr else None
        diff = sorted(set((got or {}).items()) ^ set(exp.items()))[:6]
        self.witnesses.append({
            'key': 'meth:%s' % ('error' if 'error' in rr else 'cells'),
            'what': 'count_methylation_binned over generate_commands(bin_size=%d, bins_per_job=%d, max_fragment_size=%d, min_mq=%r, dedup=%r) '
                    'merged by MethylationCountMatrix.update (%s) on %d records: %s'
                    % (run['b'], run['k'], run['mfs'], run['min_mq'], run['dedup'], run['via'], len(lib['reads']),
                       rr.get('error') or 'cells (sample, strand, contig, bin_start, bin_end) -> (n_z, n_Z) differ from the calls of the '
                                          'passing records: %r' % (diff,)),
            'input': {'contigs': lib['contigs'], 'reads': lib['reads'], 'run': run},
            'impl': rr.get('error') or sorted((got or {}).items()), 'expected': sorted(exp.items())})


def _mshrink(lib, run, rr):
    def fails(l, o):
        got = canon_mcells(l, o['cells']) if 'cells' in o else None
        return got != py_mspec(l, run)
    lib = {k: v for k, v in lib.items() if k != 'runs'}
    for _ in range(6):
        if len(lib['reads']) <= 1:
            break
        h = len(lib['reads']) // 2
        cands = [dict(lib, reads=lib['reads'][:h], runs=[run]), dict(lib, reads=lib['reads'][h:], runs=[run])] + \
                [dict(lib, reads=lib['reads'][:i] + lib['reads'][i + 1:], runs=[run]) for i in range(len(lib['reads']))]
        try:
            outs = fw.run_impl('impl_c12.py', {'meth': cands})['meth']
        except Exception:
            break
        for cnd, o in zip(cands, outs):
            if 'runs' in o and fails(cnd, o['runs'][0]):
                lib, rr = {k: v for k, v in cnd.items() if k != 'runs'}, o['runs'][0]
                break
        else:
            break
    return lib, run, rr

def _shrink(self, lib, run, rr):
    """greedy removal of records (one implementation process per round)"""
    def fails(l, r_):
        if not py_pre(l, run):
            return False
        got = canon_cells(l, run, r_['cells']) if 'cells' in r_ else None
        return got != py_spec(l, run)
    run = dict(run)
    if run.get('sched') is not None:
        run2 = dict(run, sched=None)
        out = fw.run_impl('impl_c12.py', {'libs': [dict(lib, runs=[run2])]})['libs'][0]['runs'][0]
        if fails(lib, out):
            run, rr = run2, out
    for _ in range(8):
        if len(lib['reads']) <= 1:
            break
        cands = [dict(lib, reads=lib['reads'][:i] + lib['reads'][i + 1:], runs=[run]) for i in range(len(lib['reads']))]
        # also try halves first
        h = len(lib['reads']) // 2
        cands = [dict(lib, reads=lib['reads'][:h], runs=[run]), dict(lib, reads=lib['reads'][h:], runs=[run])] + cands
        outs = fw.run_impl('impl_c12.py', {'libs': cands})['libs']
        for cnd, o in zip(cands, outs):
            if 'runs' in o and fails(cnd, o['runs'][0]):
                lib, rr = cnd, o['runs'][0]
                break
        else:
            break
    return {k: v for k, v in lib.items() if k != 'runs'}, run, rr


def _verify(hist):
    """replay a history (one call per step, one path) in a FRESH process; does the last call differ from the
    declarative count of its own BAM?"""
    out = fw.run_impl('impl_c12.py', {'histories': [hist]})['histories'][0]
    step, sr = hist[-1], out[-1]
    rr = sr['runs'][0] if 'runs' in sr else sr
    got = canon_cells(step, step['runs'][0], rr['cells']) if 'cells' in rr else None
    return got != py_spec(step, step['runs'][0]), rr


def _call_witness(self, sess, n):
    from concurrent.futures import ThreadPoolExecutor

    def step(content, run):
        return {'contigs': content['contigs'], 'reads': content['reads'], 'runs': [dict(run)], 'rewrite': True}
    content, run, rr0 = sess[n]
    last = step(content, run)
    alone, rr = _verify([last])
    if alone:
        lib, run2, rr2 = self.shrink({'contigs': content['contigs'], 'reads': content['reads']}, run, rr)
        ok2, rr3 = _verify([step(lib, run2)])
        if not ok2:
            lib, run2, rr3 = content, run, rr
        exp = py_spec(lib, run2)
        got = canon_cells(lib, run2, rr3['cells']) if 'cells' in rr3 else None
        diff = sorted(set((got or {}).items()) ^ set(exp.items()))[:6]
        return {'key': 'matrix:%s' % ('error' if 'error' in rr3 else 'cells'),
                'what': 'obtain_counts(generate_commands(bin_size=%d, bins_per_job=%d, max_fragment_size=%d, min_mq=%r)) on %d records: %s'
                        % (run2['b'], run2['k'], run2['mfs'], run2['min_mq'], len(lib['reads']),
                           rr3.get('error') or 'cells (key, contig, bin_start, bin_end, sample) -> n differ from the count of passing records: %r' % (diff,)),
                'input': {'contigs': lib['contigs'], 'reads': lib['reads'], 'run': run2},
                'impl': rr3.get('error') or sorted((got or {}).items()), 'expected': sorted(exp.items())}
    # correct when counted alone: it depends on the calls made before it in the same process
    best, best_rr = None, None
    js = list(range(n - 1, max(-1, n - 17), -1))
    if js:
        with ThreadPoolExecutor(4) as ex:
            outs = list(ex.map(lambda j: _verify([step(sess[j][0], sess[j][1]), last]), js))
        for j, (bad, rrj) in zip(js, outs):
            if bad:
                best, best_rr = [step(sess[j][0], sess[j][1]), last], rrj
                break
    if best is None:
        full = [step(c, r) for c, r, _ in sess[max(0, n - 40):n]] + [last]
        bad, rrf = _verify(full)
        best, best_rr = full, rrf
        if not bad:
            return {'key': 'history:unreproduced',
                    'what': 'call %d of one implementation process (bin_size=%d, bins_per_job=%d) differed from the declarative count of its BAM, '
                            'but neither the call alone nor the last 40 calls before it reproduce it in a fresh process' % (n, run['b'], run['k']),
                    'input': {'history': full[-3:]}, 'impl': rr0.get('error') or rr0.get('cells'), 'expected': sorted(py_spec(content, run).items())}
    st, rn = best[-1], best[-1]['runs'][0]
    exp = py_spec(st, rn)
    got = canon_cells(st, rn, best_rr['cells']) if 'cells' in best_rr else None
    diff = sorted(set((got or {}).items()) ^ set(exp.items()))[:6]

    def desc(x):
        r = x['runs'][0]
        return 'BAM with contigs %r (%d records) counted with bin_size=%d bins_per_job=%d min_mq=%r key_tags=%r dedup=%r' % (
            x['contigs'], len(x['reads']), r['b'], r['k'], r['min_mq'], r['key_tags'], r['dedup'])
    return {'key': 'history:stale',
            'what': 'one process, one path: %s; the LAST count gives %s but the BAM on disk holds %d countable records in %d cells; differing '
                    'cells (key, contig, bin_start, bin_end, sample) -> n: %r (the last call alone in a fresh process is correct: the result '
                    'depends on what was counted before)'
                    % (' THEN '.join(desc(x) for x in best[-3:]) + ('' if len(best) <= 3 else ' (after %d earlier calls)' % (len(best) - 3)),
                       ('total %d in %d cells' % (sum(got.values()), len(got))) if got is not None else best_rr.get('error'),
                       sum(exp.values()), len(exp), diff),
            'input': {'history': best}, 'impl': best_rr.get('error') or sorted((got or {}).items()), 'expected': sorted(exp.items())}


def _replay_known(self, finding):
    key = finding.get('key')
    if key == 'D15-region-edge':
        r = fw.run_impl('impl_c12.py', {'regions': [D15_WITNESS]})['regions'][0]
        return r.get('cells') == [[1500, 2]]
    probes = {'H2-far-site': (FAR_LIB, _run(10, 1, 5), _run(10, 100, 5)),
              'H1-site-beyond-contig': (BEYOND_LIB, _run(10, 1, 1000), _run(10, 3, 1000)),
              'H1-negative-site': (NEG_LIB, _run(10, 1, 1000), _run(10, 10, 1000))}
    if key in probes:
        lib, r1, r2 = probes[key]
        out = fw.run_impl('impl_c12.py', {'libs': [dict(lib, runs=[r1, r2])]})['libs'][0]['runs']
        t1, t2 = [sum(c[5] for c in o.get('cells', [])) for o in out]
        return (t1, t2) == ((0, 0) if key == 'H1-negative-site' else (0, 1))
    return False


Prop.search = _search
Prop.shrink = _shrink
Prop.call_witness = _call_witness
Prop.replay_known = _replay_known
