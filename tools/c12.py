"""C12 - binned molecule counting is independent of how the genome is split into jobs.

T: the arithmetic of count_fragments_binned (fetch window, ownership test, bin index / start / end), the job
   step / job end expressions of generate_jobs and the read_counts filter are REGENERATED from the source into
   coq/Gen/GenBinCount.v on every run; the theorems in Props/C12.v are proved about those definitions.
K: synthetic tagged BAMs through obtain_counts(generate_commands(...)) for many bins_per_job / schedules.
"""
import ast, hashlib, itertools, json, os
import fw, py2coq
from py2coq import Untranslatable

SRC = 'singlecellmultiomics/bamProcessing/bamBinCounts.py'


# ----------------------------------------------------------------------------- T
def _sha(s):
    return hashlib.sha256(s.encode()).hexdigest()


def _chunk(rel, node, src, coqname, params, body):
    seg = ast.get_source_segment(src, node)
    text = '(* source: %s line %d-%d sha256 %s\n   %s *)\nDefinition %s %s :=\n  %s.' % (
        rel, node.lineno, node.end_lineno, _sha(seg), ' '.join(seg.split()).replace('*)', '* )'), coqname, params, body)
    return text, {'source': rel, 'lines': [node.lineno, node.end_lineno], 'sha256': _sha(seg), 'coq': coqname}


def translate_generate_jobs(path, rel):
    """generate_jobs must be:  for job_group in ((( contig, <start>, <end> ) for start in range(<lo>, <hi>, <step>))
                                                  for contig, length in get_contig_sizes(alignments_path).items()):
                                   yield from job_group
    anything else -> Untranslatable (fail closed)."""
    src = open(path).read()
    fn = py2coq.find_function(ast.parse(src), 'generate_jobs')
    argnames = [a.arg for a in fn.args.args]
    if argnames != ['alignments_path', 'bin_size', 'bins_per_job'] or fn.args.vararg or fn.args.kwarg:
        raise Untranslatable('generate_jobs: signature changed: %r' % argnames)
    body = [s for s in fn.body if not (isinstance(s, ast.Expr) and isinstance(s.value, ast.Constant))]
    if len(body) != 1 or not isinstance(body[0], ast.For):
        raise Untranslatable('generate_jobs: body is not a single for loop')
    loop = body[0]
    if not (isinstance(loop.target, ast.Name) and len(loop.body) == 1 and not loop.orelse
            and isinstance(loop.body[0], ast.Expr) and isinstance(loop.body[0].value, ast.YieldFrom)
            and isinstance(loop.body[0].value.value, ast.Name) and loop.body[0].value.value.id == loop.target.id):
        raise Untranslatable('generate_jobs: loop body is not `yield from <loop variable>`')
    outer = loop.iter
    if not (isinstance(outer, ast.GeneratorExp) and len(outer.generators) == 1):
        raise Untranslatable('generate_jobs: outer generator expression changed')
    og = outer.generators[0]
    if og.ifs or og.is_async or ast.unparse(og.target) != '(contig, length)' or \
            ast.unparse(og.iter) != 'get_contig_sizes(alignments_path).items()':
        raise Untranslatable('generate_jobs: outer comprehension changed: %s' % ast.unparse(og)[:120])
    inner = outer.elt
    if not (isinstance(inner, ast.GeneratorExp) and len(inner.generators) == 1):
        raise Untranslatable('generate_jobs: inner generator expression changed')
    ig = inner.generators[0]
    if ig.ifs or ig.is_async or not (isinstance(ig.target, ast.Name) and ig.target.id == 'start'):
        raise Untranslatable('generate_jobs: inner comprehension changed')
    rng = ig.iter
    if not (isinstance(rng, ast.Call) and isinstance(rng.func, ast.Name) and rng.func.id == 'range'
            and len(rng.args) == 3 and not rng.keywords):
        raise Untranslatable('generate_jobs: inner iterable is not range(lo, hi, step)')
    elt = inner.elt
    if not (isinstance(elt, ast.Tuple) and len(elt.elts) == 3 and ast.unparse(elt.elts[0]) == 'contig'):
        raise Untranslatable('generate_jobs: job tuple is not (contig, start, end)')
    tr = py2coq.ExprTranslator()
    out = []
    for node, name, params, allowed in (
            (rng.args[0], 'g_range_lo', '(length bin_size bins_per_job : Z)', ()),
            (rng.args[1], 'g_range_hi', '(length bin_size bins_per_job : Z)', ()),
            (rng.args[2], 'g_job_step', '(length bin_size bins_per_job : Z)', ()),
            (elt.elts[1], 'g_job_start', '(start length bin_size bins_per_job : Z)', ('start',)),
            (elt.elts[2], 'g_job_end', '(start length bin_size bins_per_job : Z)', ('start',))):
        free = {n.id for n in ast.walk(node) if isinstance(n, ast.Name)}
        if not free <= {'length', 'bin_size', 'bins_per_job'} | set(allowed):
            raise Untranslatable('generate_jobs: unexpected free names %r in %s' % (sorted(free), ast.unparse(node)))
        out.append(_chunk(rel, node, src, name, params, tr.z(node)))
    return out


FILTER_ENV = {
    'read1_only': 'read1_only', 'read.is_read1': 'is_read1', 'read is None': 'false',
    'read.is_qcfail': 'is_qcfail', 'ignore_qcfail': 'ignore_qcfail', 'dedup': 'dedup',
    'read.is_duplicate': 'is_duplicate', 'ignore_mp': 'ignore_mp', "read.has_tag('mp')": 'has_mp',
    "read.get_tag('mp') != 'unique'": '(negb mp_unique)', 'min_mq is not None': 'has_min_mq',
    'read.mapping_quality': 'mapq', 'min_mq': 'min_mq',
}
FILTER_PARAMS = ('(has_min_mq : bool) (min_mq : Z) (dedup read1_only ignore_mp ignore_qcfail : bool) '
                 '(is_read1 is_qcfail is_duplicate has_mp mp_unique : bool) (mapq : Z)')


def _is_verbose_print(st):
    return (isinstance(st, ast.If) and isinstance(st.test, ast.Name) and st.test.id == 'verbose' and not st.orelse
            and all(isinstance(s, ast.Expr) and isinstance(s.value, ast.Call) and isinstance(s.value.func, ast.Name)
                    and s.value.func.id == 'print' for s in st.body))


def translate_read_counts(path, rel):
    """read_counts must be a sequence of `if <test>: [if verbose: print(..)] return False` followed by
    `return True`; the result is negb (test1 || test2 || ...)."""
    src = open(path).read()
    fn = py2coq.find_function(ast.parse(src), 'read_counts')
    args = [a.arg for a in fn.args.args]
    defaults = dict(zip(args[len(args) - len(fn.args.defaults):], [ast.unparse(d) for d in fn.args.defaults]))
    if args != ['read', 'min_mq', 'dedup', 'read1_only', 'ignore_mp', 'ignore_qcfail', 'verbose']:
        raise Untranslatable('read_counts: signature changed: %r' % args)
    tr = py2coq.ExprTranslator(env=dict(FILTER_ENV))
    tests = []
    body = [s for s in fn.body if not (isinstance(s, ast.Expr) and isinstance(s.value, ast.Constant))]
    if not body or not (isinstance(body[-1], ast.Return) and isinstance(body[-1].value, ast.Constant)
                        and body[-1].value.value is True):
        raise Untranslatable('read_counts: does not end in `return True`')
    for st in body[:-1]:
        if _is_verbose_print(st):
            continue
        if not (isinstance(st, ast.If) and not st.orelse):
            raise Untranslatable('read_counts: statement outside subset at line %d' % st.lineno)
        inner = [s for s in st.body if not _is_verbose_print(s)]
        if not (len(inner) == 1 and isinstance(inner[0], ast.Return) and isinstance(inner[0].value, ast.Constant)
                and inner[0].value.value is False):
            raise Untranslatable('read_counts: rejection arm at line %d is not `return False`' % st.lineno)
        free = {n.id for n in ast.walk(st.test) if isinstance(n, ast.Name)}
        if not free <= {'read', 'min_mq', 'dedup', 'read1_only', 'ignore_mp', 'ignore_qcfail'}:
            raise Untranslatable('read_counts: unexpected names %r' % sorted(free))
        tests.append(tr.b(st.test))
    chunk = _chunk(rel, fn, src, 'g_read_counts', FILTER_PARAMS, 'negb (%s)' % '\n    || '.join(tests or ['false']))
    return chunk, defaults


def translate_filter_call(path, rel, defaults):
    """the call `read_counts(read, min_mq=min_mq, dedup=dedup, read1_only=True, ignore_mp=ignore_mp)` inside
    count_fragments_binned, negated in an `if not ...: continue`"""
    src = open(path).read()
    fn = py2coq.find_function(ast.parse(src), 'count_fragments_binned')
    calls = [n for n in ast.walk(fn) if isinstance(n, ast.Call) and isinstance(n.func, ast.Name) and n.func.id == 'read_counts']
    if len(calls) != 1:
        raise Untranslatable('count_fragments_binned: expected exactly one read_counts call, found %d' % len(calls))
    call = calls[0]
    ifs = [n for n in ast.walk(fn) if isinstance(n, ast.If) and isinstance(n.test, ast.UnaryOp)
           and isinstance(n.test.op, ast.Not) and n.test.operand is call]
    if len(ifs) != 1 or len(ifs[0].body) != 1 or not isinstance(ifs[0].body[0], ast.Continue) or ifs[0].orelse:
        raise Untranslatable('count_fragments_binned: the filter is not `if not read_counts(...): continue`')
    if len(call.args) != 1 or ast.unparse(call.args[0]) != 'read':
        raise Untranslatable('count_fragments_binned: read_counts positional arguments changed')
    actual = {}
    for kw in call.keywords:
        if kw.arg is None:
            raise Untranslatable('count_fragments_binned: **kwargs in read_counts call')
        actual[kw.arg] = ast.unparse(kw.value)
    vals = {}
    for name in ('min_mq', 'dedup', 'read1_only', 'ignore_mp', 'ignore_qcfail'):
        v = actual.get(name, defaults.get(name))
        if v is None:
            raise Untranslatable('read_counts call: no value for %s' % name)
        if v in ('True', 'False'):
            vals[name] = v.lower()
        elif v == name and name in ('min_mq', 'dedup', 'ignore_mp'):
            vals[name] = name
        else:
            raise Untranslatable('read_counts call: argument %s=%s outside subset' % (name, v))
    if actual.get('verbose', 'False') != 'False':
        raise Untranslatable('read_counts call: verbose')
    mm = 'has_min_mq min_mq' if vals['min_mq'] == 'min_mq' else None
    if mm is None:
        raise Untranslatable('read_counts call: min_mq is not passed through')
    body = 'g_read_counts %s %s %s %s %s is_read1 is_qcfail is_duplicate has_mp mp_unique mapq' % (
        mm, vals['dedup'], vals['read1_only'], vals['ignore_mp'], vals['ignore_qcfail'])
    params = '(has_min_mq : bool) (min_mq : Z) (dedup ignore_mp : bool) (is_read1 is_qcfail is_duplicate has_mp mp_unique : bool) (mapq : Z)'
    return _chunk(rel, call, src, 'g_job_filter', params, body)


def regen_bincount():
    rel = SRC
    p = os.path.join(fw.REPO, rel)
    chunks, meta = [], []

    def add(tm):
        chunks.append(tm[0]); meta.append(tm[1])
    F = 'count_fragments_binned'
    add(translate_assign(p, rel, F, 'f_start', 'g_f_start', ['start', 'max_fragment_size']))
    add(translate_assign(p, rel, F, 'f_end', 'g_f_end', ['end', 'max_fragment_size', 'contig_size']))
    add(translate_owner_test(p, rel, F))
    add(translate_assign(p, rel, F, 'bin_i', 'g_bin_i', ['site', 'bin_size']))
    add(translate_assign(p, rel, F, 'bin_start', 'g_bin_start', ['bin_size', 'bin_i']))
    add(translate_assign(p, rel, F, 'bin_end', 'g_bin_end', ['bin_size', 'bin_i', 'contig_size']))
    _check_loop_shape(p)
    for tm in translate_generate_jobs(p, rel):
        add(tm)
    rc, defaults = translate_read_counts(p, rel)
    add(rc)
    add(translate_filter_call(p, rel, defaults))
    for tm in translate_regions(p, rel):
        add(tm)
    py2coq.write_gen(os.path.join(fw.COQ, 'Gen', 'GenBinCount.v'), '', chunks)
    return meta


def translate_assign(path, rel, func, target, coqname, params):
    """the unique assignment `target = <expr>` inside func; <expr> may only mention `params`"""
    src = open(path).read()
    fn = py2coq.find_function(ast.parse(src), func)
    nodes = [n for n in ast.walk(fn) if isinstance(n, ast.Assign) and len(n.targets) == 1
             and isinstance(n.targets[0], ast.Name) and n.targets[0].id == target]
    if len(nodes) != 1:
        raise Untranslatable('%s: expected exactly one assignment to %s, found %d' % (func, target, len(nodes)))
    v = nodes[0].value
    free = {n.id for n in ast.walk(v) if isinstance(n, ast.Name)} - {'max', 'min', 'int', 'abs'}
    if not free <= set(params):
        raise Untranslatable('%s: %s = %s mentions %r' % (func, target, ast.unparse(v), sorted(free - set(params))))
    body = py2coq.ExprTranslator().z(v)
    return _chunk(rel, v, src, coqname, '(%s : Z)' % ' '.join(py2coq.mangle(x) for x in params), body)


def translate_owner_test(path, rel, func):
    """the unique `if <test over site, start, end>: continue` inside func"""
    src = open(path).read()
    fn = py2coq.find_function(ast.parse(src), func)
    nodes = []
    for n in ast.walk(fn):
        if isinstance(n, ast.If) and len(n.body) == 1 and isinstance(n.body[0], ast.Continue) and not n.orelse:
            free = {x.id for x in ast.walk(n.test) if isinstance(x, ast.Name)}
            if 'site' in free and free <= {'site', 'start', 'end'}:
                nodes.append(n)
    if len(nodes) != 1:
        raise Untranslatable('%s: expected exactly one `if <site/start/end test>: continue`, found %d' % (func, len(nodes)))
    t = nodes[0].test
    return _chunk(rel, t, src, 'g_not_owned', '(site start end_ : Z)', py2coq.ExprTranslator().b(t))


def _check_loop_shape(path):
    """the translated assignments must be the only assignments to their targets inside count_fragments_binned and
    the ownership test must guard a bare `continue` (fail closed otherwise)."""
    src = open(path).read()
    fn = py2coq.find_function(ast.parse(src), 'count_fragments_binned')
    want = {'f_start': 1, 'f_end': 1, 'bin_i': 1, 'bin_start': 1, 'bin_end': 1}
    seen = dict.fromkeys(want, 0)
    for n in ast.walk(fn):
        if isinstance(n, (ast.Assign, ast.AugAssign, ast.AnnAssign)):
            targets = n.targets if isinstance(n, ast.Assign) else [n.target]
            for t in targets:
                for x in ast.walk(t):
                    if isinstance(x, ast.Name) and x.id in seen:
                        seen[x.id] += 1
    if seen != want:
        raise Untranslatable('count_fragments_binned: assignments to %r' % seen)
    fetch = [n for n in ast.walk(fn) if isinstance(n, ast.Call) and isinstance(n.func, ast.Attribute) and n.func.attr == 'fetch']
    if len(fetch) != 1 or sorted((k.arg, ast.unparse(k.value)) for k in fetch[0].keywords) != \
            [('contig', 'contig'), ('start', 'f_start'), ('stop', 'f_end')] or fetch[0].args:
        raise Untranslatable('count_fragments_binned: fetch call changed')


def translate_regions(path, rel):
    """D15: region widening in get_binned_counts and the ownership test of _generate_count_dict"""
    out = []
    out.append(py2coq.translate_inline_test(path, 'get_binned_counts', ['max(0', 'start - fs'], {}, 'g_region_start',
                                            '(start fs : Z)', repo_rel=rel, which='assign'))
    out.append(py2coq.translate_inline_test(
        path, '_generate_count_dict', ['cut_pos < start'],
        {'start is not None': 'true', 'stop is not None': 'true'}, 'g_region_skip',
        '(cut_pos start stop : Z)', repo_rel=rel, which='test'))
    out.append(py2coq.translate_inline_test(path, '_generate_count_dict', ['int(cut_pos / bin_size)'], {}, 'g_region_bin',
                                            '(cut_pos bin_size : Z)', repo_rel=rel, which='assign'))
    return out


# ----------------------------------------------------------------------------- K
SAMPLES = [None, 'c1', 'c2', 'c3', 'bulk']
SAMPLE_ID = {None: 0, 'bulk': 0, 'c1': 1, 'c2': 2, 'c3': 3}
DA_ID = {None: 1, 'a': 2, 'b': 3}
MP_ID = {None: 0, 'unique': 1, 'multi': 2}


def span_of(r):
    return r['span'] if (r.get('span') and r['span'] > r['len'] and r['len'] >= 2) else r['len']


def py_passes(r, run):
    """the filter as the property statement words it: read-1, not rejected (qcfail), not duplicate (when
    deduplicating), not marked non-uniquely mappable (unless ignored), mapping quality >= threshold"""
    f = r['flag']
    return bool(f & 64) and not (f & 512) and not (run['dedup'] and (f & 1024)) and \
        (bool(run['ignore_mp']) or r.get('mp') in (None, 'unique')) and \
        (run['min_mq'] is None or r['mq'] >= run['min_mq'])


def py_site(r):
    return r['ds'] if r.get('ds') is not None else r['pos']


def py_regular(r, run, length):
    if not py_passes(r, run):
        return True
    s, lo, hi = py_site(r), r['pos'], r['pos'] + span_of(r)
    return 0 <= s < length and lo <= s + run['mfs'] and s - run['mfs'] < hi and 0 <= lo < length and lo < hi


def py_pre(lib, run):
    return run['b'] > 0 and run['k'] > 0 and run['mfs'] >= 0 and \
        all(py_regular(r, run, lib['contigs'][r['c']][1]) for r in lib['reads'])


def py_spec(lib, run):
    """declarative matrix: {(key, contig, bin_start, bin_end, sample): n} - python transcription of [decl]"""
    out = {}
    b = run['b']
    for r in lib['reads']:
        if not py_passes(r, run):
            continue
        s = py_site(r)
        length = lib['contigs'][r['c']][1]
        cell = (DA_ID[r.get('da')] if run['key_tags'] else 0, r['c'] + 1, b * (s // b), min(b * (s // b + 1), length),
                SAMPLE_ID[r.get('sm')])
        out[cell] = out.get(cell, 0) + 1
    return out


def canon_cells(lib, run, cells):
    """implementation cells -> {(key id, contig id, bs, be, sample id): n}; None when a name is unknown"""
    names = {n: i + 1 for i, (n, _) in enumerate(lib['contigs'])}
    out = {}
    for key, contig, bs, be, s, n in cells:
        kid = 0 if key is None else (DA_ID.get(key[0], -1) if len(key) == 1 else -1)
        cell = (kid, names.get(contig, -1), bs, be, SAMPLE_ID.get(s, -1))
        if cell in out:
            return None
        out[cell] = n
    return out


def enc_read(r, run):
    return [r['pos'], r['pos'] + span_of(r), [] if r.get('ds') is None else [r['ds']],
            1 if r['flag'] & 64 else 0, 1 if r['flag'] & 512 else 0, 1 if r['flag'] & 1024 else 0,
            MP_ID[r.get('mp')], r['mq'], SAMPLE_ID[r.get('sm')], DA_ID[r.get('da')] if run['key_tags'] else 0]


def enc_input(lib, run, njobs):
    cfg = [run['b'], run['k'], run['mfs'], [] if run['min_mq'] is None else [run['min_mq']],
           1 if run['dedup'] else 0, 1 if run['ignore_mp'] else 0]
    genome = []
    for ci, (name, length) in enumerate(lib['contigs']):
        rs = sorted(((r['pos'], i) for i, r in enumerate(lib['reads']) if r['c'] == ci))
        genome.append([ci + 1, length, [enc_read(lib['reads'][i], run) for _, i in rs]])
    sched = run['sched'] if run.get('sched') is not None else list(range(njobs))
    return [cfg, genome, sched]


class Prop(fw.PropBase):
    ID = 'C12'
    PROPS = 'Props/C12.v'
    TRUSTED = [
        'modelled not verified: pysam/htslib AlignmentFile.fetch(contig, start, stop) returns exactly the records whose '
        'aligned span overlaps [start, stop) (model: r_lo < stop and start < r_hi), in file order; tag / flag accessors; '
        'multiprocessing.Pool.imap_unordered yields every job result exactly once in SOME order (the theorems quantify over '
        'all permutations); get_contig_sizes returns the @SQ names and lengths of the header (names distinct)',
        'hand-written (tied by K, not by T): the loop of count_fragments_binned around the generated expressions, the nested '
        'dict accumulation, the site extraction int(DS) with reference_start fallback, the SM fallback "bulk", the update-merge '
        'of obtain_counts, Python range(lo, hi, step)',
        'py2coq idiom int(a / b) -> Z.quot: assumes the IEEE quotient of two integers below 2^52 truncates to the exact quotient',
        'custom AST matchers in tools/c12.py for the nested generator of generate_jobs and the rejection chain of read_counts '
        '(fail closed)',
    ]
    ASSUMPTIONS = [
        'H1 (visible in the theorems): every record that passes the filter has 0 <= site < contig length; a negative site is '
        'never counted, a site >= contig length is counted or not depending on bins_per_job (C12_site_beyond_contig_refuted)',
        'H2 (visible): the site of every passing record is within max_fragment_size of its aligned span; otherwise the owning '
        'job does not fetch the record and the result depends on bins_per_job (C12_far_site_refuted)',
        'bin_size > 0, bins_per_job > 0, max_fragment_size >= 0; records are mapped (0 <= reference_start < contig length, '
        'reference_start < reference_end); one alignment file; alt_spans=None; head=None; skip_contigs=None; kwargs is a dict '
        '(the default kwargs=None of generate_commands makes count_fragments_binned raise AttributeError)',
    ]

    def regen(self):
        try:
            return regen_bincount()
        except BaseException:
            # fail closed: never prove / run against definitions generated from an older source
            for ext in ('.v', '.vo', '.vos', '.vok', '.glob'):
                try:
                    os.remove(os.path.join(fw.COQ, 'Gen', 'GenBinCount' + ext))
                except OSError:
                    pass
            raise

    # ---------------------------------------------------------------- generators
    def gen_lib(self, wild):
        rng = self.rng
        b = rng.choice([1, 2, 3, 5, 10, 10, 30, 100])
        ncont = rng.choice([1, 2, 2, 3])
        lens = [rng.choice([b * 7, b * 7 + rng.randint(1, max(1, b - 1)), 95, 40, b * 12, b, max(1, b - 1), b + 1, 1,
                            rng.randint(1, 400)]) for _ in range(ncont)]
        contigs = [['chr%d' % (i + 1), l] for i, l in enumerate(lens)]
        dmax = rng.choice([0, 0, 3, 25, 200])
        keyed = rng.random() < 0.4
        K = rng.choice([2, 3, 4])
        reads = []
        for _ in range(rng.randint(4, 45 if self.tier == 'quick' else 90)):
            c = rng.randrange(ncont)
            L = lens[c]
            rl = rng.randint(1, 20)
            pos = rng.randint(0, L - 1)
            rl = min(rl, L - pos)
            span = rl
            if rl >= 2 and rng.random() < 0.2:
                span = min(L - pos, rl + rng.randint(1, 150))
            W = b * rng.randint(1, K)
            m = rng.randint(0, max(0, L // W))
            lo, hi = pos, pos + (span if span > rl else rl)
            if wild and rng.random() < 0.5:
                ds = rng.choice([-1, -rng.randint(1, 50), L, L + 1, L + rng.randint(1, 3 * W + 3), rng.randint(-5, L + 5),
                                 m * W, m * W - 1])
            else:
                cand = [m * W, m * W - 1, m * W + 1, lo, hi - 1, hi, lo - dmax, hi - 1 + dmax, rng.randint(lo - dmax, hi - 1 + dmax),
                        (pos // b) * b, (pos // b) * b + b - 1, L - 1, 0]
                cand = [x for x in cand if 0 <= x < L and lo - dmax <= x <= hi - 1 + dmax]
                ds = rng.choice(cand) if cand else pos
                if rng.random() < 0.12:
                    ds = None
            flag = rng.choice([65, 65, 65, 65, 64, 129, 0, 65 | 16, 65 | 256, 65 | 2048])
            if rng.random() < 0.12:
                flag |= 1024
            if rng.random() < 0.08:
                flag |= 512
            reads.append({'c': c, 'pos': pos, 'len': rl, 'span': span, 'flag': flag, 'ds': ds,
                          'mq': rng.choice([0, 20, 29, 30, 49, 50, 60, 60, 60]), 'sm': rng.choice(SAMPLES),
                          'mp': rng.choice([None, None, 'unique', 'unique', 'multi']),
                          'da': rng.choice([None, 'a', 'b']) if keyed else None})
        runs = []
        base = {'b': b, 'min_mq': rng.choice([None, 0, 30, 50, 50]), 'dedup': rng.random() < 0.8,
                'ignore_mp': rng.choice([False, False, True, None]), 'key_tags': keyed}
        kmax = 6 if self.tier == 'quick' else 12
        ks = list(range(1, kmax + 1)) + [rng.choice([50, 1000])]
        for k in ks:
            run = dict(base, k=k, mfs=(rng.choice([0, 1, 7, 1000]) if wild else rng.choice([dmax, dmax + 1, 2 * dmax + 5, 1000])))
            mode = rng.choice(['pool', 'fake', 'fake', 'fake'])
            if mode == 'pool':
                run.update(threads=rng.randint(1, 4), sched=None)
            else:
                njobs = sum(-(-l // (b * k)) for l in lens)
                order = list(range(njobs))
                how = rng.choice(['rev', 'shuffle', 'shuffle', 'id'])
                if how == 'rev':
                    order.reverse()
                elif how == 'shuffle':
                    rng.shuffle(order)
                run.update(threads=1, sched=order)
            runs.append(run)
        return {'contigs': contigs, 'reads': reads, 'runs': runs, 'wild': wild}

    def sweep_libs(self):
        """small exhaustive scopes: one record per site of a short contig (every site, every bins_per_job up to
        one job per contig and beyond), once with the site inside a 1-base record and once at the far end of a
        4-base record"""
        quick = self.tier == 'quick'
        out = []
        for b, L in ([(1, 7), (3, 10), (5, 12)] if quick else [(b, L) for b in (1, 2, 3, 5) for L in (b * 3, b * 3 + 1, 7, 10, 12)]):
            for far in (False, True):
                reads = []
                for s in range(L):
                    pos = max(0, s - 3) if far else s
                    reads.append({'c': 0, 'pos': pos, 'len': (s - pos + 1), 'span': (s - pos + 1), 'flag': 65, 'ds': s, 'mq': 60,
                                  'sm': ['c1', 'c2', 'c3'][s % 3], 'mp': None, 'da': None})
                runs = []
                for k in range(1, L // b + 3):
                    njobs = -(-L // (b * k))
                    order = list(range(njobs))
                    if k % 2:
                        order.reverse()
                    runs.append({'b': b, 'k': k, 'mfs': 0, 'threads': 1, 'min_mq': 50, 'dedup': True, 'ignore_mp': False,
                                 'key_tags': False, 'sched': order if k % 3 else None})
                out.append({'contigs': [['chr1', L]], 'reads': reads, 'runs': runs, 'wild': False, 'sweep': True})
        return out

    def resched(self, lib, run):
        """a run of `lib` with a schedule that fits the job count of lib's contigs"""
        rng = self.rng
        run = dict(run)
        if rng.random() < 0.35 or run['b'] * run['k'] <= 0:
            run.update(threads=rng.randint(1, 4), sched=None)
        else:
            njobs = sum(-(-l // (run['b'] * run['k'])) for _, l in lib['contigs'])
            order = list(range(njobs))
            rng.shuffle(order)
            run.update(threads=1, sched=order)
        return run

    def variant(self, lib):
        """the BAM a re-run pipeline step would write to the same path: longer contig / extra contig / contig removed"""
        rng = self.rng
        contigs = [list(c) for c in lib['contigs']]
        reads = [dict(r) for r in lib['reads']]

        def more(ci, lo, hi):
            for _ in range(rng.randint(3, 8)):
                pos = rng.randint(lo, hi - 1)
                rl = rng.randint(1, min(10, contigs[ci][1] - pos))
                reads.append({'c': ci, 'pos': pos, 'len': rl, 'span': rl, 'flag': 65, 'ds': rng.choice([pos, pos + rl - 1, None]),
                              'mq': 60, 'sm': rng.choice(['c1', 'c2', 'c3']), 'mp': None, 'da': None})
        how = rng.choice(['longer', 'longer', 'extra', 'extra', 'drop'])
        if how == 'drop' and len(contigs) < 2:
            how = 'longer'
        if how == 'longer':
            ci = rng.randrange(len(contigs))
            L = contigs[ci][1]
            contigs[ci][1] = L + rng.choice([1, 7, L, 3 * L + 5, 250])
            more(ci, L, contigs[ci][1])
        elif how == 'extra':
            contigs.append(['chr%d' % (len(contigs) + 1), rng.choice([1, 30, 95, 300])])
            more(len(contigs) - 1, 0, contigs[-1][1])
        else:
            contigs.pop()
            reads = [r for r in reads if r['c'] < len(contigs)]
        return {'contigs': contigs, 'reads': reads, 'runs': lib['runs'], 'wild': lib.get('wild', False)}

    def gen_history(self):
        """one path: count (two bins_per_job), count again without rewriting, rewrite with other contigs, count, ..."""
        rng = self.rng
        cur = self.gen_lib(wild=False)
        first = cur
        hist = []
        for stepno in range(rng.randint(3, 5)):
            rewrite = True
            if stepno > 0:
                what = rng.choice(['same', 'variant', 'variant', 'variant', 'fresh', 'back'])
                if what == 'same':
                    rewrite = False
                elif what == 'variant':
                    cur = self.variant(cur)
                elif what == 'fresh':
                    cur = self.gen_lib(wild=False)
                else:
                    cur = first
            runs = []
            for r in rng.sample(cur['runs'], 2):
                # the calls of one history differ in the parameters that change the correct KEY SET (bin size, filter,
                # key tags), so anything carried over from an earlier call shows up as a stale / missing entry
                r = dict(r, b=rng.choice([r['b'], r['b'], 2 * r['b'], 3 * r['b'] + 1, max(1, r['b'] // 2), 7]),
                         min_mq=rng.choice([r['min_mq'], None, 0, 30, 50, 61]), dedup=rng.choice([r['dedup'], True, False]),
                         ignore_mp=rng.choice([r['ignore_mp'], True, False]), key_tags=rng.choice([r['key_tags'], True, False]),
                         mfs=rng.choice([r['mfs'], r['mfs'] + 7, 1000]), k=rng.choice([r['k'], 1, 2, 3, 7]))
                runs.append(self.resched(cur, r))
            hist.append({'contigs': cur['contigs'], 'reads': cur['reads'], 'runs': runs, 'rewrite': rewrite, 'wild': False})
        return hist

    def gen_all(self):
        quick = self.tier == 'quick'
        rng = self.rng
        libs = [self.gen_lib(wild=(i % 4 == 3)) for i in range(70 if quick else 1500)]
        libs += self.sweep_libs()
        # degenerate configurations (outside the precondition; model and code must still agree)
        odd = self.gen_lib(wild=False)
        odd['runs'] = [dict(odd['runs'][0], b=bb, k=kk, threads=1, sched=None)
                       for bb, kk in ((0, 1), (1, 0), (-5, -1), (-5, 2), (7, -1))]
        libs.append(odd)
        jobs = []
        for b in range(1, 9 if quick else 16):
            for k in range(1, 6 if quick else 10):
                for L in list(range(0, 3 * b * k + 3)) if b * k <= 12 else [b * k - 1, b * k, b * k + 1, 2 * b * k, 3 * b * k + 1]:
                    jobs.append([[L], b, k])
        for _ in range(200 if quick else 3000):
            b = rng.choice([1, 3, 10, 1000, 10 ** 6, rng.randint(1, 10 ** 7)])
            k = rng.choice([1, 2, 5, 10, rng.randint(1, 50)])
            m = rng.randint(0, 40)
            jobs.append([[rng.choice([m * b * k, m * b * k + 1, max(0, m * b * k - 1), rng.randint(0, 60 * b * k)])
                          for _ in range(rng.randint(1, 3))], b, k])
        jobs += [[[50], 0, 3], [[50], 3, 0], [[50], -3, 2], [[50], -3, -2], [[0], 5, 1], [[], 5, 1]]
        filters = [list(t) for t in itertools.product([None, 30], [0, 1], [0, 1], [0, 1], [0, 1], [0, 1], [0, 1], [0, 1],
                                                      [0, 1, 2], [29, 30])]
        merges = []
        for _ in range(150 if quick else 1500):
            res = []
            for _j in range(rng.randint(0, 4)):
                d, seen = [], set()
                for _e in range(rng.randint(0, 3)):
                    q = (rng.randint(0, 1), rng.randint(1, 2), 10 * rng.randint(0, 2), 10 * rng.randint(1, 3))
                    if q in seen:
                        continue
                    seen.add(q)
                    ss = rng.sample([0, 1, 2, 3], rng.randint(1, 3))
                    d.append([list(q), [[s, rng.randint(1, 9)] for s in ss]])
                res.append(d)
            merges.append(res)
        regions = []
        for _ in range(6 if quick else 40):
            L = rng.choice([3000, 5000, 7000])
            cut = rng.choice([1500, 2000, 2500])
            sites = sorted(set([cut, cut - 1, cut + 1, 2, L - 3, max(2, cut - 1000), max(2, cut - 1001)] +
                               [rng.randint(2, L - 3) for _ in range(12)]))
            reads = []
            for s in sites:
                lo = s - rng.randint(0, 2)
                reads.append([lo, lo + 3, s])
            regions.append({'len': L, 'bin': rng.choice([100, 500, 1000]),
                            'regions': rng.choice([None, [[0, cut], [cut, L]], [[cut, L]], [[0, cut]]]), 'reads': reads})
        histories = [self.gen_history() for _ in range(12 if quick else 150)]
        return {'libs': libs, 'histories': histories, 'jobs': jobs, 'filters': filters, 'merges': merges, 'regions': regions}

    def load_corpus(self):
        d = os.path.join(fw.VERIF, 'corpus', 'C12')
        out = []
        if os.path.isdir(d):
            for f in sorted(os.listdir(d)):
                if f.endswith('.json') and not f.startswith('hist'):
                    out.append(json.load(open(os.path.join(d, f))))
        return out

    def load_corpus_histories(self):
        d = os.path.join(fw.VERIF, 'corpus', 'C12')
        out = []
        if os.path.isdir(d):
            for f in sorted(os.listdir(d)):
                if f.endswith('.json') and f.startswith('hist'):
                    out.append(json.load(open(os.path.join(d, f))))
        return out

    def run_impl_all(self):
        payload = self.gen_all()
        payload['libs'] = self.load_corpus() + payload['libs']
        # split the libraries over a few processes
        from concurrent.futures import ThreadPoolExecutor
        n = 4
        payload['histories'] = self.load_corpus_histories() + payload['histories']
        parts = [dict(libs=payload['libs'][i::n], histories=payload['histories'][i::n]) for i in range(n)]
        parts[0].update({k: payload[k] for k in ('jobs', 'filters', 'merges', 'regions')})
        with ThreadPoolExecutor(n) as ex:
            rs = list(ex.map(lambda p: fw.run_impl('impl_c12.py', p), parts))
        res = dict(rs[0])
        libs = [None] * len(payload['libs'])
        for i in range(n):
            libs[i::n] = rs[i]['libs']
        res['libs'] = libs
        hs = [None] * len(payload['histories'])
        for i in range(n):
            hs[i::n] = rs[i]['histories']
        res['histories'] = hs
        self.sessions = []
        for i in range(n):
            sess = []
            for lib, lr in zip(parts[i]['libs'], rs[i]['libs']):
                for run, rr in zip(lib['runs'], lr.get('runs', [])):
                    sess.append((lib, run, rr))
            for hist, hr in zip(parts[i]['histories'], rs[i]['histories']):
                for st, sr in zip(hist, hr):
                    for run, rr in zip(st['runs'], sr.get('runs', [])):
                        sess.append((st, run, rr))
            self.sessions.append(sess)
        self.payload, self.impl_res = payload, res
        return payload, res

    # ---------------------------------------------------------------- K
    def correspondence(self):
        try:
            self._correspondence()
        except fw.Broken:
            raise
        except Exception as e:
            import traceback
            raise fw.Broken('harness', 'correspondence harness raised %r\n%s' % (e, traceback.format_exc()[-1500:]))

    def _correspondence(self):
        payload, res = self.run_impl_all()
        libs = payload['libs']
        flat = []        # (lib, run, impl result)
        for lib, lr in zip(libs, res['libs']):
            if 'error' in lr:
                raise fw.Broken('correspondence', 'harness could not write a BAM: %s' % lr['error'])
            for run, rr in zip(lib['runs'], lr['runs']):
                flat.append((lib, run, rr))
        n_lib_runs = len(flat)
        hist_index = []   # per history: positions in flat
        for hist, hr in zip(payload['histories'], res['histories']):
            pos = []
            for step, sr in zip(hist, hr):
                if 'error' in sr:
                    raise fw.Broken('correspondence', 'harness could not write a BAM (history): %s' % sr['error'])
                for run, rr in zip(step['runs'], sr['runs']):
                    pos.append(len(flat))
                    flat.append((step, run, rr))
            hist_index.append(pos)
        n_pre = sum(1 for lib, run, rr in flat if py_pre(lib, run))
        nontrivial = set()
        for lib, run, rr in flat:
            if 'cells' in rr and len(rr['jobs']) >= 2 and sum(c[5] for c in rr['cells']) >= 2:
                nontrivial.add(fw.canon_hash([enc_input(lib, run, len(rr['jobs'])), sorted(map(str, rr['cells']))]))
        nt_jobs = set(fw.canon_hash(j) for j, rj in zip(payload['jobs'], res['jobs']) if len(rj.get('jobs', [])) >= 2)
        nt_merges = set(fw.canon_hash(m) for m in payload['merges']
                        if len(set(tuple(e[0]) for d in m for e in d)) < sum(len(d) for d in m))
        on_boundary = sum(1 for lib, run, rr in flat for r in lib['reads']
                          if run['b'] > 0 and run['k'] > 0 and py_site(r) % (run['b'] * run['k']) == 0)
        self.cov.update({
            'evaluations': len(flat) + len(payload['jobs']) + len(payload['filters']) + len(payload['merges']) + len(payload['regions']),
            'distinct_nontrivial': len(nontrivial) + len(nt_jobs) + len(nt_merges),
            'distinct_nontrivial_breakdown': {'pipeline': len(nontrivial), 'job_lists': len(nt_jobs), 'merges': len(nt_merges)},
            'rule': 'histories: ONE path per history counted repeatedly in one process, rewritten (BAM + index) between steps with a longer '
                    'contig / an extra contig / a contig removed / a fresh BAM, each count compared with the model of the BAM as it is at '
                    'that moment. pipeline runs: one synthetic BAM (1-3 contigs, 4-45 records, flags/tags/MAPQ varied, sites on job '
                    'boundaries) through obtain_counts(generate_commands(..)) per (bins_per_job, max_fragment_size, schedule); '
                    'non-trivial = at least 2 jobs and at least 2 counted records; distinct by hash of (model input, cells); job-list cases '
                    'count when they have at least 2 jobs, merge cases when two job results share a bin id; filter cases are not counted. '
                    'kernels: generate_commands job lists (exhaustive small + large lengths), read_counts (exhaustive over flags), '
                    'obtain_counts merge on prepared colliding job results, get_binned_counts regions (D15)',
            'pipeline_runs': len(flat), 'libraries': len(libs),
            'histories': len(payload['histories']), 'history_runs': len(flat) - n_lib_runs,
            'history_rewrites_changing_contigs': sum(1 for h in payload['histories'] for a, b in zip(h, h[1:])
                                                     if b.get('rewrite', True) and a['contigs'] != b['contigs']),
            'precondition_hit_rate': round(n_pre / max(1, len(flat)), 4),
            'schedules': {'real_pool': sum(1 for _, run, _ in flat if run.get('sched') is None),
                          'prescribed_order': sum(1 for _, run, _ in flat if run.get('sched') is not None)},
            'bins_per_job_hist': _hist(run['k'] for _, run, _ in flat),
            'threads_hist': _hist(run['threads'] for _, run, _ in flat if run.get('sched') is None),
            'jobs_per_run_hist': _hist(min(len(rr.get('jobs', [])), 20) for _, _, rr in flat),
            'record_sites_on_job_boundary': on_boundary,
            'job_kernel_cases': len(payload['jobs']), 'filter_kernel_cases': len(payload['filters']),
            'merge_kernel_cases': len(payload['merges']), 'region_cases': len(payload['regions']),
            'samples': [{'run': {k: v for k, v in flat[i][1].items() if k != 'sched'}, 'contigs': flat[i][0]['contigs'],
                         'n_reads': len(flat[i][0]['reads']),
                         'impl_cells': flat[i][2]['cells'][:6] if 'cells' in flat[i][2] else flat[i][2]}
                        for i in (0, len(flat) // 2, len(flat) - 8)],
            'exhaustive': False,
            'site_sweep_libraries': sum(1 for l in libs if l.get('sweep')),
            'exhaustive_scopes': 'site sweeps: every site of a short contig x every bins_per_job 1..L/b+2 (mfs=0); '
                                 'read_counts: all 2^8 x 3 x 2 flag/option combinations; job lists: all lengths 0..3*b*k+2 for b*k <= 12',
        })
        if not self.model_ok:
            return
        dis = []
        # pipeline
        ins = [enc_input(lib, run, len(rr.get('jobs', []))) for lib, run, rr in flat]
        mo = fw.run_model('C12', 0, ins)
        mpre = fw.run_model('C12', 1, [i[:2] for i in ins])
        mdecl = fw.run_model('C12', 2, [i[:2] for i in ins])
        for pos in hist_index:
            if pos:
                mh = fw.run_model('C12', 7, [[ins[i] for i in pos]])[0]
                if mh != [mo[i] for i in pos]:
                    dis.append({'fn': 'model', 'what': 'run_history differs from the per-step model outputs', 'positions': pos})
        spec_checked = 0
        for (lib, run, rr), inp, m, mp_, md in zip(flat, ins, mo, mpre, mdecl):
            tag = {'fn': 'obtain_counts(generate_commands)', 'lib': {k: lib[k] for k in ('contigs', 'reads')}, 'run': run}
            if (mp_ == 1) != py_pre(lib, run):
                dis.append(dict(tag, what='python precondition differs from Coq [pre]', model=mp_))
            if not (run['b'] > 0 and run['k'] > 0):
                continue    # outside every hypothesis (bin size / bins per job not positive): raise, loop or empty result - free
            if m[0] != 0:
                if 'error' not in rr or not rr['error'].startswith('ValueError'):
                    dis.append(dict(tag, model='Raise %d' % m[0], impl=rr))
                continue
            if 'error' in rr:
                dis.append(dict(tag, model='Ok', impl=rr))
                continue
            got = canon_cells(lib, run, rr['cells'])
            exp = {tuple(c[:5]): c[5] for c in m[1]}
            # a negative bin size is outside every hypothesis of the statement (bin sizes are positive): which cells such
            # a run produces is not constrained and not compared
            # likewise sites outside their contig or farther from the read than max_fragment_size (hypotheses of every
            # theorem: where such records end up differs between admissible job lists) - compared only inside [pre]
            if run['b'] > 0 and py_pre(lib, run) and (got is None or got != exp or len(exp) != len(m[1])):
                dis.append(dict(tag, model=sorted(exp.items()), impl=sorted((got or {}).items())))
            # the python oracle used by search() is the Coq [decl] (theorem statement) - tie them
            dd = {tuple(c[:5]): c[5] for c in md[0]}
            ps = py_spec(lib, run) if run['b'] > 0 else {}
            if run['b'] > 0 and (dd != ps or md[1] != sum(ps.values())):
                dis.append(dict(tag, what='python oracle differs from Coq [decl]', model=sorted(dd.items()), oracle=sorted(ps.items())))
            if mp_ == 1:
                spec_checked += 1
                if exp != dd:
                    dis.append(dict(tag, what='model output differs from [decl] although [pre] holds (theorem C12_matrix!)'))
        # kernels
        mj = fw.run_model('C12', 3, [[L, b, k] for lens, b, k in payload['jobs'] for L in lens])
        it = iter(mj)
        for (lens, b, k), rj in zip(payload['jobs'], res['jobs']):
            exp = [[ci, lo, hi] for ci, L in enumerate(lens) for lo, hi in next(it)]
            if not (b > 0 and k > 0):
                continue    # bin size and bins per job are positive in every statement: what other values do is not compared
            # the end of the last job of a contig may lie at or beyond the contig end (nothing lives there): compared clipped
            clip = lambda js: [[ci, lo, min(hi, lens[ci])] for ci, lo, hi in js] if isinstance(js, list) else js
            if clip(rj.get('jobs')) != clip(exp) or not rj.get('passthrough'):
                dis.append({'fn': 'generate_commands', 'input': [lens, b, k], 'model': exp[:6], 'impl': rj if 'error' in rj else rj['jobs'][:6]})
        fin = [[0 if f[0] is None else 1, f[0] or 0] + f[1:] for f in payload['filters']]
        mf = fw.run_model('C12', 4, fin)
        for f, m, r in zip(payload['filters'], mf, res['filters']):
            if r != bool(m):
                dis.append({'fn': 'read_counts', 'input': f, 'model': m, 'impl': r})
        mm = fw.run_model('C12', 5, payload['merges'])
        for inp, m, r in zip(payload['merges'], mm, res['merges']):
            if r != m:
                dis.append({'fn': 'obtain_counts(merge)', 'input': inp, 'model': m, 'impl': r})
        mr = fw.run_model('C12', 6, [[1000, g['bin'], g['regions'], g['reads']] for g in payload['regions'] if g['regions'] is not None])
        it = iter(mr)
        for g, r in zip(payload['regions'], res['regions']):
            if g['regions'] is None:
                exp = sorted(_hist((r[2] // g['bin']) * g['bin'] for r in g['reads']).items())
                exp = [[int(a), b] for a, b in exp]
            else:
                exp = sorted(next(it))
            if r.get('cells') != exp:
                dis.append({'fn': 'get_binned_counts', 'input': g, 'model': exp, 'impl': r})
        self.cov['traces_validated_against_impl'] = self.cov['evaluations']
        self.cov['theorem_instances_checked_on_model'] = spec_checked
        self.cov['disagreements'] = len(dis)
        idx = sorted(self.rng.sample(range(len(ins)), min(100, len(ins))))
        ok, nm, log = fw.vm_crosscheck('C12', 0, [(ins[i], mo[i]) for i in idx])
        self.cov['vm_compute_crosscheck'] = {'cases': len(idx), 'mismatches': nm}
        if not ok:
            raise fw.Broken('extraction', 'vm_compute and extracted model disagree: ' + log[-800:])
        if dis:
            self.dis = dis
            raise fw.Broken('correspondence', 'model and implementation disagree on %d cases; first: %s'
                            % (len(dis), json.dumps({k: dis[0][k] for k in sorted(dis[0], key=lambda k: (k == 'lib', k))},
                                                    default=str)[:2500]))


def _hist(it):
    h = {}
    for x in it:
        h[x] = h.get(x, 0) + 1
    return dict(sorted(h.items(), key=lambda kv: str(kv[0])))


# ----------------------------------------------------------------------------- search / findings
def _tile_spec(lens, b, k):
    w = b * k
    return [[ci, i * w, (i + 1) * w] for ci, L in enumerate(lens) for i in range(-(-L // w))]


def _tile_ok(lens, b, k, jobs):
    """statement C12_jobs_tile on the implementation's job list: per contig, in contig order, consecutive jobs that start at
    0, meet on multiples of bin_size*bins_per_job and cover the contig (the last end may lie at or beyond the contig end)"""
    if not isinstance(jobs, list):
        return False
    w = b * k
    per = {}
    order = []
    for j in jobs:
        if not (isinstance(j, list) and len(j) == 3):
            return False
        if j[0] not in per:
            order.append(j[0])
        per.setdefault(j[0], []).append(j[1:])
    if order != sorted(order) or any(jobs[i][0] > jobs[i + 1][0] for i in range(len(jobs) - 1)):
        return False
    for ci, L in enumerate(lens):
        js = per.get(ci, [])
        if L <= 0:
            if js:
                return False
            continue
        pos = 0
        for n, (lo, hi) in enumerate(js):
            last = n == len(js) - 1
            if lo != pos or lo % w != 0 or hi <= lo or lo >= L:
                return False
            if not last and hi != lo + w:
                return False
            if last and not (L <= hi <= lo + w):
                return False
            pos = hi
        if not js:
            return False
    return set(per) <= set(range(len(lens)))


def _filter_spec(f):
    min_mq, dedup, r1only, ign_mp, ign_qc, is_r1, is_qc, is_dup, mp, mq = f
    return not ((r1only and not is_r1) or (is_qc and not ign_qc) or (dedup and is_dup) or
                (not ign_mp and mp == 2) or (min_mq is not None and mq < min_mq))


def _region_union_spec(g):
    """each record whose site lies in the union of the half-open user regions is counted once"""
    h = {}
    for lo, hi, s in g['reads']:
        if g['regions'] is None or any(a <= s < b for a, b in g['regions']):
            bs = (s // g['bin']) * g['bin']
            h[bs] = h.get(bs, 0) + 1
    return sorted([a, n] for a, n in h.items())


def _region_defect_model(g, fs=1000):
    """python transcription of the D15 behaviour (widened start reused as ownership bound, inclusive stop)"""
    h = {}
    for a, b in g['regions']:
        st = max(0, a - fs)
        for lo, hi, s in g['reads']:
            if lo < b and st < hi and not (s < st or s > b):
                bs = (s // g['bin']) * g['bin']
                h[bs] = h.get(bs, 0) + 1
    return sorted([a, n] for a, n in h.items())


D15_WITNESS = {'len': 5000, 'bin': 100, 'regions': [[0, 2000], [2000, 4000]], 'reads': [[1500, 1503, 1500]]}
FAR_LIB = {'contigs': [['chr1', 1000]], 'reads': [{'c': 0, 'pos': 500, 'len': 10, 'flag': 65, 'mq': 60, 'sm': 'c1', 'ds': 100}]}
BEYOND_LIB = {'contigs': [['chr1', 95]], 'reads': [{'c': 0, 'pos': 85, 'len': 10, 'flag': 65, 'mq': 60, 'sm': 'c1', 'ds': 105}]}
NEG_LIB = {'contigs': [['chr1', 95]], 'reads': [{'c': 0, 'pos': 0, 'len': 10, 'flag': 65, 'mq': 60, 'sm': 'c1', 'ds': -2}]}


def _run(b, k, mfs):
    return {'b': b, 'k': k, 'mfs': mfs, 'threads': 1, 'min_mq': 50, 'dedup': True, 'ignore_mp': False,
            'key_tags': False, 'sched': None}


def _search(self):
    """the SPECIFICATION (python transcription of [decl] / C12_jobs_tile / C12_filter_spec; tied to the Coq
    definitions by the correspondence run when the model builds) evaluated on the implementation's outputs"""
    if getattr(self, 'impl_res', None) is None:
        self.run_impl_all()
    payload, res = self.payload, self.impl_res
    # 1. the matrix, call by call, in the order each implementation process made the calls (its "session"): every
    #    count must be the declarative matrix of the BAM as it is at that moment.  A failing call is re-run ALONE in a
    #    fresh process; if it is only wrong after earlier calls, the witness is the shortest verified history.
    worst = None
    for sess in self.sessions:
        for n, (content, run, rr) in enumerate(sess):
            if not py_pre(content, run):
                continue
            got = canon_cells(content, run, rr['cells']) if 'cells' in rr else None
            if got != py_spec(content, run):
                size = (n, len(content['reads']))
                if worst is None or size < worst[0]:
                    worst = (size, sess, n)
                break
    if worst:
        self.witnesses.append(self.call_witness(worst[1], worst[2]))
    # 2. job lists
    best = None
    for (lens, b, k), rj in zip(payload['jobs'], res['jobs']):
        if b > 0 and k > 0:
            exp = _tile_spec(lens, b, k)
            if not _tile_ok(lens, b, k, rj.get('jobs')) or not rj.get('passthrough'):
                size = sum(lens) + b + k
                if best is None or size < best[0]:
                    best = (size, {'key': 'jobs', 'what': 'generate_commands(contig lengths %r, bin_size=%d, bins_per_job=%d) does not tile the '
                                                           'contigs in steps of bin_size*bins_per_job' % (lens, b, k),
                                   'input': [lens, b, k], 'impl': rj.get('error') or rj['jobs'][:8], 'expected': exp[:8]})
    if best:
        self.witnesses.append(best[1])
    # 3. the filter
    for f, r in zip(payload['filters'], res['filters']):
        if r != _filter_spec(f):
            self.witnesses.append({'key': 'filter', 'what': 'read_counts(min_mq=%r, dedup=%r, read1_only=%r, ignore_mp=%r, ignore_qcfail=%r) on a record '
                                                           'with is_read1=%r is_qcfail=%r is_duplicate=%r mp=%s mapq=%r returns %r'
                                                           % (f[0], bool(f[1]), bool(f[2]), bool(f[3]), bool(f[4]), bool(f[5]), bool(f[6]), bool(f[7]),
                                                              {0: 'absent', 1: 'unique', 2: 'multi'}[f[8]], f[9], r),
                                   'input': f, 'impl': r, 'expected': _filter_spec(f)})
            break
    # 4. the region counter
    for g, r in zip(payload['regions'], res['regions']):
        exp = _region_union_spec(g)
        if r.get('cells') != exp:
            if g['regions'] is not None and r.get('cells') == _region_defect_model(g):
                key = 'D15-region-edge'
            else:
                key = 'regions-other'
            self.witnesses.append({'key': key, 'what': 'get_binned_counts(bin_size=%d, regions=%r): counts differ from one count per record '
                                                       'whose site lies in the regions' % (g['bin'], g['regions']),
                                   'input': g, 'impl': r, 'expected': exp})
            break


def _shrink(self, lib, run, rr):
    """greedy removal of records (one implementation process per round)"""
    def fails(l, r_):
        if not py_pre(l, run):
            return False
        got = canon_cells(l, run, r_['cells']) if 'cells' in r_ else None
        return got != py_spec(l, run)
    run = dict(run)
    if run.get('sched') is not None:
        run2 = dict(run, sched=None)
        out = fw.run_impl('impl_c12.py', {'libs': [dict(lib, runs=[run2])]})['libs'][0]['runs'][0]
        if fails(lib, out):
            run, rr = run2, out
    for _ in range(8):
        if len(lib['reads']) <= 1:
            break
        cands = [dict(lib, reads=lib['reads'][:i] + lib['reads'][i + 1:], runs=[run]) for i in range(len(lib['reads']))]
        # also try halves first
        h = len(lib['reads']) // 2
        cands = [dict(lib, reads=lib['reads'][:h], runs=[run]), dict(lib, reads=lib['reads'][h:], runs=[run])] + cands
        outs = fw.run_impl('impl_c12.py', {'libs': cands})['libs']
        for cnd, o in zip(cands, outs):
            if 'runs' in o and fails(cnd, o['runs'][0]):
                lib, rr = cnd, o['runs'][0]
                break
        else:
            break
    return {k: v for k, v in lib.items() if k != 'runs'}, run, rr


def _verify(hist):
    """replay a history (one call per step, one path) in a FRESH process; does the last call differ from the
    declarative count of its own BAM?"""
    out = fw.run_impl('impl_c12.py', {'histories': [hist]})['histories'][0]
    step, sr = hist[-1], out[-1]
    rr = sr['runs'][0] if 'runs' in sr else sr
    got = canon_cells(step, step['runs'][0], rr['cells']) if 'cells' in rr else None
    return got != py_spec(step, step['runs'][0]), rr


def _call_witness(self, sess, n):
    from concurrent.futures import ThreadPoolExecutor

    def step(content, run):
        return {'contigs': content['contigs'], 'reads': content['reads'], 'runs': [dict(run)], 'rewrite': True}
    content, run, rr0 = sess[n]
    last = step(content, run)
    alone, rr = _verify([last])
    if alone:
        lib, run2, rr2 = self.shrink({'contigs': content['contigs'], 'reads': content['reads']}, run, rr)
        ok2, rr3 = _verify([step(lib, run2)])
        if not ok2:
            lib, run2, rr3 = content, run, rr
        exp = py_spec(lib, run2)
        got = canon_cells(lib, run2, rr3['cells']) if 'cells' in rr3 else None
        diff = sorted(set((got or {}).items()) ^ set(exp.items()))[:6]
        return {'key': 'matrix:%s' % ('error' if 'error' in rr3 else 'cells'),
                'what': 'obtain_counts(generate_commands(bin_size=%d, bins_per_job=%d, max_fragment_size=%d, min_mq=%r)) on %d records: %s'
                        % (run2['b'], run2['k'], run2['mfs'], run2['min_mq'], len(lib['reads']),
                           rr3.get('error') or 'cells (key, contig, bin_start, bin_end, sample) -> n differ from the count of passing records: %r' % (diff,)),
                'input': {'contigs': lib['contigs'], 'reads': lib['reads'], 'run': run2},
                'impl': rr3.get('error') or sorted((got or {}).items()), 'expected': sorted(exp.items())}
    # correct when counted alone: it depends on the calls made before it in the same process
    best, best_rr = None, None
    js = list(range(n - 1, max(-1, n - 17), -1))
    if js:
        with ThreadPoolExecutor(4) as ex:
            outs = list(ex.map(lambda j: _verify([step(sess[j][0], sess[j][1]), last]), js))
        for j, (bad, rrj) in zip(js, outs):
            if bad:
                best, best_rr = [step(sess[j][0], sess[j][1]), last], rrj
                break
    if best is None:
        full = [step(c, r) for c, r, _ in sess[max(0, n - 40):n]] + [last]
        bad, rrf = _verify(full)
        best, best_rr = full, rrf
        if not bad:
            return {'key': 'history:unreproduced',
                    'what': 'call %d of one implementation process (bin_size=%d, bins_per_job=%d) differed from the declarative count of its BAM, '
                            'but neither the call alone nor the last 40 calls before it reproduce it in a fresh process' % (n, run['b'], run['k']),
                    'input': {'history': full[-3:]}, 'impl': rr0.get('error') or rr0.get('cells'), 'expected': sorted(py_spec(content, run).items())}
    st, rn = best[-1], best[-1]['runs'][0]
    exp = py_spec(st, rn)
    got = canon_cells(st, rn, best_rr['cells']) if 'cells' in best_rr else None
    diff = sorted(set((got or {}).items()) ^ set(exp.items()))[:6]

    def desc(x):
        r = x['runs'][0]
        return 'BAM with contigs %r (%d records) counted with bin_size=%d bins_per_job=%d min_mq=%r key_tags=%r dedup=%r' % (
            x['contigs'], len(x['reads']), r['b'], r['k'], r['min_mq'], r['key_tags'], r['dedup'])
    return {'key': 'history:stale',
            'what': 'one process, one path: %s; the LAST count gives %s but the BAM on disk holds %d countable records in %d cells; differing '
                    'cells (key, contig, bin_start, bin_end, sample) -> n: %r (the last call alone in a fresh process is correct: the result '
                    'depends on what was counted before)'
                    % (' THEN '.join(desc(x) for x in best[-3:]) + ('' if len(best) <= 3 else ' (after %d earlier calls)' % (len(best) - 3)),
                       ('total %d in %d cells' % (sum(got.values()), len(got))) if got is not None else best_rr.get('error'),
                       sum(exp.values()), len(exp), diff),
            'input': {'history': best}, 'impl': best_rr.get('error') or sorted((got or {}).items()), 'expected': sorted(exp.items())}


def _replay_known(self, finding):
    key = finding.get('key')
    if key == 'D15-region-edge':
        r = fw.run_impl('impl_c12.py', {'regions': [D15_WITNESS]})['regions'][0]
        return r.get('cells') == [[1500, 2]]
    probes = {'H2-far-site': (FAR_LIB, _run(10, 1, 5), _run(10, 100, 5)),
              'H1-site-beyond-contig': (BEYOND_LIB, _run(10, 1, 1000), _run(10, 3, 1000)),
              'H1-negative-site': (NEG_LIB, _run(10, 1, 1000), _run(10, 10, 1000))}
    if key in probes:
        lib, r1, r2 = probes[key]
        out = fw.run_impl('impl_c12.py', {'libs': [dict(lib, runs=[r1, r2])]})['libs'][0]['runs']
        t1, t2 = [sum(c[5] for c in o.get('cells', [])) for o in out]
        return (t1, t2) == ((0, 0) if key == 'H1-negative-site' else (0, 1))
    return False


Prop.search = _search
Prop.shrink = _shrink
Prop.call_witness = _call_witness
Prop.replay_known = _replay_known
