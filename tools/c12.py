"""C12 - binned molecule counting is independent of how the genome is split into jobs.

T: the arithmetic of count_fragments_binned (fetch window, ownership test, bin index / start / end), the job
   step / job end expressions of generate_jobs and the read_counts filter are REGENERATED from the source into
   coq/Gen/GenBinCount.v on every run; the theorems in Props/C12.v are proved about those definitions.
K: synthetic tagged BAMs through obtain_counts(generate_commands(...)) for many bins_per_job / schedules.
"""
import ast, hashlib, itertools, json, os
import fw, py2coq
from py2coq import Untranslatable

SRC = 'singlecellmultiomics/bamProcessing/bamBinCounts.py'


# ----------------------------------------------------------------------------- T
def _sha(s):
    return hashlib.sha256(s.encode()).hexdigest()


def _chunk(rel, node, src, coqname, params, body):
    seg = ast.get_source_segment(src, node)
    text = '(* source: %s line %d-%d sha256 %s\n   %s *)\nDefinition %s %s :=\n  %s.' % (
        rel, node.lineno, node.end_lineno, _sha(seg), ' '.join(seg.split()).replace('*)', '* )'), coqname, params, body)
    return text, {'source': rel, 'lines': [node.lineno, node.end_lineno], 'sha256': _sha(seg), 'coq': coqname}


def translate_generate_jobs(path, rel):
    """generate_jobs must be:  for job_group in ((( contig, <start>, <end> ) for start in range(<lo>, <hi>, <step>))
                                                  for contig, length in get_contig_sizes(alignments_path).items()):
                                   yield from job_group
    anything else -> Untranslatable (fail closed)."""
    src = open(path).read()
    fn = py2coq.find_function(ast.parse(src), 'generate_jobs')
    argnames = [a.arg for a in fn.args.args]
    if argnames != ['alignments_path', 'bin_size', 'bins_per_job'] or fn.args.vararg or fn.args.kwarg:
        raise Untranslatable('generate_jobs: signature changed: %r' % argnames)
    body = [s for s in fn.body if not (isinstance(s, ast.Expr) and isinstance(s.value, ast.Constant))]
    if len(body) != 1 or not isinstance(body[0], ast.For):
        raise Untranslatable('generate_jobs: body is not a single for loop')
    loop = body[0]
    if not (isinstance(loop.target, ast.Name) and len(loop.body) == 1 and not loop.orelse
            and isinstance(loop.body[0], ast.Expr) and isinstance(loop.body[0].value, ast.YieldFrom)
            and isinstance(loop.body[0].value.value, ast.Name) and loop.body[0].value.value.id == loop.target.id):
        raise Untranslatable('generate_jobs: loop body is not `yield from <loop variable>`')
    outer = loop.iter
    if not (isinstance(outer, ast.GeneratorExp) and len(outer.generators) == 1):
        raise Untranslatable('generate_jobs: outer generator expression changed')
    og = outer.generators[0]
    if og.ifs or og.is_async or ast.unparse(og.target) != '(contig, length)' or \
            ast.unparse(og.iter) != 'get_contig_sizes(alignments_path).items()':
        raise Untranslatable('generate_jobs: outer comprehension changed: %s' % ast.unparse(og)[:120])
    inner = outer.elt
    if not (isinstance(inner, ast.GeneratorExp) and len(inner.generators) == 1):
        raise Untranslatable('generate_jobs: inner generator expression changed')
    ig = inner.generators[0]
    if ig.ifs or ig.is_async or not (isinstance(ig.target, ast.Name) and ig.target.id == 'start'):
        raise Untranslatable('generate_jobs: inner comprehension changed')
    rng = ig.iter
    if not (isinstance(rng, ast.Call) and isinstance(rng.func, ast.Name) and rng.func.id == 'range'
            and len(rng.args) == 3 and not rng.keywords):
        raise Untranslatable('generate_jobs: inner iterable is not range(lo, hi, step)')
    elt = inner.elt
    if not (isinstance(elt, ast.Tuple) and len(elt.elts) == 3 and ast.unparse(elt.elts[0]) == 'contig'):
        raise Untranslatable('generate_jobs: job tuple is not (contig, start, end)')
    tr = py2coq.ExprTranslator()
    out = []
    for node, name, params, allowed in (
            (rng.args[0], 'g_range_lo', '(length bin_size bins_per_job : Z)', ()),
            (rng.args[1], 'g_range_hi', '(length bin_size bins_per_job : Z)', ()),
            (rng.args[2], 'g_job_step', '(length bin_size bins_per_job : Z)', ()),
            (elt.elts[1], 'g_job_start', '(start length bin_size bins_per_job : Z)', ('start',)),
            (elt.elts[2], 'g_job_end', '(start length bin_size bins_per_job : Z)', ('start',))):
        free = {n.id for n in ast.walk(node) if isinstance(n, ast.Name)}
        if not free <= {'length', 'bin_size', 'bins_per_job'} | set(allowed):
            raise Untranslatable('generate_jobs: unexpected free names %r in %s' % (sorted(free), ast.unparse(node)))
        out.append(_chunk(rel, node, src, name, params, tr.z(node)))
    return out


FILTER_ENV = {
    'read1_only': 'read1_only', 'read.is_read1': 'is_read1', 'read is None': 'false',
    'read.is_qcfail': 'is_qcfail', 'ignore_qcfail': 'ignore_qcfail', 'dedup': 'dedup',
    'read.is_duplicate': 'is_duplicate', 'ignore_mp': 'ignore_mp', "read.has_tag('mp')": 'has_mp',
    "read.get_tag('mp') != 'unique'": '(negb mp_unique)', 'min_mq is not None': 'has_min_mq',
    'read.mapping_quality': 'mapq', 'min_mq': 'min_mq',
}
FILTER_PARAMS = ('(has_min_mq : bool) (min_mq : Z) (dedup read1_only ignore_mp ignore_qcfail : bool) '
                 '(is_read1 is_qcfail is_duplicate has_mp mp_unique : bool) (mapq : Z)')


def _is_verbose_print(st):
    return (isinstance(st, ast.If) and isinstance(st.test, ast.Name) and st.test.id == 'verbose' and not st.orelse
            and all(isinstance(s, ast.Expr) and isinstance(s.value, ast.Call) and isinstance(s.value.func, ast.Name)
                    and s.value.func.id == 'print' for s in st.body))


def translate_read_counts(path, rel):
    """read_counts must be a sequence of `if <test>: [if verbose: print(..)] return False` followed by
    `return True`; the result is negb (test1 || test2 || ...)."""
    src = open(path).read()
    fn = py2coq.find_function(ast.parse(src), 'read_counts')
    args = [a.arg for a in fn.args.args]
    defaults = dict(zip(args[len(args) - len(fn.args.defaults):], [ast.unparse(d) for d in fn.args.defaults]))
    if args != ['read', 'min_mq', 'dedup', 'read1_only', 'ignore_mp', 'ignore_qcfail', 'verbose']:
        raise Untranslatable('read_counts: signature changed: %r' % args)
    tr = py2coq.ExprTranslator(env=dict(FILTER_ENV))
    tests = []
    body = [s for s in fn.body if not (isinstance(s, ast.Expr) and isinstance(s.value, ast.Constant))]
    if not body or not (isinstance(body[-1], ast.Return) and isinstance(body[-1].value, ast.Constant)
                        and body[-1].value.value is True):
        raise Untranslatable('read_counts: does not end in `return True`')
    for st in body[:-1]:
        if _is_verbose_print(st):
            continue
        if not (isinstance(st, ast.If) and not st.orelse):
            raise Untranslatable('read_counts: statement outside subset at line %d' % st.lineno)
        inner = [s for s in st.body if not _is_verbose_print(s)]
        if not (len(inner) == 1 and isinstance(inner[0], ast.Return) and isinstance(inner[0].value, ast.Constant)
                and inner[0].value.value is False):
            raise Untranslatable('read_counts: rejection arm at line %d is not `return False`' % st.lineno)
        free = {n.id for n in ast.walk(st.test) if isinstance(n, ast.Name)}
        if not free <= {'read', 'min_mq', 'dedup', 'read1_only', 'ignore_mp', 'ignore_qcfail'}:
            raise Untranslatable('read_counts: unexpected names %r' % sorted(free))
        tests.append(tr.b(st.test))
    chunk = _chunk(rel, fn, src, 'g_read_counts', FILTER_PARAMS, 'negb (%s)' % '\n    || '.join(tests or ['false']))
    return chunk, defaults


def translate_filter_call(path, rel, defaults):
    """the call `read_counts(read, min_mq=min_mq, dedup=dedup, read1_only=True, ignore_mp=ignore_mp)` inside
    count_fragments_binned, negated in an `if not ...: continue`"""
    src = open(path).read()
    fn = py2coq.find_function(ast.parse(src), 'count_fragments_binned')
    calls = [n for n in ast.walk(fn) if isinstance(n, ast.Call) and isinstance(n.func, ast.Name) and n.func.id == 'read_counts']
    if len(calls) != 1:
        raise Untranslatable('count_fragments_binned: expected exactly one read_counts call, found %d' % len(calls))
    call = calls[0]
    ifs = [n for n in ast.walk(fn) if isinstance(n, ast.If) and isinstance(n.test, ast.UnaryOp)
           and isinstance(n.test.op, ast.Not) and n.test.operand is call]
    if len(ifs) != 1 or len(ifs[0].body) != 1 or not isinstance(ifs[0].body[0], ast.Continue) or ifs[0].orelse:
        raise Untranslatable('count_fragments_binned: the filter is not `if not read_counts(...): continue`')
    if len(call.args) != 1 or ast.unparse(call.args[0]) != 'read':
        raise Untranslatable('count_fragments_binned: read_counts positional arguments changed')
    actual = {}
    for kw in call.keywords:
        if kw.arg is None:
            raise Untranslatable('count_fragments_binned: **kwargs in read_counts call')
        actual[kw.arg] = ast.unparse(kw.value)
    vals = {}
    for name in ('min_mq', 'dedup', 'read1_only', 'ignore_mp', 'ignore_qcfail'):
        v = actual.get(name, defaults.get(name))
        if v is None:
            raise Untranslatable('read_counts call: no value for %s' % name)
        if v in ('True', 'False'):
            vals[name] = v.lower()
        elif v == name and name in ('min_mq', 'dedup', 'ignore_mp'):
            vals[name] = name
        else:
            raise Untranslatable('read_counts call: argument %s=%s outside subset' % (name, v))
    if actual.get('verbose', 'False') != 'False':
        raise Untranslatable('read_counts call: verbose')
    mm = 'has_min_mq min_mq' if vals['min_mq'] == 'min_mq' else None
    if mm is None:
        raise Untranslatable('read_counts call: min_mq is not passed through')
    body = 'g_read_counts %s %s %s %s %s is_read1 is_qcfail is_duplicate has_mp mp_unique mapq' % (
        mm, vals['dedup'], vals['read1_only'], vals['ignore_mp'], vals['ignore_qcfail'])
    params = '(has_min_mq : bool) (min_mq : Z) (dedup ignore_mp : bool) (is_read1 is_qcfail is_duplicate has_mp mp_unique : bool) (mapq : Z)'
    return _chunk(rel, call, src, 'g_job_filter', params, body)


def regen_bincount():
    rel = SRC
    p = os.path.join(fw.REPO, rel)
    chunks, meta = [], []

    def add(tm):
        chunks.append(tm[0]); meta.append(tm[1])
    F = 'count_fragments_binned'
    add(py2coq.translate_inline_test(p, F, ['max(0', 'max_fragment_size'], {}, 'g_f_start',
                                     '(start max_fragment_size : Z)', repo_rel=rel, which='assign'))
    add(py2coq.translate_inline_test(p, F, ['min(end'], {}, 'g_f_end',
                                     '(end_ max_fragment_size contig_size : Z)', repo_rel=rel, which='assign'))
    add(py2coq.translate_inline_test(p, F, ['site < start'], {}, 'g_not_owned',
                                     '(site start end_ : Z)', repo_rel=rel, which='test'))
    add(py2coq.translate_inline_test(p, F, ['int(site / bin_size)'], {}, 'g_bin_i',
                                     '(site bin_size : Z)', repo_rel=rel, which='assign'))
    add(py2coq.translate_inline_test(p, F, ['bin_size * bin_i'], {}, 'g_bin_start',
                                     '(bin_size bin_i : Z)', repo_rel=rel, which='assign'))
    add(py2coq.translate_inline_test(p, F, ['min(bin_size'], {}, 'g_bin_end',
                                     '(bin_size bin_i contig_size : Z)', repo_rel=rel, which='assign'))
    _check_loop_shape(p)
    for tm in translate_generate_jobs(p, rel):
        add(tm)
    rc, defaults = translate_read_counts(p, rel)
    add(rc)
    add(translate_filter_call(p, rel, defaults))
    for tm in translate_regions(p, rel):
        add(tm)
    py2coq.write_gen(os.path.join(fw.COQ, 'Gen', 'GenBinCount.v'), '', chunks)
    return meta


def _check_loop_shape(path):
    """the translated assignments must be the only assignments to their targets inside count_fragments_binned and
    the ownership test must guard a bare `continue` (fail closed otherwise)."""
    src = open(path).read()
    fn = py2coq.find_function(ast.parse(src), 'count_fragments_binned')
    want = {'f_start': 1, 'f_end': 1, 'bin_i': 1, 'bin_start': 1, 'bin_end': 1}
    seen = dict.fromkeys(want, 0)
    for n in ast.walk(fn):
        if isinstance(n, (ast.Assign, ast.AugAssign, ast.AnnAssign)):
            targets = n.targets if isinstance(n, ast.Assign) else [n.target]
            for t in targets:
                for x in ast.walk(t):
                    if isinstance(x, ast.Name) and x.id in seen:
                        seen[x.id] += 1
    if seen != want:
        raise Untranslatable('count_fragments_binned: assignments to %r' % seen)
    own = [n for n in ast.walk(fn) if isinstance(n, ast.If) and 'site < start' in ast.unparse(n.test)]
    if len(own) != 1 or len(own[0].body) != 1 or not isinstance(own[0].body[0], ast.Continue) or own[0].orelse:
        raise Untranslatable('count_fragments_binned: ownership test does not guard a bare continue')
    fetch = [n for n in ast.walk(fn) if isinstance(n, ast.Call) and isinstance(n.func, ast.Attribute) and n.func.attr == 'fetch']
    if len(fetch) != 1 or sorted((k.arg, ast.unparse(k.value)) for k in fetch[0].keywords) != \
            [('contig', 'contig'), ('start', 'f_start'), ('stop', 'f_end')] or fetch[0].args:
        raise Untranslatable('count_fragments_binned: fetch call changed')


def translate_regions(path, rel):
    """D15: region widening in get_binned_counts and the ownership test of _generate_count_dict"""
    out = []
    out.append(py2coq.translate_inline_test(path, 'get_binned_counts', ['max(0', 'start - fs'], {}, 'g_region_start',
                                            '(start fs : Z)', repo_rel=rel, which='assign'))
    out.append(py2coq.translate_inline_test(
        path, '_generate_count_dict', ['cut_pos < start'],
        {'start is not None': 'true', 'stop is not None': 'true'}, 'g_region_skip',
        '(cut_pos start stop : Z)', repo_rel=rel, which='test'))
    out.append(py2coq.translate_inline_test(path, '_generate_count_dict', ['int(cut_pos / bin_size)'], {}, 'g_region_bin',
                                            '(cut_pos bin_size : Z)', repo_rel=rel, which='assign'))
    return out
