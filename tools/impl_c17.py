"""runs the REAL tiling functions of bamBinCounts.py / utils/binning.py for C17.

payload: {'cases': [[fn, args...], ...], 'contigs': [ {...}, ... ], 'histories': [...], 'gcases': [ {...}, ... ],
          'texts': [ {...}, ... ]}
gcases (contig level, see run_gcase): blacklisted_binning_contigs through a real BED / BED.gz file and a contig list,
dict.items() or BAM header, optionally followed by bp_chunked; texts (see run_text): the records read from a BED text.
a case uses the same encoding as the input of run_C17 mode 0 (see coq/Model/C17.v run_fn):
  [0, start, end, step]                      fill_range
  [1, rangelist, start, end]                 trim_rangelist
  [2, clist]                                 range_contains_overlap
  [3, clist]                                 _merge_overlapping_ranges  (len(clist) >= 2 only)
  [4, clist]                                 merge_overlapping_ranges
  [5, start, end, bin_size, blacklist, frag] blacklisted_binning   (frag: [] = None, [f] = f)
  [6, jobs, bp_per_job]                      bp_chunked  (jobs: [[start, end], ...])
results use the encoding of the model's output; an unexpected exception becomes ['error', 'Type: msg'].
"""
import os, sys
import fw


def tup(l):
    return [tuple(x) for x in l]


def run_case(B, bp_chunked, c):
    fn = c[0]
    try:
        if fn == 0:
            try:
                return [0, [list(x) for x in B.fill_range(c[1], c[2], c[3])]]
            except (ValueError, ArithmeticError):   # which exception refuses a step of 0 is not constrained
                return [1, 1]
        if fn == 1:
            return [list(x) for x in B.trim_rangelist(tup(c[1]), c[2], c[3])]
        if fn == 2:
            return 1 if B.range_contains_overlap(tup(c[1])) else 0
        if fn == 3:
            if not hasattr(B, '_merge_overlapping_ranges'):
                return ['missing']     # a private helper: nothing is claimed about it when it no longer exists
            return [list(x) for x in B._merge_overlapping_ranges(tup(c[1]))]
        if fn == 4:
            return [0, [list(x) for x in B.merge_overlapping_ranges(tup(c[1]))]]
        if fn == 5:
            frag = c[5][0] if c[5] else None
            bl = tup(c[4])
            try:
                if c[4] == [] and (c[1] + c[2] + c[3]) % 2:   # None and [] are both used by callers
                    bl = None
                return [0, [list(x) for x in B.blacklisted_binning(c[1], c[2], c[3], bl, frag)]]
            except (ValueError, ArithmeticError):
                return [1, 1]
        if fn == 6:
            jobs = [('chr1', s, e, i) for i, (s, e) in enumerate(c[1])]
            return [[j[3] for j in ch] for ch in bp_chunked(iter(jobs), c[2])]
        return ['error', 'unknown fn']
    except BaseException as e:  # never let one case kill the batch
        return ['error', '%s: %s' % (type(e).__name__, e)]


def run_contigs(B, t, n):
    """blacklisted_binning_contigs with a contig-length list and a BED blacklist written to scratch"""
    try:
        path = None
        if t['bed'] is not None:
            path = os.path.join(os.environ['SCMO_SCRATCH'], 'bl%d.bed%s' % (n, '.gz' if t.get('gz') else ''))
            txt = ''.join('%s\t%d\t%d\n' % (c, s, e) for c, s, e in t['bed'])
            if t.get('gz'):
                import gzip
                with gzip.open(path, 'wt') as f:
                    f.write(txt)
            else:
                with open(path, 'w') as f:
                    f.write(txt)
        res = B.blacklisted_binning_contigs([tuple(x) for x in t['contigs']], t['bin_size'], t['fragment_size'],
                                            blacklist_path=path, contig_whitelist=t['whitelist'])
        return [list(x) for x in res]
    except BaseException as e:
        return ['error', '%s: %s' % (type(e).__name__, e)]


def write_bed(path, bed, gz):
    txt = ''.join('%s\t%d\t%d\n' % (c, s, e) for c, s, e in bed)
    if gz:
        import gzip
        with gzip.open(path, 'wt') as f:
            f.write(txt)
    else:
        with open(path, 'w') as f:
            f.write(txt)


def run_history(B, steps, n):
    """several blacklisted_binning_contigs calls in ONE process with contig_length_resource = a BAM path; the
    BAM (header only) and the BED file of a slot are rewritten at the same path before each call, so every call
    must reflect the files as they are at that moment"""
    import pysam
    out = []
    for st in steps:
        try:
            bam = os.path.join(os.environ['SCMO_SCRATCH'], 'h%d_slot%d.bam' % (n, st['bam_slot']))
            header = {'HD': {'VN': '1.6', 'SO': 'coordinate'}, 'SQ': [{'SN': c, 'LN': ln} for c, ln in st['contigs']]}
            with pysam.AlignmentFile(bam, 'wb', header=header):
                pass
            path = None
            if st['bed'] is not None:
                path = os.path.join(os.environ['SCMO_SCRATCH'], 'h%d_bed%d.bed%s' % (n, st['bed_slot'], '.gz' if st.get('gz') else ''))
                write_bed(path, st['bed'], st.get('gz'))
            res = B.blacklisted_binning_contigs(bam, st['bin_size'], st['fragment_size'], blacklist_path=path,
                                                contig_whitelist=st['whitelist'])
            out.append([list(x) for x in res])
        except BaseException as e:
            out.append(['error', '%s: %s' % (type(e).__name__, e)])
    return out


# ---------------------------------------------------------------- extension: contig level / BED text / bp on rows
_BED_CACHE = {}
CALL_SECONDS = float(os.environ.get('VERIF_C17_CALL_SECONDS', '8'))


class NoResult(Exception):
    """the implementation did not return within CALL_SECONDS (a legitimate call takes milliseconds): reported as a
    refusal, so inside a theorem's precondition it is a violation with that input, never a hung check"""


def _alarm(signum, frame):
    raise NoResult('no result within %g s' % CALL_SECONDS)


def limited(f):
    import signal
    old = signal.signal(signal.SIGALRM, _alarm)
    signal.setitimer(signal.ITIMER_REAL, CALL_SECONDS)
    try:
        return f()
    finally:
        signal.setitimer(signal.ITIMER_REAL, 0)
        signal.signal(signal.SIGALRM, old)


def bed_path(key, data, gz):
    """a BED file with the given bytes (plain or gzipped), written once per content"""
    k = (key, gz)
    if k not in _BED_CACHE:
        path = os.path.join(os.environ['SCMO_SCRATCH'], 'g%d.bed%s' % (len(_BED_CACHE), '.gz' if gz else ''))
        if gz:
            import gzip
            with gzip.open(path, 'wb') as f:
                f.write(data)
        else:
            with open(path, 'wb') as f:
                f.write(data)
        _BED_CACHE[k] = path
    return _BED_CACHE[k]


def refusal(e):
    """which exception refuses an input is not constrained: any Exception = the call raises (inside the precondition of a
    theorem that is a violation, outside it is compared with the model's Raise); only non-Exception BaseExceptions
    (MemoryError is an Exception too; KeyboardInterrupt, SystemExit) are reported as harness errors"""
    if isinstance(e, Exception):
        return [1]
    return ['error', '%s: %s' % (type(e).__name__, e)]


def run_gcase(B, bp_chunked, t, n):
    """blacklisted_binning_contigs(contig list | dict items | BAM path, bin_size, fragment_size, BED path, whitelist);
    t['text'] (the file content) overrides the canonical print of t['bed']; with t['bp'] the generator is passed through
    bp_chunked.  Result: {'rows': ..} or {'rows': .., 'chunks': ..}; a refusal is [1]."""
    try:        # preparing the files: a failure here is a harness error, never a refusal of the implementation
        path = None
        if t.get('text') is not None:
            path = bed_path(t['text'], t['text'].encode('utf-8'), t.get('gz'))
        elif t['bed'] is not None:
            txt = ''.join('%s\t%d\t%d\n' % (c, s, e) for c, s, e in t['bed'])
            path = bed_path(txt, txt.encode('utf-8'), t.get('gz'))
        how = t.get('contigs_as', 'list')
        if how == 'bam':
            import pysam
            res = os.path.join(os.environ['SCMO_SCRATCH'], 'gc%d.bam' % n)
            header = {'HD': {'VN': '1.6', 'SO': 'coordinate'}, 'SQ': [{'SN': c, 'LN': ln} for c, ln in t['contigs']]}
            with pysam.AlignmentFile(res, 'wb', header=header):
                pass
        elif how == 'items':
            res = dict((c, ln) for c, ln in t['contigs']).items()
        else:
            res = [tuple(x) for x in t['contigs']]
        wl = t['whitelist']
        if wl is not None:
            wl = {'set': set, 'tuple': tuple}.get(t.get('whitelist_as'), list)(wl)
    except BaseException as e:
        return {'rows': ['error', 'harness: %s: %s' % (type(e).__name__, e)]}
    def call():
        gen = B.blacklisted_binning_contigs(res, t['bin_size'], t['fragment_size'], blacklist_path=path, contig_whitelist=wl)
        if t.get('bp') is None:
            return {'rows': [list(x) for x in gen]}
        chunks = [[list(x) for x in ch] for ch in bp_chunked(gen, t['bp'])]
        return {'rows': [r for ch in chunks for r in ch], 'chunks': chunks}
    try:
        return limited(call)
    except BaseException as e:
        return {'rows': refusal(e), 'why': '%s: %s' % (type(e).__name__, str(e)[:200])}


def run_text(B, t):
    """the records blacklisted_binning_contigs reads from a BED text: per contig the (start, end) pairs in file order
    (get_bins_from_bed_dict, the function it calls; get_bins_from_bed_iter as a fallback); coordinates as strings"""
    try:
        path = bed_path(t['text'], t['text'].encode('utf-8'), t.get('gz'))
    except BaseException as e:
        return ['error', 'harness: %s: %s' % (type(e).__name__, e)]
    def call():
        if hasattr(B, 'get_bins_from_bed_dict'):
            d = B.get_bins_from_bed_dict(path)
            return [[c, [[str(s), str(e)] for s, e in l]] for c, l in d.items()]
        if hasattr(B, 'get_bins_from_bed_iter'):
            d = {}
            for c, s, e in B.get_bins_from_bed_iter(path):
                d.setdefault(c, []).append([str(s), str(e)])
            return [[c, l] for c, l in d.items()]
        return ['missing']
    try:
        return limited(call)
    except BaseException as e:
        return refusal(e)


def handler(p):
    old = sys.stdout
    sys.stdout = open(os.devnull, 'w')
    try:
        from singlecellmultiomics.bamProcessing import bamBinCounts as B
        from singlecellmultiomics.utils.binning import bp_chunked
        from singlecellmultiomics.utils import bp_chunked as bp_chunked2   # the name bamtagmultiome_multi imports
        out = [run_case(B, bp_chunked, c) for c in p.get('cases', [])]
        cont = [run_contigs(B, t, n) for n, t in enumerate(p.get('contigs', []))]
        hist = [run_history(B, h, n) for n, h in enumerate(p.get('histories', []))]
        if p.get('gcases') or p.get('texts'):
            try:        # backstop for a runaway allocation (a legitimate batch needs a few hundred MB)
                import resource
                resource.setrlimit(resource.RLIMIT_AS, (8 << 30, 8 << 30))
            except Exception:
                pass
        # a time budget for the whole batch (a legitimate batch takes seconds): cases after it are reported as skipped
        import time
        t_end = time.time() + float(p.get('budget', 1e9))
        gres = [run_gcase(B, bp_chunked, t, n) if time.time() < t_end else {'rows': ['skipped']}
                for n, t in enumerate(p.get('gcases', []))]
        tres = [run_text(B, t) if time.time() < t_end else ['skipped'] for t in p.get('texts', [])]
        same = bp_chunked2 is bp_chunked
        import locale
        enc = (locale.getpreferredencoding(False) or '').lower().replace('-', '')
    finally:
        sys.stdout = old
    return {'out': out, 'contigs': cont, 'histories': hist, 'bp_chunked_same_object': same, 'gcases': gres, 'texts': tres,
            'text_encoding': enc}


if __name__ == '__main__':
    fw.impl_main(handler)
