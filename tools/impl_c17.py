"""runs the REAL tiling functions of bamBinCounts.py / utils/binning.py for C17.

payload: {'cases': [[fn, args...], ...], 'contigs': [ {...}, ... ]}
a case uses the same encoding as the input of run_C17 mode 0 (see coq/Model/C17.v run_fn):
  [0, start, end, step]                      fill_range
  [1, rangelist, start, end]                 trim_rangelist
  [2, clist]                                 range_contains_overlap
  [3, clist]                                 _merge_overlapping_ranges  (len(clist) >= 2 only)
  [4, clist]                                 merge_overlapping_ranges
  [5, start, end, bin_size, blacklist, frag] blacklisted_binning   (frag: [] = None, [f] = f)
  [6, jobs, bp_per_job]                      bp_chunked  (jobs: [[start, end], ...])
results use the encoding of the model's output; an unexpected exception becomes ['error', 'Type: msg'].
"""
import os, sys
import fw


def tup(l):
    return [tuple(x) for x in l]


def run_case(B, bp_chunked, c):
    fn = c[0]
    try:
        if fn == 0:
            try:
                return [0, [list(x) for x in B.fill_range(c[1], c[2], c[3])]]
            except (ValueError, ArithmeticError):   # which exception refuses a step of 0 is not constrained
                return [1, 1]
        if fn == 1:
            return [list(x) for x in B.trim_rangelist(tup(c[1]), c[2], c[3])]
        if fn == 2:
            return 1 if B.range_contains_overlap(tup(c[1])) else 0
        if fn == 3:
            if not hasattr(B, '_merge_overlapping_ranges'):
                return ['missing']     # a private helper: nothing is claimed about it when it no longer exists
            return [list(x) for x in B._merge_overlapping_ranges(tup(c[1]))]
        if fn == 4:
            return [0, [list(x) for x in B.merge_overlapping_ranges(tup(c[1]))]]
        if fn == 5:
            frag = c[5][0] if c[5] else None
            bl = tup(c[4])
            try:
                if c[4] == [] and (c[1] + c[2] + c[3]) % 2:   # None and [] are both used by callers
                    bl = None
                return [0, [list(x) for x in B.blacklisted_binning(c[1], c[2], c[3], bl, frag)]]
            except (ValueError, ArithmeticError):
                return [1, 1]
        if fn == 6:
            jobs = [('chr1', s, e, i) for i, (s, e) in enumerate(c[1])]
            return [[j[3] for j in ch] for ch in bp_chunked(iter(jobs), c[2])]
        return ['error', 'unknown fn']
    except BaseException as e:  # never let one case kill the batch
        return ['error', '%s: %s' % (type(e).__name__, e)]


def run_contigs(B, t, n):
    """blacklisted_binning_contigs with a contig-length list and a BED blacklist written to scratch"""
    try:
        path = None
        if t['bed'] is not None:
            path = os.path.join(os.environ['SCMO_SCRATCH'], 'bl%d.bed%s' % (n, '.gz' if t.get('gz') else ''))
            txt = ''.join('%s\t%d\t%d\n' % (c, s, e) for c, s, e in t['bed'])
            if t.get('gz'):
                import gzip
                with gzip.open(path, 'wt') as f:
                    f.write(txt)
            else:
                with open(path, 'w') as f:
                    f.write(txt)
        res = B.blacklisted_binning_contigs([tuple(x) for x in t['contigs']], t['bin_size'], t['fragment_size'],
                                            blacklist_path=path, contig_whitelist=t['whitelist'])
        return [list(x) for x in res]
    except BaseException as e:
        return ['error', '%s: %s' % (type(e).__name__, e)]


def write_bed(path, bed, gz):
    txt = ''.join('%s\t%d\t%d\n' % (c, s, e) for c, s, e in bed)
    if gz:
        import gzip
        with gzip.open(path, 'wt') as f:
            f.write(txt)
    else:
        with open(path, 'w') as f:
            f.write(txt)


def run_history(B, steps, n):
    """several blacklisted_binning_contigs calls in ONE process with contig_length_resource = a BAM path; the
    BAM (header only) and the BED file of a slot are rewritten at the same path before each call, so every call
    must reflect the files as they are at that moment"""
    import pysam
    out = []
    for st in steps:
        try:
            bam = os.path.join(os.environ['SCMO_SCRATCH'], 'h%d_slot%d.bam' % (n, st['bam_slot']))
            header = {'HD': {'VN': '1.6', 'SO': 'coordinate'}, 'SQ': [{'SN': c, 'LN': ln} for c, ln in st['contigs']]}
            with pysam.AlignmentFile(bam, 'wb', header=header):
                pass
            path = None
            if st['bed'] is not None:
                path = os.path.join(os.environ['SCMO_SCRATCH'], 'h%d_bed%d.bed%s' % (n, st['bed_slot'], '.gz' if st.get('gz') else ''))
                write_bed(path, st['bed'], st.get('gz'))
            res = B.blacklisted_binning_contigs(bam, st['bin_size'], st['fragment_size'], blacklist_path=path,
                                                contig_whitelist=st['whitelist'])
            out.append([list(x) for x in res])
        except BaseException as e:
            out.append(['error', '%s: %s' % (type(e).__name__, e)])
    return out


def handler(p):
    old = sys.stdout
    sys.stdout = open(os.devnull, 'w')
    try:
        from singlecellmultiomics.bamProcessing import bamBinCounts as B
        from singlecellmultiomics.utils.binning import bp_chunked
        from singlecellmultiomics.utils import bp_chunked as bp_chunked2   # the name bamtagmultiome_multi imports
        out = [run_case(B, bp_chunked, c) for c in p.get('cases', [])]
        cont = [run_contigs(B, t, n) for n, t in enumerate(p.get('contigs', []))]
        hist = [run_history(B, h, n) for n, h in enumerate(p.get('histories', []))]
        same = bp_chunked2 is bp_chunked
    finally:
        sys.stdout = old
    return {'out': out, 'contigs': cont, 'histories': hist, 'bp_chunked_same_object': same}


if __name__ == '__main__':
    fw.impl_main(handler)
