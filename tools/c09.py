"""C09 - cut-site coordinates are correct and strand-symmetric (NlaIII / scCHIC fragments).

T: the site arithmetic of NlaIIIFragment.identify_site and CHICFragment.identify_site (from the
   `r1_start = ...` statement to the end of the function: clip correction, guard chain, offsets, the
   recognised sequence, rejection reasons) is REGENERATED from the source into coq/Gen/GenSite.v by the
   statement-level extractor below (fail closed on any statement outside the recognised shapes).
K: simulated reads (independent Python ground-truth simulator) -> in-memory pysam reads -> real fragment
   classes; DS/RS/RZ/RR, qcfail, is_valid, site_location compared with the Coq model.
"""
import ast, hashlib, itertools, json, os
import fw, py2coq
from py2coq import Untranslatable

NLA = 'singlecellmultiomics/fragment/nlaIII.py'
CHIC = 'singlecellmultiomics/fragment/chic.py'


# =============================================================================== T: source -> GenSite.v
def codes(s):
    return '[' + '; '.join(str(ord(c)) for c in s) + ']'


class SiteTranslator(py2coq.ExprTranslator):
    """ExprTranslator + string tests on the two motif variables + attribute substitution."""
    STR_VARS = ('forward_motif', 'rev_motif')

    def s(self, n):
        if isinstance(n, ast.Name) and n.id in self.STR_VARS:
            return n.id
        if isinstance(n, ast.Constant) and isinstance(n.value, str):
            return codes(n.value)
        self.fail(n, 'string expression outside subset')

    def is_str(self, n):
        return (isinstance(n, ast.Name) and n.id in self.STR_VARS) or \
               (isinstance(n, ast.Constant) and isinstance(n.value, str))

    def b(self, n):
        if isinstance(n, ast.Compare) and len(n.ops) == 1 and isinstance(n.ops[0], (ast.Eq, ast.NotEq)) \
                and (self.is_str(n.left) or self.is_str(n.comparators[0])):
            e = '(str_eqb %s %s)' % (self.s(n.left), self.s(n.comparators[0]))
            return e if isinstance(n.ops[0], ast.Eq) else '(negb %s)' % e
        if isinstance(n, ast.Call) and isinstance(n.func, ast.Attribute) and n.func.attr in ('startswith', 'endswith') \
                and len(n.args) == 1 and not n.keywords and self.is_str(n.func.value) \
                and isinstance(n.args[0], ast.Constant) and isinstance(n.args[0].value, str):
            return '(py_%s %s %s)' % (n.func.attr, self.s(n.args[0]), self.s(n.func.value))
        return super().b(n)


ENV = {
    'R1.is_reverse': 'is_reverse', 'R1.reference_start': 'reference_start', 'R1.reference_end': 'reference_end',
    'R1.cigartuples[0][0]': 'first_op', 'R1.cigartuples[0][1]': 'first_len',
    'R1.cigartuples[-1][0]': 'last_op', 'R1.cigartuples[-1][1]': 'last_len',
    'self.no_umi_cigar_processing': 'no_umi_cigar_processing', 'self.check_motif': 'check_motif',
    'self.allow_cycle_shift': 'allow_cycle_shift', 'self.invert_strand': 'invert_strand',
    'is_trimmed': 'is_trimmed',
}
BOOLS = ('is_reverse', 'no_umi_cigar_processing', 'check_motif', 'allow_cycle_shift', 'invert_strand', 'is_trimmed')


class Extractor:
    """symbolic execution of the tail of identify_site.  Result tuple of the generated function:
       (ds_set, site_strand, site_pos, rz, rr, qcfail, found)
       ds_set   : set_site writes the DS tag (nla: valid=True ; chic: self.found_valid_site at the call)
       rz / rr  : option str - recognised sequence / rejection reason
       qcfail   : the rejection flags the reads qcfail
       found    : nla: identify_site returns a truthy value (that is what __init__ stores in
                  found_valid_site); chic: self.found_valid_site after the call"""

    def __init__(self, kind):
        self.kind = kind
        self.tr = SiteTranslator(env=dict(ENV), bool_names=BOOLS)
        self.tr.bool_env = set(ENV)

    def fail(self, node, why):
        raise Untranslatable('%s identify_site: %s at line %s: %s'
                             % (self.kind, why, getattr(node, 'lineno', '?'), ast.unparse(node)[:160]))

    # ---- blocks that only update the integer variable `var`
    def only_updates(self, stmts, var):
        for st in stmts:
            if isinstance(st, ast.Pass):
                continue
            if isinstance(st, ast.Assign) and len(st.targets) == 1 and isinstance(st.targets[0], ast.Name) \
                    and st.targets[0].id == var and not isinstance(st.value, ast.Tuple):
                continue
            if isinstance(st, ast.AugAssign) and isinstance(st.target, ast.Name) and st.target.id == var \
                    and isinstance(st.op, (ast.Add, ast.Sub)):
                continue
            if isinstance(st, ast.If) and self.only_updates(st.body, var) and self.only_updates(st.orelse, var):
                continue
            return False
        return True

    def value_after(self, stmts, var):
        """Coq expression for the value of `var` after the block (var is in scope under its own name)"""
        if not stmts:
            return var
        st, rest = stmts[0], stmts[1:]
        if isinstance(st, ast.Pass):
            return self.value_after(rest, var)
        if isinstance(st, ast.Assign):
            e = self.tr.z(st.value)
        elif isinstance(st, ast.AugAssign):
            e = '(%s %s %s)' % (var, '+' if isinstance(st.op, ast.Add) else '-', self.tr.z(st.value))
        elif isinstance(st, ast.If):
            e = '(if %s then %s else %s)' % (self.tr.b(st.test), self.value_after(st.body, var),
                                             self.value_after(st.orelse, var))
        else:
            self.fail(st, 'statement outside subset')
        if not rest:
            return e
        return '(let %s := %s in %s)' % (var, e, self.value_after(rest, var))

    # ---- rpos / rejection-reason blocks
    def rpos_of(self, value):
        if isinstance(value, ast.Tuple) and len(value.elts) == 2 and ast.unparse(value.elts[0]) == 'R1.reference_name':
            return self.tr.z(value.elts[1])
        self.fail(value, 'rpos is not (R1.reference_name, <int expr>)')

    def only_rpos(self, stmts):
        for st in stmts:
            if isinstance(st, ast.Assign) and len(st.targets) == 1 and isinstance(st.targets[0], ast.Name) \
                    and st.targets[0].id == 'rpos':
                continue
            if isinstance(st, ast.If) and st.orelse and self.only_rpos(st.body) and self.only_rpos(st.orelse):
                continue
            return False
        return bool(stmts)

    def rpos_after(self, stmts):
        st = stmts[-1]
        if isinstance(st, ast.Assign):
            return self.rpos_of(st.value)
        return '(if %s then %s else %s)' % (self.tr.b(st.test), self.rpos_after(st.body), self.rpos_after(st.orelse))

    def is_call(self, st, name):
        return isinstance(st, ast.Expr) and isinstance(st.value, ast.Call) \
            and ast.unparse(st.value.func) == 'self.' + name

    def only_reason(self, stmts):
        for st in stmts:
            if self.is_call(st, 'set_rejection_reason'):
                continue
            if isinstance(st, ast.If) and st.orelse and self.only_reason(st.body) and self.only_reason(st.orelse):
                continue
            return False
        return bool(stmts)

    def reason_after(self, stmts):
        """-> (rr expr, qcfail expr)"""
        if len(stmts) != 1:
            self.fail(stmts[0], 'more than one rejection statement in a block')
        st = stmts[0]
        if isinstance(st, ast.If):
            a, b = self.reason_after(st.body), self.reason_after(st.orelse)
            c = self.tr.b(st.test)
            return '(if %s then %s else %s)' % (c, a[0], b[0]), '(if %s then %s else %s)' % (c, a[1], b[1])
        call = st.value
        if len(call.args) != 1 or not (isinstance(call.args[0], ast.Constant) and isinstance(call.args[0].value, str)):
            self.fail(st, 'rejection reason is not a string literal')
        qc = 'false'
        for kw in call.keywords:
            if kw.arg == 'set_qcfail' and isinstance(kw.value, ast.Constant) and isinstance(kw.value.value, bool):
                qc = 'true' if kw.value.value else 'false'
            else:
                self.fail(st, 'unexpected keyword')
        return '(Some %s)' % codes(call.args[0].value), qc

    # ---- decision part
    def decide(self, stmts, st0):
        s = dict(st0)
        for k, st in enumerate(stmts):
            last = k == len(stmts) - 1
            if isinstance(st, ast.Pass):
                continue
            if isinstance(st, ast.Assign) and len(st.targets) == 1:
                t = ast.unparse(st.targets[0])
                if t == 'rpos':
                    s['rpos'] = self.rpos_of(st.value)
                    continue
                if t == 'self.found_valid_site' and isinstance(st.value, ast.Constant) and isinstance(st.value.value, bool):
                    s['found'] = 'true' if st.value.value else 'false'
                    continue
                self.fail(st, 'assignment outside subset')
            if isinstance(st, ast.If):
                if self.only_rpos([st]):
                    s['rpos'] = self.rpos_after([st])
                    continue
                if self.only_reason([st]):
                    s['rr'], s['qc'] = self.reason_after([st])
                    continue
                if not last:
                    self.fail(st, 'decision `if` is not the last statement of its block')
                return '(if %s\n   then %s\n   else %s)' % (self.tr.b(st.test), self.decide(st.body, s),
                                                         self.decide(st.orelse, s))
            if self.is_call(st, 'set_rejection_reason'):
                s['rr'], s['qc'] = self.reason_after([st])
                continue
            if self.is_call(st, 'set_recognized_sequence'):
                a = st.value.args
                if len(a) != 1 or st.value.keywords:
                    self.fail(st, 'set_recognized_sequence form')
                s['rz'] = '(Some %s)' % self.tr.s(a[0])
                continue
            if self.is_call(st, 'set_site'):
                if st.value.args:
                    self.fail(st, 'positional arguments to set_site')
                kw = {k.arg: k.value for k in st.value.keywords}
                allowed = {'site_strand', 'site_chrom', 'site_pos'} | ({'valid'} if self.kind == 'nla' else {'is_trimmed'})
                if set(kw) - allowed or not {'site_strand', 'site_chrom', 'site_pos'} <= set(kw):
                    self.fail(st, 'set_site keywords')
                chrom = ast.unparse(kw['site_chrom'])
                if chrom not in ('R1.reference_name', 'rpos[0]'):
                    self.fail(st, 'site_chrom')
                if ast.unparse(kw['site_pos']) == 'rpos[1]':
                    if s.get('rpos') is None:
                        self.fail(st, 'rpos used before assignment')
                    pos = s['rpos']
                else:
                    pos = self.tr.z(kw['site_pos'])
                strand = self.tr.b(kw['site_strand'])
                if self.kind == 'nla':
                    v = kw.get('valid')
                    if v is None:
                        ds = 'true'
                    elif isinstance(v, ast.Constant) and isinstance(v.value, bool):
                        ds = 'true' if v.value else 'false'
                    else:
                        self.fail(st, 'valid= is not a literal')
                else:
                    ds = s['found']
                if s.get('site') is not None:
                    self.fail(st, 'set_site called twice on one path')
                s['site'] = (ds, strand, pos)
                continue
            if isinstance(st, ast.Return):
                if not last:
                    self.fail(st, 'code after return')
                v = st.value
                if v is None or (isinstance(v, ast.Constant) and v.value is None):
                    truthy = 'false'
                elif isinstance(v, ast.Name) and v.id == 'rpos':
                    truthy = 'true'   # a 2-tuple is truthy
                elif ast.unparse(v) == 'rpos[1]' and s.get('rpos') is not None:
                    truthy = '(negb (%s =? 0))' % s['rpos']   # an int is truthy iff non-zero
                else:
                    self.fail(st, 'return value outside subset')
                return self.result(s, truthy, st)
            self.fail(st, 'statement outside subset')
        return self.result(s, 'false', stmts[-1] if stmts else None)

    def result(self, s, truthy, node):
        if s.get('site') is None:
            self.fail(node, 'path ends without set_site')
        ds, strand, pos = s['site']
        found = truthy if self.kind == 'nla' else s['found']
        return '(%s, %s, %s, %s, %s, %s, %s)' % (ds, strand, pos, s['rz'], s['rr'], s['qc'], found)


def motif_expr(value):
    """R1.seq[:4] -> py_prefix 4 seq ; R1.seq[-4:] -> py_suffix 4 seq"""
    if isinstance(value, ast.Subscript) and ast.unparse(value.value) in ('R1.seq', 'R1.query_sequence') \
            and isinstance(value.slice, ast.Slice) and value.slice.step is None:
        lo, hi = value.slice.lower, value.slice.upper
        if lo is None and isinstance(hi, ast.Constant) and isinstance(hi.value, int) and hi.value > 0:
            return '(py_prefix %d seq)' % hi.value
        if hi is None and isinstance(lo, ast.UnaryOp) and isinstance(lo.op, ast.USub) \
                and isinstance(lo.operand, ast.Constant) and isinstance(lo.operand.value, int) and lo.operand.value > 0:
            return '(py_suffix %d seq)' % lo.operand.value
    raise Untranslatable('motif slice outside subset: %s' % ast.unparse(value))


def gen_site(kind, rel):
    path = os.path.join(fw.REPO, rel)
    src = open(path).read()
    tree = ast.parse(src)
    cls = 'NlaIIIFragment' if kind == 'nla' else 'CHICFragment'
    fn = py2coq.find_function(tree, cls + '.identify_site')
    body = list(fn.body)
    idx = [i for i, st in enumerate(body) if isinstance(st, ast.Assign) and len(st.targets) == 1
           and ast.unparse(st.targets[0]) == 'r1_start']
    if len(idx) != 1:
        raise Untranslatable('%s.identify_site: expected exactly one top-level assignment to r1_start' % cls)
    i0 = idx[0]
    ex = Extractor(kind)
    lets = []
    if kind == 'nla':
        # the motif variables: assigned in the else-arm of `if self.no_overhang:` (the only assignments)
        found = {}
        for n in ast.walk(fn):
            if isinstance(n, ast.Assign) and len(n.targets) == 1 and isinstance(n.targets[0], ast.Name) \
                    and n.targets[0].id in SiteTranslator.STR_VARS:
                if n.targets[0].id in found:
                    raise Untranslatable('motif variable assigned twice')
                found[n.targets[0].id] = motif_expr(n.value)
        if set(found) != set(SiteTranslator.STR_VARS):
            raise Untranslatable('motif variables not found')
        arm = [st for st in body[:i0] if isinstance(st, ast.If) and ast.unparse(st.test) == 'self.no_overhang']
        if len(arm) != 1 or sorted(ast.unparse(s.targets[0]) for s in arm[0].orelse if isinstance(s, ast.Assign)) \
                != sorted(SiteTranslator.STR_VARS) or len(arm[0].orelse) != 2:
            raise Untranslatable('motif variables are not assigned in the else-arm of `if self.no_overhang`')
        for v in SiteTranslator.STR_VARS:
            lets.append('let %s := %s in' % (v, found[v]))
    else:
        tr = [st for st in body[:i0] if isinstance(st, ast.Assign) and ast.unparse(st.targets[0]) == 'is_trimmed']
        if len(tr) != 1 or ast.unparse(tr[0].value) != "R1.has_tag('MX') and R1.get_tag('MX').startswith('scCHIC')":
            raise Untranslatable('is_trimmed definition changed: %s' % (ast.unparse(tr[0].value) if tr else None))
    tail = body[i0:]
    # r1_start = ... ; zero or more blocks that only update r1_start ; decision
    lets.append('let r1_start := %s in' % ex.tr.z(tail[0].value))
    k = 1
    while k < len(tail) - 1 and ex.only_updates([tail[k]], 'r1_start'):
        lets.append('let r1_start := %s in' % ex.value_after([tail[k]], 'r1_start'))
        k += 1
    st0 = {'rpos': None, 'rr': 'None', 'rz': 'None', 'qc': 'false', 'site': None, 'found': 'false'}
    res = ex.decide(tail[k:], st0)
    seg = '\n'.join(src.splitlines()[tail[0].lineno - 1:fn.end_lineno])
    sha = hashlib.sha256(seg.encode()).hexdigest()
    if kind == 'nla':
        params = '(no_umi_cigar_processing check_motif allow_cycle_shift : bool) (is_reverse : bool)\n' \
                 '  (reference_start reference_end first_op first_len last_op last_len : Z) (seq : str)'
    else:
        params = '(no_umi_cigar_processing invert_strand is_trimmed : bool) (is_reverse : bool)\n' \
                 '  (reference_start reference_end first_op first_len last_op last_len : Z)'
    text = ['(* source: %s lines %d-%d sha256 %s' % (rel, tail[0].lineno, fn.end_lineno, sha),
            '   result: (ds_set, site_strand, site_pos, rz, rr, reads_qcfail, found_valid_site) *)',
            'Definition %s_site_gen %s\n  : bool * bool * Z * option str * option str * bool * bool :=' % (kind, params)]
    text += ['  ' + l for l in lets]
    text.append('  ' + res + '.')
    return '\n'.join(text), {'source': rel, 'lines': [tail[0].lineno, fn.end_lineno], 'sha256': sha,
                             'coq': '%s_site_gen' % kind}


FRAG = 'singlecellmultiomics/fragment/fragment.py'


def gen_homopolymer():
    """Fragment.__init__: `if self.max_NUC_stretch is not None and (self.max_NUC_stretch*'A' in read.seq or ...)`
    -> the list of nucleotides the homopolymer filter tests; CHICFragment's max_NUC_stretch literal"""
    path = os.path.join(fw.REPO, FRAG)
    src = open(path).read()
    fn = py2coq.find_function(ast.parse(src), 'Fragment.__init__')
    ifs = [n for n in ast.walk(fn) if isinstance(n, ast.If) and 'max_NUC_stretch' in ast.unparse(n.test)]
    if len(ifs) != 1:
        raise Untranslatable('Fragment.__init__: expected exactly one test on max_NUC_stretch, found %d' % len(ifs))
    t = ifs[0].test
    if not (isinstance(t, ast.BoolOp) and isinstance(t.op, ast.And) and len(t.values) == 2
            and ast.unparse(t.values[0]) == 'self.max_NUC_stretch is not None'):
        raise Untranslatable('homopolymer test shape: %s' % ast.unparse(t)[:200])
    alts = t.values[1].values if isinstance(t.values[1], ast.BoolOp) and isinstance(t.values[1].op, ast.Or) else [t.values[1]]
    bases = []
    for a in alts:
        ok = isinstance(a, ast.Compare) and len(a.ops) == 1 and isinstance(a.ops[0], ast.In) \
            and ast.unparse(a.comparators[0]) in ('read.seq', 'read.query_sequence') \
            and isinstance(a.left, ast.BinOp) and isinstance(a.left.op, ast.Mult)
        if ok:
            l, r = a.left.left, a.left.right
            if ast.unparse(r) == 'self.max_NUC_stretch':
                l, r = r, l
            ok = ast.unparse(l) == 'self.max_NUC_stretch' and isinstance(r, ast.Constant) and isinstance(r.value, str) and len(r.value) == 1
        if not ok:
            raise Untranslatable('homopolymer alternative outside subset: %s' % ast.unparse(a))
        bases.append(ord(r.value))
    body = [ast.unparse(x) for x in ifs[0].body]
    if body != ["self.set_rejection_reason('HomoPolymer', set_qcfail=True)", 'self.qcfail = True', 'break']:
        raise Untranslatable('homopolymer branch body changed: %r' % body)
    # CHICFragment passes max_NUC_stretch = <literal> to Fragment.__init__
    csrc = open(os.path.join(fw.REPO, CHIC)).read()
    init = py2coq.find_function(ast.parse(csrc), 'CHICFragment.__init__')
    vals = [kw.value for n in ast.walk(init) if isinstance(n, ast.Call) and ast.unparse(n.func) == 'Fragment.__init__'
            for kw in n.keywords if kw.arg == 'max_NUC_stretch']
    if len(vals) != 1 or not (isinstance(vals[0], ast.Constant) and isinstance(vals[0].value, int) and vals[0].value > 0):
        raise Untranslatable('CHICFragment: max_NUC_stretch is not a positive literal')
    seg = ast.get_source_segment(src, t)
    sha = hashlib.sha256(seg.encode()).hexdigest()
    text = ('(* source: %s line %d-%d sha256 %s\n   %s *)\nDefinition nuc_stretch_bases : list Z := [%s].\n'
            '(* source: %s CHICFragment.__init__ max_NUC_stretch *)\nDefinition chic_max_nuc_stretch : nat := %d%%nat.'
            % (FRAG, t.lineno, t.end_lineno, sha, ' '.join(seg.split()), '; '.join(map(str, bases)), CHIC, vals[0].value))
    return text, {'source': FRAG, 'lines': [t.lineno, t.end_lineno], 'sha256': sha, 'coq': 'nuc_stretch_bases'}


def regen_site():
    chunks, meta = [], []
    t, m = gen_homopolymer()
    chunks.append(t)
    meta.append(m)
    for kind, rel in (('nla', NLA), ('chic', CHIC)):
        t, m = gen_site(kind, rel)
        chunks.append(t)
        meta.append(m)
    py2coq.write_gen(os.path.join(fw.COQ, 'Gen', 'GenSite.v'), 'From SCMO Require Import Lib.C09Str.\n', chunks)
    return meta


# =============================================================================== ground truth (Python)
COMP = {'A': 'T', 'T': 'A', 'C': 'G', 'G': 'C'}
REF_CONSUMING = (0, 2, 3, 7, 8)
QUERY_CONSUMING = (0, 1, 4, 7, 8)


def revcomp(s):
    return ''.join(COMP.get(c, c) for c in reversed(s))


def ref_len(cigar):
    return sum(l for op, l in cigar if op in REF_CONSUMING)


def ref_span(cigar):
    return ref_len(cigar) or 1     # htslib bam_endpos


def softclip(k):
    return [[4, k]] if k else []


def place_read(cycles, mid, x, reverse, clip, tail, mx=None):
    """independent transcription of the ground truth: a read whose first sequenced cycle pairs with
    reference position x, first `clip` / last `tail` cycles soft-clipped"""
    if reverse:
        end = x - clip + 1                       # one past the right-most aligned base
        return {'start': end - ref_len(mid), 'cigar': softclip(tail) + [list(o) for o in mid] + softclip(clip),
                'rev': True, 'seq': revcomp(cycles), 'unmapped': False, 'qcfail': False, 'mx': mx, 'lh': None}
    return {'start': x + clip, 'cigar': softclip(clip) + [list(o) for o in mid] + softclip(tail),
            'rev': False, 'seq': cycles, 'unmapped': False, 'qcfail': False, 'mx': mx, 'lh': None}


def mirror_read(L, r):
    if r is None:
        return None
    m = dict(r)
    m['start'] = L - (r['start'] + ref_span(r['cigar']))
    m['cigar'] = [list(o) for o in reversed(r['cigar'])]
    m['rev'] = not r['rev']
    m['seq'] = revcomp(r['seq'])
    return m


CFG_KEYS = ('no_umi_cigar_processing', 'check_motif', 'allow_cycle_shift', 'invert_strand')


def cfg_kwargs(kind, c):
    """c = (nocigar, check_motif, allow_shift, invert) -> constructor kwargs (only non-defaults, like the tagger)"""
    kw = {}
    if c[0]:
        kw['no_umi_cigar_processing'] = True
    if c[3]:
        kw['invert_strand'] = True
    if kind == 'nla':
        if not c[1]:
            kw['check_motif'] = False
        if c[2]:
            kw['allow_cycle_shift'] = True
    return kw


def enc_read(r):
    if r is None:
        return []
    return [r['start'], r['cigar'], r['rev'], r['seq'], r['unmapped'], [] if r['mx'] is None else [r['mx']]]


def model_input(case):
    kind = 0 if case['kind'] == 'nla' else 1
    reads = case['reads']
    r1 = reads[0] if reads else None
    r2 = reads[1] if len(reads) > 1 else None
    pre = any(r is not None and r['qcfail'] for r in reads)
    return [kind, list(case['c']), len(reads) == 2, pre, enc_read(r1),
            [] if r2 is None else [r2['unmapped'], r2['rev']],
            [r['seq'] for r in reads if r is not None] if kind == 1 else []]


def opt(v, f=lambda x: x):
    return None if v == [] else f(v[0])


def rr_presence(v):
    """the statement asks that a read without the motif is rejected (no DS, not valid, qcfail), not for the wording of the
    RR reason: a non-empty reason is compared as present"""
    return 'rejected' if len(v) > 0 else ''


def decode_model(out):
    if out == [-1]:
        return 'raise'
    ds, rs, rz, rr, qc, valid, loc, cs = out
    return {'DS': opt(ds), 'RS': opt(rs, bool), 'RZ': opt(rz, fw.as_str), 'RR': opt(rr, rr_presence), 'qc': bool(qc),
            'valid': bool(valid), 'loc': opt(loc), 'cut_strand': opt(cs, bool)}


def canon_impl(case, res):
    """abstraction of the implementation's observation; returns (canonical, problems)"""
    if 'error' in res:
        t = res['error'].split(':')[0]
        return ('raise' if t in ('TypeError', 'ValueError') else 'error:' + res['error']), []
    problems = []
    obs = [o for o in res['reads'] if o is not None]
    ins = [r for r in case['reads'] if r is not None]
    first = obs[0]
    for o in obs[1:]:
        if any(o[t] != first[t] for t in ('DS', 'RS', 'RZ', 'RR')):
            problems.append('reads of one fragment carry different tags: %r vs %r' % (first, o))
    qc_set = [o['qcfail'] and not i['qcfail'] for o, i in zip(obs, ins)]
    if any(i['qcfail'] and not o['qcfail'] for o, i in zip(obs, ins)):
        problems.append('qcfail flag cleared')
    fresh = [q for q, i in zip(qc_set, ins) if not i['qcfail']]
    if fresh and len(set(fresh)) != 1:
        problems.append('qcfail set on some reads only: %r' % (qc_set,))
    qc = bool(fresh and fresh[0])
    loc = res['site_location']
    c = {'DS': first['DS'], 'RS': None if first['RS'] is None else bool(first['RS']), 'RZ': first['RZ'],
         'RR': None if first['RR'] is None else rr_presence(first['RR']), 'qc': qc, 'valid': res['valid'], 'loc': None if loc is None else loc[1],
         'cut_strand': res['cut_site_strand']}
    if res['strand'] != res['cut_site_strand']:
        problems.append('fragment.strand %r != cut_site_strand %r' % (res['strand'], res['cut_site_strand']))
    if (res['match_hash'] is None) == res['valid']:
        problems.append('match_hash %r inconsistent with is_valid %r' % (res['match_hash'], res['valid']))
    if res['match_hash'] is not None and (res['match_hash'][-2] != c['loc'] or res['match_hash'][-4] != c['cut_strand']):
        problems.append('match_hash %r does not carry the site' % (res['match_hash'],))
    if loc is not None and res['get_site_location'] != loc:
        problems.append('get_site_location differs from site_location')
    return c, problems


def mask_qc(case, m):
    """the model says `identify_site flags the reads`; when every read already carried the flag the
    implementation's observation cannot show it"""
    if isinstance(m, dict) and all(r['qcfail'] for r in case['reads'] if r is not None):
        m = dict(m)
        m['qc'] = False
    return m


# =============================================================================== the check
class Prop(fw.PropBase):
    ID = 'C09'
    PROPS = 'Props/C09.v'
    TRUSTED = [
        'tools/c09.py Extractor/SiteTranslator (statement-level extraction of identify_site into Gen/GenSite.v; '
        'fails closed on unrecognised statements; watched by K on every run)',
        'modelled not verified: pysam AlignedSegment (reference_end = reference_start + reference-consuming CIGAR '
        'lengths, cigartuples, seq slicing, tag storage) - K compares pysam\'s geometry with the harness on every case; '
        'Fragment.__init__ bookkeeping (sample, UMI, span), set_meta writing the same tag to every read',
        'not modelled: NlaIIIFragment(no_overhang=True) (reference lookup mode), max_fragment_size, the CHIC '
        'homopolymer filter (max_NUC_stretch=18): generated reads have no 18-mer homopolymers',
    ]
    ASSUMPTIONS = [
        'the aligner reports the read-start clipping as one soft-clip operation at the outer end of the CIGAR '
        '(no hard clip outside it) and the aligned part contains no clip operations',
        'with no_umi_cigar_processing the site theorems hold for unclipped read starts only (that flag switches the '
        'clip correction off by design)',
        'ground truth = the simulator simulate_nla / simulate_chic (first sequenced cycle pairs with the first base of '
        'the motif / with the ligated overhang base)',
    ]

    def regen(self):
        return regen_site()

    # ---------------------------------------------------------------- generators
    def rand_seq(self, n):
        while True:
            s = ''.join(self.rng.choice('ACGT') for _ in range(n))
            if not any(b * 12 in s for b in 'ACGT'):
                return s

    def rand_mid(self, qlen):
        """aligned part of a CIGAR consuming qlen query bases"""
        r = self.rng.random()
        if qlen < 6 or r < 0.6:
            return [[0, qlen]]
        a = self.rng.randint(1, qlen - 4)
        if r < 0.7:
            b = self.rng.randint(1, min(3, qlen - a - 1))
            return [[0, a], [1, b], [0, qlen - a - b]]
        if r < 0.8:
            return [[0, a], [2, self.rng.randint(1, 5)], [0, qlen - a]]
        if r < 0.9:
            return [[0, a], [3, self.rng.randint(20, 400)], [0, qlen - a]]
        b = self.rng.randint(1, qlen - a - 1)
        return [[7, a], [8, b], [7, qlen - a - b]] if qlen - a - b > 0 else [[7, a], [8, qlen - a]]

    MOTIFS = ['CATG', 'CATG', 'CATG', 'AATG', 'CTTG', 'CAGG', 'CATC', 'NATG', 'ATGC', 'ATGA', 'GCAT', 'TTTT', 'CAT', 'ATG', 'C', '']
    MX = ['scCHIC384C8U3', 'scCHIC384C8U3l', 'scCHIC', None, 'CS2C8U6', 'NLAIII384C8U3', 'scCHI', 'xscCHIC384']
    ALL_CFG = list(itertools.product((False, True), repeat=4))

    def partner(self, r1, how):
        """second read of the pair"""
        if how == 'none':
            return None
        n = self.rng.randint(8, 20)
        rev = (not r1['rev']) if how == 'opposite' else (r1['rev'] if how == 'same' else self.rng.random() < 0.5)
        start = max(0, r1['start'] + self.rng.randint(-60, 60))
        r2 = {'start': start, 'cigar': [[0, n]], 'rev': rev, 'seq': self.rand_seq(n), 'unmapped': False,
              'qcfail': False, 'mx': r1['mx'], 'lh': None}
        if how == 'unmapped':
            r2['unmapped'] = True
            r2['cigar'] = []
        return r2

    def nla_case(self, c, reverse, clip, tail, lost, motif, body_len, p, pair='none', qcfail=False, mid=None, two=True):
        cycles = motif + self.rand_seq(body_len)
        if self.rng.random() < 0.3:
            cycles = cycles + 'CATG'        # motif at the far end of the read (must not be used)
        stored = cycles[1:] if lost else cycles
        qlen = len(stored) - clip - tail
        if qlen < 1:
            return None
        mid = mid or self.rand_mid(qlen)
        d = 1 if lost else 0
        x = (p + 3 - d) if reverse else (p + d)
        r1 = place_read(stored, mid, x, reverse, clip, tail, mx='NLAIII384C8U3')
        r1['qcfail'] = qcfail
        reads = [r1, self.partner(r1, pair)] if two else [r1]
        return {'kind': 'nla', 'c': list(c), 'reads': reads,
                'truth': {'p': p, 'reverse': reverse, 'clip': clip, 'tail': tail, 'lost': lost, 'cycles': cycles}}

    def chic_case(self, c, reverse, clip, tail, mx, body_len, x, pair='absent', qcfail=False, mid=None):
        trimmed = mx is not None and mx.startswith('scCHIC')
        cycles = ('' if trimmed else self.rng.choice('TTTA')) + self.rand_seq(body_len)
        qlen = len(cycles) - clip - tail
        if qlen < 1:
            return None
        mid = mid or self.rand_mid(qlen)
        d = 1 if trimmed else 0
        r1 = place_read(cycles, mid, (x - d) if reverse else (x + d), reverse, clip, tail, mx=mx)
        r1['qcfail'] = qcfail
        reads = [r1] if pair == 'absent' else [r1, self.partner(r1, pair)]
        return {'kind': 'chic', 'c': list(c), 'reads': reads,
                'truth': {'x': x, 'reverse': reverse, 'clip': clip, 'tail': tail, 'trimmed': trimmed}}

    def edge_cases(self):
        out = []
        base = {'start': 500, 'cigar': [[0, 10]], 'rev': False, 'seq': 'CATGAAACCC', 'unmapped': False,
                'qcfail': False, 'mx': None, 'lh': None}

        def rd(**k):
            d = dict(base)
            d.update(k)
            return d
        for c in self.ALL_CFG:
            for kind in ('nla', 'chic'):
                for rev in (False, True):
                    seq = 'AAACCCCATG' if rev else 'CATGAAACCC'
                    out.append({'kind': kind, 'c': list(c), 'reads': [rd(cigar=[], rev=rev, seq=seq), None]})       # no CIGAR
                    out.append({'kind': kind, 'c': list(c), 'reads': [rd(cigar=[], unmapped=True, rev=rev), None]})  # unmapped
                    out.append({'kind': kind, 'c': list(c), 'reads': [None, rd(rev=rev, seq=seq)]})                  # R1 missing
                    out.append({'kind': kind, 'c': list(c), 'reads': [rd(cigar=[[5, 3], [4, 2], [0, 8], [4, 2], [5, 1]] if not rev
                                                                           else [[5, 1], [4, 2], [0, 8], [4, 2], [5, 3]], rev=rev, seq=seq + 'AA'), None]})
                    out.append({'kind': kind, 'c': list(c), 'reads': [rd(cigar=[[4, 10]], rev=rev, seq=seq), None]})  # clip only
                    for s in ('ATG', 'CAT', 'CATG', 'A', 'AT', 'TG', 'ATGC', 'GCAT'):
                        out.append({'kind': kind, 'c': list(c), 'reads': [rd(cigar=[[0, len(s)]], rev=rev, seq=s), None]})
                        if len(s) > 1:
                            out.append({'kind': kind, 'c': list(c), 'reads': [rd(cigar=[[4, 1], [0, len(s) - 1]] if not rev else
                                                                                   [[0, len(s) - 1], [4, 1]], rev=rev, seq=s), None]})
            out.append({'kind': 'nla', 'c': list(c), 'reads': [rd()]})          # one-element read list
            out.append({'kind': 'chic', 'c': list(c), 'reads': [rd()]})
        return out

    def make_cases(self):
        rng = self.rng
        quick = self.tier == 'quick'
        cases = []
        # 1. exhaustive small scope: every configuration x strand x clip 0..6 x lost x motif variant
        for c in self.ALL_CFG:
            for reverse in (False, True):
                for clip in range(0, 7):
                    for lost in (False, True):
                        for motif in self.MOTIFS:
                            for tail in ((0,) if quick else (0, 2)):
                                cs = self.nla_case(c, reverse, clip, tail, lost, motif, 8 + clip + tail, rng.randint(50, 90000))
                                if cs:
                                    cases.append(cs)
                    for mx in self.MX:
                        for tail in ((0,) if quick else (0, 2)):
                            cs = self.chic_case(c, reverse, clip, tail, mx, 9 + clip + tail, rng.randint(50, 90000))
                            if cs and (c[1], c[2]) == (True, False):   # check_motif / allow_shift do not exist for chic
                                cases.append(cs)
        # 1b. directed: motif / overhang at the very start of the contig (site coordinate 0); the mirrored run
        #     puts it at the contig end
        for c in self.ALL_CFG:
            for clip in range(0, 7):
                for lost in (False, True):
                    cs = self.nla_case(c, False, clip, 0, lost, 'CATG', 8 + clip, 0)
                    if cs:
                        cases.append(cs)
                    cs = self.nla_case(c, True, clip, 0, lost, 'CATG', 8 + clip, 100000 - 4)
                    if cs:
                        cases.append(cs)
                if (c[1], c[2]) == (True, False):
                    for mx in ('scCHIC384C8U3', None):
                        cases.append(self.chic_case(c, False, clip, 0, mx, 9 + clip, 1))
                        cases.append(self.chic_case(c, True, clip, 0, mx, 9 + clip, 100000 - 2))
        # 1c. directed: homopolymer runs of 17/18/19 of each nucleotide in R1 or R2 (CHIC filter, max_NUC_stretch 18);
        #     the mirrored run shows the complementary run
        for base in 'ACGT':
            other = {'A': 'C', 'C': 'A', 'G': 'T', 'T': 'G'}[base]
            for n in (17, 18, 19):
                for reverse in (False, True):
                    for target in (0, 1):
                        for kind in ('chic', 'nla'):
                            c = (False, True, False, False)
                            x = rng.randint(200, 90000)
                            cs = self.chic_case(c, reverse, rng.choice([0, 2]), 0, rng.choice(self.MX[:4]), 40, x, pair='opposite', mid=None) \
                                if kind == 'chic' else self.nla_case(c, reverse, rng.choice([0, 2]), 0, False, 'CATG', 40, x, pair='opposite')
                            r = cs['reads'][target]
                            if target == 1:
                                r['seq'] = self.rand_seq(36)
                                r['cigar'] = [[0, 36]]
                            q = r['seq']
                            k = 8
                            r['seq'] = q[:k - 1] + other + base * n + other + q[k + n + 1:]
                            assert len(r['seq']) == len(q)
                            if 'cycles' in cs['truth'] and target == 0:
                                cs['truth']['cycles'] = revcomp(r['seq']) if reverse else r['seq']
                            cases.append(cs)
        # 1d. directed: read 2 present but unmapped, with either strand flag (flags 133 / 149), both R1 strands
        for c in [c for c in self.ALL_CFG if (c[1], c[2]) == (True, False)]:
            for reverse in (False, True):
                for r2rev in (False, True):
                    for mx in ('scCHIC384C8U3', None):
                        cs = self.chic_case(c, reverse, rng.choice([0, 1, 3]), 0, mx, 20, rng.randint(200, 90000), pair='unmapped')
                        cs['reads'][1]['rev'] = r2rev
                        cases.append(cs)
                    cs = self.nla_case(c, reverse, rng.choice([0, 1, 3]), 0, False, 'CATG', 20, rng.randint(200, 90000), pair='unmapped')
                    cs['reads'][1]['rev'] = r2rev
                    cases.append(cs)
        n_exh = len(cases)
        # 2. random: longer reads, indel CIGARs, pairs, qcfail input, motif errors
        N = 3000 if quick else 150000
        for _ in range(N):
            c = rng.choice(self.ALL_CFG)
            reverse = rng.random() < 0.5
            clip = rng.choice([0, 0, 1, 2, 3, 4, 5, 6, rng.randint(0, 12)])
            tail = rng.choice([0, 0, 0, 1, 3, rng.randint(0, 8)])
            qc = rng.random() < 0.06
            if rng.random() < 0.55:
                pair = rng.choice(['none', 'none', 'opposite', 'opposite', 'same', 'unmapped'])
                cs = self.nla_case(c, reverse, clip, tail, rng.random() < 0.3, rng.choice(self.MOTIFS),
                                   rng.randint(4, 60), rng.randint(50, 90000), pair=pair, qcfail=qc)
            else:
                pair = rng.choice(['absent', 'none', 'opposite', 'opposite', 'same', 'unmapped'])
                cs = self.chic_case(c, reverse, clip, tail, rng.choice(self.MX), rng.randint(4, 60),
                                    rng.randint(50, 90000), pair=pair, qcfail=qc)
            if cs:
                if cs['reads'][-1] is not None and len(cs['reads']) > 1 and rng.random() < 0.1:
                    cs['reads'][1]['qcfail'] = True
                cases.append(cs)
        cases += self.edge_cases()
        # 2b. libraries that additionally go through a BAM file on disk and MoleculeIterator
        self.libs = []
        for li in range(4 if quick else 32):
            kind = 'nla' if li % 2 == 0 else 'chic'
            c = rng.choice([c for c in self.ALL_CFG if kind == 'nla' or (c[1], c[2]) == (True, False)])
            idxs = []
            for k in range(60):
                p = 500 + 1500 * k + rng.randint(0, 40)
                reverse, clip, tail = rng.random() < 0.5, rng.choice([0, 0, 1, 2, 3, 6]), rng.choice([0, 0, 2])
                pair = rng.choice(['none', 'opposite'])
                if kind == 'nla':
                    cs = self.nla_case(c, reverse, clip, tail, rng.random() < 0.3, rng.choice(self.MOTIFS[:12]),
                                       rng.randint(10, 40), p, pair=pair)
                else:
                    cs = self.chic_case(c, reverse, clip, tail, rng.choice(self.MX), rng.randint(10, 40), p, pair=pair)
                if cs:
                    idxs.append(len(cases))
                    cases.append(cs)
            self.libs.append({'id': li, 'kind': kind, 'c': list(c), 'idx': idxs})
        # 2b'. command line: bamtagmultiome.py -method nla|chic with each fragment-level flag
        FLAGS = {'--no_umi_cigar_processing': 0, '--no_restriction_motif_check': 1, '--allow_cycle_shift': 2}
        self.clis = []
        combos = [('nla', []), ('nla', ['--no_umi_cigar_processing']), ('nla', ['--no_restriction_motif_check']),
                  ('nla', ['--allow_cycle_shift']), ('nla', list(FLAGS)),
                  ('chic', []), ('chic', ['--no_umi_cigar_processing']), ('chic', ['--allow_cycle_shift']),
                  ('chic', ['--allow_cycle_shift', '--no_umi_cigar_processing'])]
        for li, (kind, flags) in enumerate(combos):
            c = [False, True, False, False]
            for f in flags:
                if kind == 'nla' or f == '--no_umi_cigar_processing':
                    c[FLAGS[f]] = (FLAGS[f] != 1)
            idxs = []
            for k in range(30 if quick else 120):
                p = 500 + 700 * k + rng.randint(0, 40)
                reverse, clip, tail = rng.random() < 0.5, rng.choice([0, 1, 2, 3, 6]), rng.choice([0, 0, 2])
                pair = rng.choice(['none', 'opposite'])
                if kind == 'nla':
                    cs = self.nla_case(c, reverse, clip, tail, rng.random() < 0.3, rng.choice(self.MOTIFS[:12]),
                                       rng.randint(10, 40), p, pair=pair)
                else:
                    cs = self.chic_case(c, reverse, clip, tail, rng.choice(self.MX), rng.randint(10, 40), p, pair=pair)
                if cs:
                    idxs.append(len(cases))
                    cases.append(cs)
            self.clis.append({'id': li, 'kind': kind, 'flags': flags, 'c': list(c), 'idx': idxs})
        # 2c. molecules: 2-4 fragments of one cut (ragged within the assignment radius for chic) plus an unrelated
        #     fragment, tagged through MoleculeIterator + write_tags, as given and mirrored
        self.mols = []
        for mi in range(60 if quick else 600):
            kind = 'chic' if mi % 4 else 'nla'
            c = rng.choice([c for c in self.ALL_CFG if kind == 'nla' or (c[1], c[2]) == (True, False)])
            radius = rng.choice([0, 1, 2, 3, 5]) if kind == 'chic' else None
            reverse = rng.random() < 0.5
            base = rng.randint(200, 90000)
            mx = rng.choice(self.MX)
            pair = rng.choice(['none', 'opposite'])
            idxs = []
            for k in range(rng.randint(2, 4)):
                clip = rng.choice([0, 0, 1, 2, 3]) if not c[0] else 0
                if kind == 'chic':
                    cs = self.chic_case(c, reverse, clip, rng.choice([0, 0, 2]), mx, rng.randint(12, 40),
                                        base + rng.randint(0, radius), pair=pair)
                else:
                    cs = self.nla_case(c, reverse, clip, rng.choice([0, 0, 2]), False, 'CATG', rng.randint(12, 40), base, pair=pair)
                idxs.append(len(cases))
                cases.append(cs)
            far = base + rng.choice([-1, 1]) * rng.randint(30, 60)
            cs = self.chic_case(c, reverse, 0, 0, mx, 20, far, pair=pair) if kind == 'chic' else \
                self.nla_case(c, reverse, 0, 0, False, 'CATG', 20, far, pair=pair)
            cs['reads'][0]['umi'] = 'TTT'
            idxs.append(len(cases))
            cases.append(cs)
            self.mols.append({'id': mi, 'kind': kind, 'c': list(c), 'radius': radius, 'idx': idxs})
        # 3. every case also mirrored onto the reverse-complemented reference
        L = 100000
        mirrored = []
        for k, cs in enumerate(cases):
            m = {'kind': cs['kind'], 'c': cs['c'], 'reads': [mirror_read(L, r) for r in cs['reads']], 'mirror_of': k}
            mirrored.append(m)
        return cases, mirrored, n_exh, L

    def load_corpus(self):
        d = os.path.join(fw.VERIF, 'corpus', 'C09')
        out = []
        if os.path.isdir(d):
            for f in sorted(os.listdir(d)):
                if f.endswith('.json'):
                    out.append(json.load(open(os.path.join(d, f))))
        return out

    def cli_payload(self, cases):
        return [{'id': l['id'], 'kind': l['kind'], 'flags': l['flags'],
                 'cases': [self.payload_case(cases[k]) for k in l['idx']]} for l in self.clis]

    def mol_payload(self, cases, mirrored):
        out = []
        for m in self.mols:
            cfg = cfg_kwargs(m['kind'], m['c'])
            if m['radius'] is not None:
                cfg['assignment_radius'] = m['radius']
            for src in (cases, mirrored):
                out.append({'kind': m['kind'], 'cfg': cfg, 'cases': [self.payload_case(src[k]) for k in m['idx']]})
        return out

    def payload_case(self, cs):
        return {'kind': cs['kind'], 'cfg': cfg_kwargs(cs['kind'], cs['c']), 'reads': cs['reads']}

    # ---------------------------------------------------------------- K
    def correspondence(self):
        corpus = self.load_corpus()
        cases, mirrored, n_exh, L = self.make_cases()
        allc = corpus + cases + mirrored
        off = len(corpus)
        self.L, self.off, self.n_plain = L, off, len(cases)
        bam_payload = [{'id': lib['id'], 'kind': lib['kind'], 'cfg': cfg_kwargs(lib['kind'], lib['c']),
                        'cases': [self.payload_case(cases[k]) for k in lib['idx']]} for lib in self.libs]
        out = fw.run_impl('impl_c09.py', {'cases': [self.payload_case(c) for c in allc], 'bam': bam_payload,
                                          'mol': self.mol_payload(cases, mirrored), 'cli': self.cli_payload(cases)})
        res, self.bam_res, self.mol_res, self.cli_res = out['cases'], out['bam'], out['mol'], out['cli']
        self.allc, self.res = allc, res
        impl, problems = [], []
        for cs, r in zip(allc, res):
            c, pr = canon_impl(cs, r)
            impl.append(c)
            if pr:
                problems.append({'input': self.payload_case(cs), 'problems': pr})
            # pysam contract used by the model: reference_end = start + reference-consuming lengths
            if 'geo' in r:
                for spec, g in zip(cs['reads'], r['geo']):
                    if spec is None:
                        continue
                    exp_end = None if (spec['unmapped'] or not spec['cigar']) else spec['start'] + ref_span(spec['cigar'])
                    exp_ct = [list(x) for x in spec['cigar']] or None
                    if g['reference_end'] != exp_end or g['cigartuples'] != exp_ct or g['seq'] != spec['seq'] \
                            or g['reference_start'] != spec['start']:
                        problems.append({'input': spec, 'problems': ['pysam geometry differs from the model contract: %r' % (g,)]})
        self.impl = impl

        def nontrivial(cs):
            r1 = cs['reads'][0] if cs['reads'] else None
            return r1 is not None and not r1['unmapped'] and (r1['rev'] or any(op == 4 for op, _ in r1['cigar']))
        keys = set()
        for cs in allc:
            if nontrivial(cs):
                keys.add(fw.canon_hash([cs['kind'], cs['c'], [enc_read(r) for r in cs['reads']]]))
        truth = [cs for cs in cases if 'truth' in cs]
        hist_clip, hist_kind = {}, {}
        for cs in truth:
            hist_clip[cs['truth']['clip']] = hist_clip.get(cs['truth']['clip'], 0) + 1
            k = '%s/%s' % (cs['kind'], 'rev' if cs['truth']['reverse'] else 'fwd')
            hist_kind[k] = hist_kind.get(k, 0) + 1
        outcome_hist = {}
        for c in impl:
            k = c if isinstance(c, str) else ('site' if c['DS'] is not None else 'rejected:%s' % c['RR'])
            outcome_hist[k] = outcome_hist.get(k, 0) + 1
        self.cov.update({
            'evaluations': len(allc),
            'distinct_nontrivial': len(keys),
            'rule': 'one evaluation = one fragment built from in-memory pysam reads through NlaIIIFragment / CHICFragment; '
                    'non-trivial = R1 mapped and (reverse strand or soft-clipped); distinct by hash of (class, config, reads). '
                    'every case is also run mirrored onto the reverse-complemented reference',
            'exhaustive': False,
            'exhaustive_small_scope': 'all 16 configurations x strand x clip 0..6 x lost-cycle x %d motif variants (nla), x %d MX layouts (chic): %d cases'
                          % (len(self.MOTIFS), len(self.MX), n_exh),
            'corpus_cases': len(corpus), 'simulated': len(truth), 'mirrored': len(mirrored),
            'hist_clip': {str(k): v for k, v in sorted(hist_clip.items())}, 'hist_class_strand': hist_kind,
            'hist_outcome': outcome_hist,
            'samples': [{'input': self.payload_case(allc[i]), 'impl': impl[i]} for i in (off, off + n_exh // 2, off + len(cases) - 1)],
        })
        if problems:
            self.problems = problems
            raise fw.Broken('correspondence', 'implementation observation inconsistent: %r' % (problems[0],))
        if not self.model_ok:
            return
        self.raw_model = fw.run_model('C09', 0, [model_input(c) for c in allc])
        mout = [decode_model(o) for o in self.raw_model]
        dis = []
        for i, (cs, m, im) in enumerate(zip(allc, mout, impl)):
            if mask_qc(cs, m) != im:
                dis.append({'input': self.payload_case(cs), 'model': m, 'impl': im})
        # BAM round trip: tags written through MoleculeIterator(fragment_class_args=...) on reads read back from disk
        nbam = 0
        for lib, br in zip(self.libs, self.bam_res):
            if 'error' in br:
                dis.append({'what': 'BAM round trip raised', 'impl': br['error'], 'input': lib['c']})
                continue
            for n, k in enumerate(lib['idx']):
                m, got = mout[off + k], br.get('f%04d' % n)
                nbam += 1
                if isinstance(m, dict) and m['valid']:
                    exp = {'qcfail': False, 'DS': m['DS'], 'RS': int(m['RS']), 'RZ': m['RZ'], 'RR': m['RR']}
                    if got is None or any(v != exp for v in got.values()):
                        dis.append({'what': 'tags after BAM round trip + MoleculeIterator differ from the model',
                                    'input': self.payload_case(cases[k]), 'model': exp, 'impl': got})
                elif got is not None:
                    dis.append({'what': 'fragment the model rejects was emitted by MoleculeIterator',
                                'input': self.payload_case(cases[k]), 'model': m, 'impl': got})
        self.cov['bam_roundtrip_fragments'] = nbam
        # command line: tags in the BAM written by bamtagmultiome against the model under the configuration the flags mean
        ncli = 0
        for lib, cr in zip(self.clis, self.cli_res):
            if 'error' in cr:
                dis.append({'what': 'bamtagmultiome -method %s %s raised' % (lib['kind'], ' '.join(lib['flags'])), 'impl': cr['error']})
                continue
            for n, k in enumerate(lib['idx']):
                m, got = mout[off + k], cr.get('f%04d' % n)
                ncli += 1
                if not isinstance(m, dict):
                    continue
                exp = {'DS': m['DS'], 'RS': None if m['RS'] is None else int(m['RS']), 'RZ': m['RZ']}
                if got is None or any({t: v[t] for t in exp} != exp for v in got.values()):
                    dis.append({'what': 'tags written by `bamtagmultiome.py -method %s %s` differ from the model under configuration %r'
                                        % (lib['kind'], ' '.join(lib['flags']), dict(zip(CFG_KEYS, lib['c']))),
                                'input': self.payload_case(cases[k]), 'model': exp, 'impl': got})
        self.cov['command_line_fragments'] = ncli
        self.cov['command_lines'] = ['-method %s %s' % (l['kind'], ' '.join(l['flags'])) for l in self.clis]
        # molecules: DS of every fragment after write_tags, and the molecule's cut site, against the model
        # (the grouping and the order in which fragments were added are taken from the implementation)
        nmol, m3_in, m3_exp, m3_ctx = 0, [], [], []
        for j, mr in enumerate(self.mol_res):
            m = self.mols[j // 2]
            if 'error' in mr:
                dis.append({'what': 'molecule stream raised', 'impl': mr['error'], 'input': m})
                continue
            for mol in mr['molecules']:
                mem = [x for x in mol['members'] if x['site'] is not None]
                if len(mem) != len(mol['members']) or not mem:
                    continue
                nmol += 1
                frs = [[x['strand'], x['site']] for x in mem]
                ds = [mr['tags'][x['name']]['R1']['DS'] for x in mem]
                if m['kind'] == 'chic':
                    m3_in.append((3, [m['radius'], frs])); m3_exp.append(ds)
                else:
                    m3_in.append((3, [0, frs])); m3_exp.append(ds)
                m3_in.append((4, [0, frs])); m3_exp.append([] if mol['site'] is None else [mol['site']])
                m3_ctx += [(m, mol), (m, mol)]
        for mode in (3, 4):
            sel = [i for i, x in enumerate(m3_in) if x[0] == mode]
            outm = fw.run_model('C09', mode, [m3_in[i][1] for i in sel]) if sel else []
            for i, o in zip(sel, outm):
                if o != m3_exp[i]:
                    dis.append({'what': 'molecule-level DS after write_tags / molecule cut site differs from the model (mode %d)' % mode,
                                'input': {'scenario': m3_ctx[i][0], 'molecule': m3_ctx[i][1]}, 'model': o, 'impl': m3_exp[i]})
        self.cov['molecules_validated'] = nmol
        # the Coq simulator / mirror against the independent Python ones
        sim_in, sim_exp = [], []
        for cs in truth:
            t, r1 = cs['truth'], cs['reads'][0]
            mid = [o for o in r1['cigar'] if o[0] != 4]
            if cs['kind'] == 'nla':
                sim_in.append([0, t['cycles'], mid, t['p'], t['reverse'], t['clip'], t['tail'], t['lost'], []])
                e = dict(r1, mx=None)
            else:
                cyc = revcomp(r1['seq']) if r1['rev'] else r1['seq']
                sim_in.append([1, cyc, mid, t['x'], t['reverse'], t['clip'], t['tail'], t['trimmed'],
                               [] if r1['mx'] is None else [r1['mx']]])
                e = r1
            sim_exp.append(fw.to_val(enc_read(e)))
        sim_out = fw.run_model('C09', 1, sim_in)
        for a, b, cs in zip(sim_out, sim_exp, truth):
            if a != b:
                dis.append({'what': 'Coq simulator differs from the Python ground-truth simulator', 'input': cs['truth'],
                            'model': a, 'python': b})
        mir_idx = [k for k, cs in enumerate(cases) if cs['reads'] and cs['reads'][0] is not None]
        mir_out = fw.run_model('C09', 2, [[L, enc_read(cases[k]['reads'][0])] for k in mir_idx])
        for k, a in zip(mir_idx, mir_out):
            b = fw.to_val(enc_read(mirrored[k]['reads'][0]))
            if a != b:
                dis.append({'what': 'Coq mirror differs from the Python mirror', 'input': cases[k]['reads'][0], 'model': a, 'python': b})
        self.cov['traces_validated_against_impl'] = len(allc)
        self.cov['simulator_crosschecked'] = len(sim_in)
        self.cov['mirror_crosschecked'] = len(mir_idx)
        self.cov['disagreements'] = len(dis)
        pre = sum(1 for cs in truth if self.in_scope(cs))
        self.cov['precondition_hit_rate'] = round(pre / max(1, len(truth)), 4)
        idx = sorted(self.rng.sample(range(len(allc)), 100))
        ok, nm, log = fw.vm_crosscheck('C09', 0, [(model_input(allc[i]), fw.to_val(self.raw_model[i])) for i in idx])
        self.cov['vm_compute_crosscheck'] = {'cases': len(idx), 'mismatches': nm}
        if not ok:
            raise fw.Broken('extraction', 'vm_compute and extracted model disagree: ' + log[-800:])
        if dis:
            self.dis = dis
            raise fw.Broken('correspondence', 'model and implementation disagree on %d cases; first: %r' % (len(dis), dis[0]))

    def in_scope(self, cs):
        """the simulated case satisfies the hypotheses of one of the theorems (site / shift / rejection)"""
        return self.expectation(cs) is not None

    # ---------------------------------------------------------------- search (specification on the implementation)
    @staticmethod
    def expectation(cs):
        """direct Python transcription of the theorem statements (Props/C09.v) for a simulated case:
        ('site', pos, RS, cut_strand, RZ) | ('rejected',) | None when no theorem speaks about the case"""
        t = cs.get('truth')
        if t is None:
            return None
        nocigar, cm, sh, inv = cs['c']
        rev = t['reverse']
        shift = ((-t['clip']) if rev else t['clip']) if nocigar else 0      # clip_shift
        if cs['kind'] == 'nla':
            if len(cs['reads']) != 2:
                return None
            stored = t['cycles'][1:] if t['lost'] else t['cycles']
            first4 = stored[:4]
            if not t['lost'] and first4 == 'CATG':
                return ('site', t['p'] + shift, rev != inv, rev, 'CATG')                    # C09_nla_site(_any_config)
            if cm and first4 != 'CATG' and (not sh or not first4.startswith('ATG')):
                return ('rejected',)                                                        # C09_nla_reject(_simulated), _shift_off
            if t['lost'] and t['cycles'][:4] == 'CATG' and cm and sh:
                return ('site', t['p'] + shift, rev != inv, rev, 'CAT' if rev else 'ATG')   # C09_nla_shift(_any_config)
            return None
        r2 = cs['reads'][1] if len(cs['reads']) > 1 else None
        if r2 is not None and not r2['unmapped'] and r2['rev'] == rev:
            return None
        if any(b * 18 in r['seq'] for r in cs['reads'] if r is not None for b in 'ACGT'):
            return None      # C09_chic_homopolymer_rejected: the mirror relation below covers these
        return ('site', (t['x'] + 1 if rev else t['x'] - 1) + shift, rev != inv, rev != inv, None)  # C09_chic_site_any_config

    def search(self):
        if getattr(self, 'res', None) is None:
            corpus = self.load_corpus()
            cases, mirrored, n_exh, L = self.make_cases()
            self.allc = corpus + cases + mirrored
            self.L, self.off, self.n_plain = L, len(corpus), len(cases)
            bam_payload = [{'id': lib['id'], 'kind': lib['kind'], 'cfg': cfg_kwargs(lib['kind'], lib['c']),
                            'cases': [self.payload_case(cases[k]) for k in lib['idx']]} for lib in self.libs]
            out = fw.run_impl('impl_c09.py', {'cases': [self.payload_case(c) for c in self.allc], 'bam': bam_payload,
                                              'mol': self.mol_payload(cases, mirrored), 'cli': self.cli_payload(cases)})
            self.res, self.bam_res, self.mol_res, self.cli_res = out['cases'], out['bam'], out['mol'], out['cli']
        if getattr(self, 'impl', None) is None:
            self.impl = [canon_impl(cs, r)[0] for cs, r in zip(self.allc, self.res)]
        best = {}

        def size(cs):
            r1 = cs['reads'][0]
            return (len(r1['seq']) + sum(l for _, l in r1['cigar'] if _ == 4) * 3 + len(r1['cigar'])) if r1 else 0

        def offer(key, cs, what, im, exp):
            w = {'key': key, 'what': what, 'input': self.payload_case(cs), 'truth': cs.get('truth'), 'impl': im, 'expected': exp}
            if key not in best or size(cs) < best[key][0]:
                best[key] = (size(cs), w)
        for cs, im in zip(self.allc, self.impl):
            e = self.expectation(cs)
            if e is None:
                continue
            t = cs['truth']
            strand = 'rev' if t['reverse'] else 'fwd'
            pre = any(r is not None and r['qcfail'] for r in cs['reads'])
            allq = all(r['qcfail'] for r in cs['reads'] if r is not None)
            if e[0] == 'site':
                exp = {'DS': e[1], 'RS': e[2], 'RZ': e[4], 'RR': None, 'qc': False, 'valid': not pre, 'loc': e[1], 'cut_strand': e[3]}
                if im != exp:
                    kind = 'shift' if t.get('lost') else 'site'
                    lay = ('' if cs['kind'] == 'nla' else (':trimmed' if t['trimmed'] else ':untrimmed'))
                    where = ('the CATG at %d' % t['p']) if cs['kind'] == 'nla' else ('the overhang base at %d' % t['x'])
                    offer('%s:%s:%s%s' % (cs['kind'], kind, strand, lay), cs,
                          '%s fragment simulated from %s (%s strand, %d clipped cycles at the read start, %d at its end%s): observed %r, expected %r'
                          % (cs['kind'], where, strand, t['clip'], t['tail'], ', first cycle lost' if t.get('lost') else '', im, exp), im, exp)
            else:
                ok = isinstance(im, dict) and im['DS'] is None and im['valid'] is False and im['RZ'] is None \
                    and im['RR'] is not None and (im['qc'] or allq)
                if not ok:
                    offer('nla:reject:%s' % strand, cs,
                          'nla fragment whose first cycles are %r (no CATG) was not rejected: %r' % (t['cycles'][:5], im), im,
                          'DS absent, not valid, qcfail')
        # mirror relation between the two runs of every case
        L, off, n = self.L, self.off, self.n_plain
        for k in range(n):
            cs = self.allc[off + k]
            r1 = cs['reads'][0] if cs['reads'] else None
            if r1 is None or r1['unmapped'] or not r1['cigar'] or (cs['kind'] == 'nla' and len(cs['reads']) != 2):
                continue
            a, b = self.impl[off + k], self.impl[off + n + k]
            w = 4 if cs['kind'] == 'nla' else 1
            if isinstance(a, dict):
                exp = {'DS': None if a['DS'] is None else L - w - a['DS'], 'RS': None if a['RS'] is None else not a['RS'],
                       'RZ': None if a['RZ'] is None else revcomp(a['RZ']), 'qc': a['qc'], 'valid': a['valid'],
                       'loc': None if a['loc'] is None else L - w - a['loc'],
                       'cut_strand': None if a['cut_strand'] is None else not a['cut_strand']}
                got = {x: b[x] for x in exp} if isinstance(b, dict) else b
            else:
                exp, got = a, b
            if got != exp:
                offer('%s:mirror' % cs['kind'], cs,
                      '%s fragment and its mirror image on the reverse-complemented reference (L=%d) are not assigned mirrored '
                      'sites: original %r, mirrored %r, expected %r' % (cs['kind'], L, a, got, exp),
                      {'original': a, 'mirrored': got}, exp)
        # BAM round trip against the specification
        for lib, br in zip(getattr(self, 'libs', []), getattr(self, 'bam_res', [])):
            if 'error' in br:
                self.witnesses.append({'key': 'bam:error', 'what': 'BAM round trip raised ' + br['error'], 'input': lib['c']})
                continue
            for nn, k in enumerate(lib['idx']):
                cs = self.allc[off + k]
                e, got = self.expectation(cs), br.get('f%04d' % nn)
                if e is None:
                    continue
                if e[0] == 'site':
                    exp = {'qcfail': False, 'DS': e[1], 'RS': int(e[2]), 'RZ': e[4], 'RR': None}
                    if got is None or any(v != exp for v in got.values()):
                        offer('bam:%s:site' % cs['kind'], cs, 'after a BAM round trip through MoleculeIterator the reads carry %r, expected %r'
                              % (got, exp), got, exp)
                elif got is not None:
                    offer('bam:%s:reject' % cs['kind'], cs, 'fragment without CATG at its start was emitted with tags %r' % (got,), got, None)
        # command line against the specification (the flags select the configuration the theorems speak about)
        for lib, cr in zip(getattr(self, 'clis', []), getattr(self, 'cli_res', [])):
            cmd = 'bamtagmultiome.py -method %s %s' % (lib['kind'], ' '.join(lib['flags']))
            if 'error' in cr:
                self.witnesses.append({'key': 'cli:error', 'what': cmd + ' raised ' + cr['error'], 'input': lib['flags']})
                continue
            for nn, k in enumerate(lib['idx']):
                cs = self.allc[off + k]
                e, got = self.expectation(cs), cr.get('f%04d' % nn)
                if e is None:
                    continue
                if e[0] == 'site':
                    exp = {'DS': e[1], 'RS': int(e[2]), 'RZ': e[4]}
                    if got is None or any({t: v[t] for t in exp} != exp for v in got.values()):
                        offer('cli:%s:%s' % (lib['kind'], '+'.join(f.strip('-') for f in lib['flags']) or 'default'), cs,
                              '`%s` tagged the reads %r, expected %r (configuration %r)'
                              % (cmd, got, exp, dict(zip(CFG_KEYS, lib['c']))), got, exp)
                elif got is None or any(v['DS'] is not None for v in got.values()):
                    offer('cli:%s:reject' % lib['kind'], cs, '`%s` assigned a site to a fragment without CATG at its start: %r' % (cmd, got), got, None)
        # molecule-level mirror relation: the same fragment set and its mirror image through
        # MoleculeIterator + write_tags must give mirrored DS / flipped RS on every read and as many molecules
        mres = getattr(self, 'mol_res', [])
        for j in range(0, len(mres) - 1, 2):
            m, a, b = self.mols[j // 2], mres[j], mres[j + 1]
            w = 4 if m['kind'] == 'nla' else 1
            cases_in = [self.payload_case(self.allc[off + k]) for k in m['idx']]
            inp = {'kind': m['kind'], 'assignment_radius': m['radius'], 'cfg': cfg_kwargs(m['kind'], m['c']),
                   'fragments': cases_in, 'mirror_L': L}
            sz = sum(len(c['reads'][0]['seq']) for c in cases_in)
            key = 'mol:%s:mirror' % m['kind']
            bad = None
            if 'error' in a or 'error' in b:
                bad = 'molecule tagging raised: %r / %r' % (a.get('error'), b.get('error'))
            elif len(a['molecules']) != len(b['molecules']):
                bad = 'the two orientations deduplicate differently: %d vs %d molecules' % (len(a['molecules']), len(b['molecules']))
            else:
                for name in sorted(a['tags']):
                    for rd, oa in a['tags'][name].items():
                        ob = b['tags'].get(name, {}).get(rd)
                        exp_ds = None if oa['DS'] is None else L - w - oa['DS']
                        exp_rs = None if oa['RS'] is None else 1 - oa['RS']
                        if ob is None or ob['DS'] != exp_ds or ob['RS'] != exp_rs:
                            bad = ('%s molecule set tagged through MoleculeIterator + write_tags (assignment_radius=%r): read %s/%s has DS=%r RS=%r, '
                                   'its mirror image has DS=%r RS=%r, expected the mirrored DS=%r RS=%r'
                                   % (m['kind'], m['radius'], name, rd, oa['DS'], oa['RS'], None if ob is None else ob['DS'],
                                      None if ob is None else ob['RS'], exp_ds, exp_rs))
                            break
                    if bad:
                        break
            if bad and (key not in best or sz < best[key][0]):
                best[key] = (sz, {'key': key, 'what': bad, 'input': inp,
                                  'impl': {'original': a.get('tags'), 'mirrored': b.get('tags')}})
        for p in getattr(self, 'problems', [])[:1]:
            self.witnesses.append({'key': 'observation', 'what': '; '.join(p['problems']), 'input': p['input']})
        for key in sorted(best):
            self.witnesses.append(best[key][1])
