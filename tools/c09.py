"""C09 - cut-site coordinates are correct and strand-symmetric (NlaIII / scCHIC fragments).

T: the site arithmetic of NlaIIIFragment.identify_site and CHICFragment.identify_site (from the
   `r1_start = ...` statement to the end of the function: clip correction, guard chain, offsets, the
   recognised sequence, rejection reasons) is REGENERATED from the source into coq/Gen/GenSite.v by the
   statement-level extractor below (fail closed on any statement outside the recognised shapes).
K: simulated reads (independent Python ground-truth simulator) -> in-memory pysam reads -> real fragment
   classes; DS/RS/RZ/RR, qcfail, is_valid, site_location compared with the Coq model.
"""
import ast, hashlib, itertools, json, os
import fw, py2coq
from py2coq import Untranslatable

NLA = 'singlecellmultiomics/fragment/nlaIII.py'
CHIC = 'singlecellmultiomics/fragment/chic.py'


# =============================================================================== T: source -> GenSite.v
def codes(s):
    return '[' + '; '.join(str(ord(c)) for c in s) + ']'


class SiteTranslator(py2coq.ExprTranslator):
    """ExprTranslator + string tests on the two motif variables + attribute substitution."""
    STR_VARS = ('forward_motif', 'rev_motif')

    def s(self, n):
        if isinstance(n, ast.Name) and n.id in self.STR_VARS:
            return n.id
        if isinstance(n, ast.Constant) and isinstance(n.value, str):
            return codes(n.value)
        self.fail(n, 'string expression outside subset')

    def is_str(self, n):
        return (isinstance(n, ast.Name) and n.id in self.STR_VARS) or \
               (isinstance(n, ast.Constant) and isinstance(n.value, str))

    def b(self, n):
        if isinstance(n, ast.Compare) and len(n.ops) == 1 and isinstance(n.ops[0], (ast.Eq, ast.NotEq)) \
                and (self.is_str(n.left) or self.is_str(n.comparators[0])):
            e = '(str_eqb %s %s)' % (self.s(n.left), self.s(n.comparators[0]))
            return e if isinstance(n.ops[0], ast.Eq) else '(negb %s)' % e
        if isinstance(n, ast.Call) and isinstance(n.func, ast.Attribute) and n.func.attr in ('startswith', 'endswith') \
                and len(n.args) == 1 and not n.keywords and self.is_str(n.func.value) \
                and isinstance(n.args[0], ast.Constant) and isinstance(n.args[0].value, str):
            return '(py_%s %s %s)' % (n.func.attr, self.s(n.args[0]), self.s(n.func.value))
        return super().b(n)


ENV = {
    'R1.is_reverse': 'is_reverse', 'R1.reference_start': 'reference_start', 'R1.reference_end': 'reference_end',
    'R1.cigartuples[0][0]': 'first_op', 'R1.cigartuples[0][1]': 'first_len',
    'R1.cigartuples[-1][0]': 'last_op', 'R1.cigartuples[-1][1]': 'last_len',
    'self.no_umi_cigar_processing': 'no_umi_cigar_processing', 'self.check_motif': 'check_motif',
    'self.allow_cycle_shift': 'allow_cycle_shift', 'self.invert_strand': 'invert_strand',
    'is_trimmed': 'is_trimmed',
}
BOOLS = ('is_reverse', 'no_umi_cigar_processing', 'check_motif', 'allow_cycle_shift', 'invert_strand', 'is_trimmed')


class Extractor:
    """symbolic execution of the tail of identify_site.  Result tuple of the generated function:
       (ds_set, site_strand, site_pos, rz, rr, qcfail, found)
       ds_set   : set_site writes the DS tag (nla: valid=True ; chic: self.found_valid_site at the call)
       rz / rr  : option str - recognised sequence / rejection reason
       qcfail   : the rejection flags the reads qcfail
       found    : nla: identify_site returns a truthy value (that is what __init__ stores in
                  found_valid_site); chic: self.found_valid_site after the call"""

    def __init__(self, kind):
        self.kind = kind
        self.tr = SiteTranslator(env=dict(ENV), bool_names=BOOLS)
        self.tr.bool_env = set(ENV)

    def fail(self, node, why):
        raise Untranslatable('%s identify_site: %s at line %s: %s'
                             % (self.kind, why, getattr(node, 'lineno', '?'), ast.unparse(node)[:160]))

    # ---- blocks that only update the integer variable `var`
    def only_updates(self, stmts, var):
        for st in stmts:
            if isinstance(st, ast.Pass):
                continue
            if isinstance(st, ast.Assign) and len(st.targets) == 1 and isinstance(st.targets[0], ast.Name) \
                    and st.targets[0].id == var and not isinstance(st.value, ast.Tuple):
                continue
            if isinstance(st, ast.AugAssign) and isinstance(st.target, ast.Name) and st.target.id == var \
                    and isinstance(st.op, (ast.Add, ast.Sub)):
                continue
            if isinstance(st, ast.If) and self.only_updates(st.body, var) and self.only_updates(st.orelse, var):
                continue
            return False
        return True

    def value_after(self, stmts, var):
        """Coq expression for the value of `var` after the block (var is in scope under its own name)"""
        if not stmts:
            return var
        st, rest = stmts[0], stmts[1:]
        if isinstance(st, ast.Pass):
            return self.value_after(rest, var)
        if isinstance(st, ast.Assign):
            e = self.tr.z(st.value)
        elif isinstance(st, ast.AugAssign):
            e = '(%s %s %s)' % (var, '+' if isinstance(st.op, ast.Add) else '-', self.tr.z(st.value))
        elif isinstance(st, ast.If):
            e = '(if %s then %s else %s)' % (self.tr.b(st.test), self.value_after(st.body, var),
                                             self.value_after(st.orelse, var))
        else:
            self.fail(st, 'statement outside subset')
        if not rest:
            return e
        return '(let %s := %s in %s)' % (var, e, self.value_after(rest, var))

    # ---- rpos / rejection-reason blocks
    def rpos_of(self, value):
        if isinstance(value, ast.Tuple) and len(value.elts) == 2 and ast.unparse(value.elts[0]) == 'R1.reference_name':
            return self.tr.z(value.elts[1])
        self.fail(value, 'rpos is not (R1.reference_name, <int expr>)')

    def only_rpos(self, stmts):
        for st in stmts:
            if isinstance(st, ast.Assign) and len(st.targets) == 1 and isinstance(st.targets[0], ast.Name) \
                    and st.targets[0].id == 'rpos':
                continue
            if isinstance(st, ast.If) and st.orelse and self.only_rpos(st.body) and self.only_rpos(st.orelse):
                continue
            return False
        return bool(stmts)

    def rpos_after(self, stmts):
        st = stmts[-1]
        if isinstance(st, ast.Assign):
            return self.rpos_of(st.value)
        return '(if %s then %s else %s)' % (self.tr.b(st.test), self.rpos_after(st.body), self.rpos_after(st.orelse))

    def is_call(self, st, name):
        return isinstance(st, ast.Expr) and isinstance(st.value, ast.Call) \
            and ast.unparse(st.value.func) == 'self.' + name

    def only_reason(self, stmts):
        for st in stmts:
            if self.is_call(st, 'set_rejection_reason'):
                continue
            if isinstance(st, ast.If) and st.orelse and self.only_reason(st.body) and self.only_reason(st.orelse):
                continue
            return False
        return bool(stmts)

    def reason_after(self, stmts):
        """-> (rr expr, qcfail expr)"""
        if len(stmts) != 1:
            self.fail(stmts[0], 'more than one rejection statement in a block')
        st = stmts[0]
        if isinstance(st, ast.If):
            a, b = self.reason_after(st.body), self.reason_after(st.orelse)
            c = self.tr.b(st.test)
            return '(if %s then %s else %s)' % (c, a[0], b[0]), '(if %s then %s else %s)' % (c, a[1], b[1])
        call = st.value
        if len(call.args) != 1 or not (isinstance(call.args[0], ast.Constant) and isinstance(call.args[0].value, str)):
            self.fail(st, 'rejection reason is not a string literal')
        qc = 'false'
        for kw in call.keywords:
            if kw.arg == 'set_qcfail' and isinstance(kw.value, ast.Constant) and isinstance(kw.value.value, bool):
                qc = 'true' if kw.value.value else 'false'
            else:
                self.fail(st, 'unexpected keyword')
        return '(Some %s)' % codes(call.args[0].value), qc

    # ---- decision part
    def decide(self, stmts, st0):
        s = dict(st0)
        for k, st in enumerate(stmts):
            last = k == len(stmts) - 1
            if isinstance(st, ast.Pass):
                continue
            if isinstance(st, ast.Assign) and len(st.targets) == 1:
                t = ast.unparse(st.targets[0])
                if t == 'rpos':
                    s['rpos'] = self.rpos_of(st.value)
                    continue
                if t == 'self.found_valid_site' and isinstance(st.value, ast.Constant) and isinstance(st.value.value, bool):
                    s['found'] = 'true' if st.value.value else 'false'
                    continue
                self.fail(st, 'assignment outside subset')
            if isinstance(st, ast.If):
                if self.only_rpos([st]):
                    s['rpos'] = self.rpos_after([st])
                    continue
                if self.only_reason([st]):
                    s['rr'], s['qc'] = self.reason_after([st])
                    continue
                if not last:
                    self.fail(st, 'decision `if` is not the last statement of its block')
                return '(if %s\n   then %s\n   else %s)' % (self.tr.b(st.test), self.decide(st.body, s),
                                                         self.decide(st.orelse, s))
            if self.is_call(st, 'set_rejection_reason'):
                s['rr'], s['qc'] = self.reason_after([st])
                continue
            if self.is_call(st, 'set_recognized_sequence'):
                a = st.value.args
                if len(a) != 1 or st.value.keywords:
                    self.fail(st, 'set_recognized_sequence form')
                s['rz'] = '(Some %s)' % self.tr.s(a[0])
                continue
            if self.is_call(st, 'set_site'):
                if st.value.args:
                    self.fail(st, 'positional arguments to set_site')
                kw = {k.arg: k.value for k in st.value.keywords}
                allowed = {'site_strand', 'site_chrom', 'site_pos'} | ({'valid'} if self.kind == 'nla' else {'is_trimmed'})
                if set(kw) - allowed or not {'site_strand', 'site_chrom', 'site_pos'} <= set(kw):
                    self.fail(st, 'set_site keywords')
                chrom = ast.unparse(kw['site_chrom'])
                if chrom not in ('R1.reference_name', 'rpos[0]'):
                    self.fail(st, 'site_chrom')
                if ast.unparse(kw['site_pos']) == 'rpos[1]':
                    if s.get('rpos') is None:
                        self.fail(st, 'rpos used before assignment')
                    pos = s['rpos']
                else:
                    pos = self.tr.z(kw['site_pos'])
                strand = self.tr.b(kw['site_strand'])
                if self.kind == 'nla':
                    v = kw.get('valid')
                    if v is None:
                        ds = 'true'
                    elif isinstance(v, ast.Constant) and isinstance(v.value, bool):
                        ds = 'true' if v.value else 'false'
                    else:
                        self.fail(st, 'valid= is not a literal')
                else:
                    ds = s['found']
                if s.get('site') is not None:
                    self.fail(st, 'set_site called twice on one path')
                s['site'] = (ds, strand, pos)
                continue
            if isinstance(st, ast.Return):
                if not last:
                    self.fail(st, 'code after return')
                v = st.value
                if v is None or (isinstance(v, ast.Constant) and v.value is None):
                    truthy = 'false'
                elif isinstance(v, ast.Name) and v.id == 'rpos':
                    truthy = 'true'   # a 2-tuple is truthy
                else:
                    self.fail(st, 'return value outside subset')
                return self.result(s, truthy, st)
            self.fail(st, 'statement outside subset')
        return self.result(s, 'false', stmts[-1] if stmts else None)

    def result(self, s, truthy, node):
        if s.get('site') is None:
            self.fail(node, 'path ends without set_site')
        ds, strand, pos = s['site']
        found = truthy if self.kind == 'nla' else s['found']
        return '(%s, %s, %s, %s, %s, %s, %s)' % (ds, strand, pos, s['rz'], s['rr'], s['qc'], found)


def motif_expr(value):
    """R1.seq[:4] -> py_prefix 4 seq ; R1.seq[-4:] -> py_suffix 4 seq"""
    if isinstance(value, ast.Subscript) and ast.unparse(value.value) in ('R1.seq', 'R1.query_sequence') \
            and isinstance(value.slice, ast.Slice) and value.slice.step is None:
        lo, hi = value.slice.lower, value.slice.upper
        if lo is None and isinstance(hi, ast.Constant) and isinstance(hi.value, int) and hi.value > 0:
            return '(py_prefix %d seq)' % hi.value
        if hi is None and isinstance(lo, ast.UnaryOp) and isinstance(lo.op, ast.USub) \
                and isinstance(lo.operand, ast.Constant) and isinstance(lo.operand.value, int) and lo.operand.value > 0:
            return '(py_suffix %d seq)' % lo.operand.value
    raise Untranslatable('motif slice outside subset: %s' % ast.unparse(value))


def gen_site(kind, rel):
    path = os.path.join(fw.REPO, rel)
    src = open(path).read()
    tree = ast.parse(src)
    cls = 'NlaIIIFragment' if kind == 'nla' else 'CHICFragment'
    fn = py2coq.find_function(tree, cls + '.identify_site')
    body = list(fn.body)
    idx = [i for i, st in enumerate(body) if isinstance(st, ast.Assign) and len(st.targets) == 1
           and ast.unparse(st.targets[0]) == 'r1_start']
    if len(idx) != 1:
        raise Untranslatable('%s.identify_site: expected exactly one top-level assignment to r1_start' % cls)
    i0 = idx[0]
    ex = Extractor(kind)
    lets = []
    if kind == 'nla':
        # the motif variables: assigned in the else-arm of `if self.no_overhang:` (the only assignments)
        found = {}
        for n in ast.walk(fn):
            if isinstance(n, ast.Assign) and len(n.targets) == 1 and isinstance(n.targets[0], ast.Name) \
                    and n.targets[0].id in SiteTranslator.STR_VARS:
                if n.targets[0].id in found:
                    raise Untranslatable('motif variable assigned twice')
                found[n.targets[0].id] = motif_expr(n.value)
        if set(found) != set(SiteTranslator.STR_VARS):
            raise Untranslatable('motif variables not found')
        arm = [st for st in body[:i0] if isinstance(st, ast.If) and ast.unparse(st.test) == 'self.no_overhang']
        if len(arm) != 1 or sorted(ast.unparse(s.targets[0]) for s in arm[0].orelse if isinstance(s, ast.Assign)) \
                != sorted(SiteTranslator.STR_VARS) or len(arm[0].orelse) != 2:
            raise Untranslatable('motif variables are not assigned in the else-arm of `if self.no_overhang`')
        for v in SiteTranslator.STR_VARS:
            lets.append('let %s := %s in' % (v, found[v]))
    else:
        tr = [st for st in body[:i0] if isinstance(st, ast.Assign) and ast.unparse(st.targets[0]) == 'is_trimmed']
        if len(tr) != 1 or ast.unparse(tr[0].value) != "R1.has_tag('MX') and R1.get_tag('MX').startswith('scCHIC')":
            raise Untranslatable('is_trimmed definition changed: %s' % (ast.unparse(tr[0].value) if tr else None))
    tail = body[i0:]
    # r1_start = ... ; zero or more blocks that only update r1_start ; decision
    lets.append('let r1_start := %s in' % ex.tr.z(tail[0].value))
    k = 1
    while k < len(tail) - 1 and ex.only_updates([tail[k]], 'r1_start'):
        lets.append('let r1_start := %s in' % ex.value_after([tail[k]], 'r1_start'))
        k += 1
    st0 = {'rpos': None, 'rr': 'None', 'rz': 'None', 'qc': 'false', 'site': None, 'found': 'false'}
    res = ex.decide(tail[k:], st0)
    seg = '\n'.join(src.splitlines()[tail[0].lineno - 1:fn.end_lineno])
    sha = hashlib.sha256(seg.encode()).hexdigest()
    if kind == 'nla':
        params = '(no_umi_cigar_processing check_motif allow_cycle_shift : bool) (is_reverse : bool)\n' \
                 '  (reference_start reference_end first_op first_len last_op last_len : Z) (seq : str)'
    else:
        params = '(no_umi_cigar_processing invert_strand is_trimmed : bool) (is_reverse : bool)\n' \
                 '  (reference_start reference_end first_op first_len last_op last_len : Z)'
    text = ['(* source: %s lines %d-%d sha256 %s' % (rel, tail[0].lineno, fn.end_lineno, sha),
            '   result: (ds_set, site_strand, site_pos, rz, rr, reads_qcfail, found_valid_site) *)',
            'Definition %s_site_gen %s\n  : bool * bool * Z * option str * option str * bool * bool :=' % (kind, params)]
    text += ['  ' + l for l in lets]
    text.append('  ' + res + '.')
    return '\n'.join(text), {'source': rel, 'lines': [tail[0].lineno, fn.end_lineno], 'sha256': sha,
                             'coq': '%s_site_gen' % kind}


def regen_site():
    chunks, meta = [], []
    for kind, rel in (('nla', NLA), ('chic', CHIC)):
        t, m = gen_site(kind, rel)
        chunks.append(t)
        meta.append(m)
    py2coq.write_gen(os.path.join(fw.COQ, 'Gen', 'GenSite.v'), 'From SCMO Require Import Lib.C09Str.\n', chunks)
    return meta


class Prop(fw.PropBase):
    ID = 'C09'
    PROPS = 'Props/C09.v'

    def regen(self):
        return regen_site()
