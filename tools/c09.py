"""C09 - cut-site coordinates are correct and strand-symmetric (NlaIII / scCHIC fragments).

T: the site arithmetic of NlaIIIFragment.identify_site and CHICFragment.identify_site (from the
   `r1_start = ...` statement to the end of the function: clip correction, guard chain, offsets, the
   recognised sequence, rejection reasons) is REGENERATED from the source into coq/Gen/GenSite.v by the
   statement-level extractor below (fail closed on any statement outside the recognised shapes).
K: simulated reads (independent Python ground-truth simulator) -> in-memory pysam reads -> real fragment
   classes; DS/RS/RZ/RR, qcfail, is_valid, site_location compared with the Coq model.
Extension (Model/C09x.v, Proofs/C09x.v): NlaIIIFragment(no_overhang=True) with a reference handle and the
   max_fragment_size rule of both classes.  T: gen_no_overhang / gen_size below.  K: make_xcases /
   correspondence_x / search_x (own small contigs in a FASTA file read through CachedFastaNoHandle, placed mates,
   max_fragment_size within 1 of the fragment size, every case mirrored, three command lines).
"""
import ast, hashlib, itertools, json, os
import fw, py2coq
from py2coq import Untranslatable

NLA = 'singlecellmultiomics/fragment/nlaIII.py'
CHIC = 'singlecellmultiomics/fragment/chic.py'


# =============================================================================== T: source -> GenSite.v
def codes(s):
    return '[' + '; '.join(str(ord(c)) for c in s) + ']'


class SiteTranslator(py2coq.ExprTranslator):
    """ExprTranslator + string tests on the two motif variables + attribute substitution."""
    STR_VARS = ('forward_motif', 'rev_motif')

    def s(self, n):
        if isinstance(n, ast.Name) and n.id in self.STR_VARS:
            return n.id
        if isinstance(n, ast.Constant) and isinstance(n.value, str):
            return codes(n.value)
        self.fail(n, 'string expression outside subset')

    def is_str(self, n):
        return (isinstance(n, ast.Name) and n.id in self.STR_VARS) or \
               (isinstance(n, ast.Constant) and isinstance(n.value, str))

    def b(self, n):
        if isinstance(n, ast.Compare) and len(n.ops) == 1 and isinstance(n.ops[0], (ast.Eq, ast.NotEq)) \
                and (self.is_str(n.left) or self.is_str(n.comparators[0])):
            e = '(str_eqb %s %s)' % (self.s(n.left), self.s(n.comparators[0]))
            return e if isinstance(n.ops[0], ast.Eq) else '(negb %s)' % e
        if isinstance(n, ast.Call) and isinstance(n.func, ast.Attribute) and n.func.attr in ('startswith', 'endswith') \
                and len(n.args) == 1 and not n.keywords and self.is_str(n.func.value) \
                and isinstance(n.args[0], ast.Constant) and isinstance(n.args[0].value, str):
            return '(py_%s %s %s)' % (n.func.attr, self.s(n.args[0]), self.s(n.func.value))
        return super().b(n)


ENV = {
    'R1.is_reverse': 'is_reverse', 'R1.reference_start': 'reference_start', 'R1.reference_end': 'reference_end',
    'R1.cigartuples[0][0]': 'first_op', 'R1.cigartuples[0][1]': 'first_len',
    'R1.cigartuples[-1][0]': 'last_op', 'R1.cigartuples[-1][1]': 'last_len',
    'self.no_umi_cigar_processing': 'no_umi_cigar_processing', 'self.check_motif': 'check_motif',
    'self.allow_cycle_shift': 'allow_cycle_shift', 'self.invert_strand': 'invert_strand',
    'is_trimmed': 'is_trimmed',
}
BOOLS = ('is_reverse', 'no_umi_cigar_processing', 'check_motif', 'allow_cycle_shift', 'invert_strand', 'is_trimmed')


class Extractor:
    """symbolic execution of the tail of identify_site.  Result tuple of the generated function:
       (ds_set, site_strand, site_pos, rz, rr, qcfail, found)
       ds_set   : set_site writes the DS tag (nla: valid=True ; chic: self.found_valid_site at the call)
       rz / rr  : option str - recognised sequence / rejection reason
       qcfail   : the rejection flags the reads qcfail
       found    : nla: identify_site returns a truthy value (that is what __init__ stores in
                  found_valid_site); chic: self.found_valid_site after the call"""

    def __init__(self, kind):
        self.kind = kind
        self.tr = SiteTranslator(env=dict(ENV), bool_names=BOOLS)
        self.tr.bool_env = set(ENV)

    def fail(self, node, why):
        raise Untranslatable('%s identify_site: %s at line %s: %s'
                             % (self.kind, why, getattr(node, 'lineno', '?'), ast.unparse(node)[:160]))

    # ---- blocks that only update the integer variable `var`
    def only_updates(self, stmts, var):
        for st in stmts:
            if isinstance(st, ast.Pass):
                continue
            if isinstance(st, ast.Assign) and len(st.targets) == 1 and isinstance(st.targets[0], ast.Name) \
                    and st.targets[0].id == var and not isinstance(st.value, ast.Tuple):
                continue
            if isinstance(st, ast.AugAssign) and isinstance(st.target, ast.Name) and st.target.id == var \
                    and isinstance(st.op, (ast.Add, ast.Sub)):
                continue
            if isinstance(st, ast.If) and self.only_updates(st.body, var) and self.only_updates(st.orelse, var):
                continue
            return False
        return True

    def value_after(self, stmts, var):
        """Coq expression for the value of `var` after the block (var is in scope under its own name)"""
        if not stmts:
            return var
        st, rest = stmts[0], stmts[1:]
        if isinstance(st, ast.Pass):
            return self.value_after(rest, var)
        if isinstance(st, ast.Assign):
            e = self.tr.z(st.value)
        elif isinstance(st, ast.AugAssign):
            e = '(%s %s %s)' % (var, '+' if isinstance(st.op, ast.Add) else '-', self.tr.z(st.value))
        elif isinstance(st, ast.If):
            e = '(if %s then %s else %s)' % (self.tr.b(st.test), self.value_after(st.body, var),
                                             self.value_after(st.orelse, var))
        else:
            self.fail(st, 'statement outside subset')
        if not rest:
            return e
        return '(let %s := %s in %s)' % (var, e, self.value_after(rest, var))

    # ---- rpos / rejection-reason blocks
    def rpos_of(self, value):
        if isinstance(value, ast.Tuple) and len(value.elts) == 2 and ast.unparse(value.elts[0]) == 'R1.reference_name':
            return self.tr.z(value.elts[1])
        self.fail(value, 'rpos is not (R1.reference_name, <int expr>)')

    def only_rpos(self, stmts):
        for st in stmts:
            if isinstance(st, ast.Assign) and len(st.targets) == 1 and isinstance(st.targets[0], ast.Name) \
                    and st.targets[0].id == 'rpos':
                continue
            if isinstance(st, ast.If) and st.orelse and self.only_rpos(st.body) and self.only_rpos(st.orelse):
                continue
            return False
        return bool(stmts)

    def rpos_after(self, stmts):
        st = stmts[-1]
        if isinstance(st, ast.Assign):
            return self.rpos_of(st.value)
        return '(if %s then %s else %s)' % (self.tr.b(st.test), self.rpos_after(st.body), self.rpos_after(st.orelse))

    def is_call(self, st, name):
        return isinstance(st, ast.Expr) and isinstance(st.value, ast.Call) \
            and ast.unparse(st.value.func) == 'self.' + name

    def only_reason(self, stmts):
        for st in stmts:
            if self.is_call(st, 'set_rejection_reason'):
                continue
            if isinstance(st, ast.If) and st.orelse and self.only_reason(st.body) and self.only_reason(st.orelse):
                continue
            return False
        return bool(stmts)

    def reason_after(self, stmts):
        """-> (rr expr, qcfail expr)"""
        if len(stmts) != 1:
            self.fail(stmts[0], 'more than one rejection statement in a block')
        st = stmts[0]
        if isinstance(st, ast.If):
            a, b = self.reason_after(st.body), self.reason_after(st.orelse)
            c = self.tr.b(st.test)
            return '(if %s then %s else %s)' % (c, a[0], b[0]), '(if %s then %s else %s)' % (c, a[1], b[1])
        call = st.value
        if len(call.args) != 1 or not (isinstance(call.args[0], ast.Constant) and isinstance(call.args[0].value, str)):
            self.fail(st, 'rejection reason is not a string literal')
        qc = 'false'
        for kw in call.keywords:
            if kw.arg == 'set_qcfail' and isinstance(kw.value, ast.Constant) and isinstance(kw.value.value, bool):
                qc = 'true' if kw.value.value else 'false'
            else:
                self.fail(st, 'unexpected keyword')
        return '(Some %s)' % codes(call.args[0].value), qc

    # ---- decision part
    def decide(self, stmts, st0):
        s = dict(st0)
        for k, st in enumerate(stmts):
            last = k == len(stmts) - 1
            if isinstance(st, ast.Pass):
                continue
            if isinstance(st, ast.Assign) and len(st.targets) == 1:
                t = ast.unparse(st.targets[0])
                if t == 'rpos':
                    s['rpos'] = self.rpos_of(st.value)
                    continue
                if t == 'self.found_valid_site' and isinstance(st.value, ast.Constant) and isinstance(st.value.value, bool):
                    s['found'] = 'true' if st.value.value else 'false'
                    continue
                self.fail(st, 'assignment outside subset')
            if isinstance(st, ast.If):
                if self.only_rpos([st]):
                    s['rpos'] = self.rpos_after([st])
                    continue
                if self.only_reason([st]):
                    s['rr'], s['qc'] = self.reason_after([st])
                    continue
                if not last:
                    self.fail(st, 'decision `if` is not the last statement of its block')
                return '(if %s\n   then %s\n   else %s)' % (self.tr.b(st.test), self.decide(st.body, s),
                                                         self.decide(st.orelse, s))
            if self.is_call(st, 'set_rejection_reason'):
                s['rr'], s['qc'] = self.reason_after([st])
                continue
            if self.is_call(st, 'set_recognized_sequence'):
                a = st.value.args
                if len(a) != 1 or st.value.keywords:
                    self.fail(st, 'set_recognized_sequence form')
                s['rz'] = '(Some %s)' % self.tr.s(a[0])
                continue
            if self.is_call(st, 'set_site'):
                if st.value.args:
                    self.fail(st, 'positional arguments to set_site')
                kw = {k.arg: k.value for k in st.value.keywords}
                allowed = {'site_strand', 'site_chrom', 'site_pos'} | ({'valid'} if self.kind == 'nla' else {'is_trimmed'})
                if set(kw) - allowed or not {'site_strand', 'site_chrom', 'site_pos'} <= set(kw):
                    self.fail(st, 'set_site keywords')
                chrom = ast.unparse(kw['site_chrom'])
                if chrom not in ('R1.reference_name', 'rpos[0]'):
                    self.fail(st, 'site_chrom')
                if ast.unparse(kw['site_pos']) == 'rpos[1]':
                    if s.get('rpos') is None:
                        self.fail(st, 'rpos used before assignment')
                    pos = s['rpos']
                else:
                    pos = self.tr.z(kw['site_pos'])
                strand = self.tr.b(kw['site_strand'])
                if self.kind == 'nla':
                    v = kw.get('valid')
                    if v is None:
                        ds = 'true'
                    elif isinstance(v, ast.Constant) and isinstance(v.value, bool):
                        ds = 'true' if v.value else 'false'
                    else:
                        self.fail(st, 'valid= is not a literal')
                else:
                    ds = s['found']
                if s.get('site') is not None:
                    self.fail(st, 'set_site called twice on one path')
                s['site'] = (ds, strand, pos)
                continue
            if isinstance(st, ast.Return):
                if not last:
                    self.fail(st, 'code after return')
                v = st.value
                if v is None or (isinstance(v, ast.Constant) and v.value is None):
                    truthy = 'false'
                elif isinstance(v, ast.Name) and v.id == 'rpos':
                    truthy = 'true'   # a 2-tuple is truthy
                elif ast.unparse(v) == 'rpos[1]' and s.get('rpos') is not None:
                    truthy = '(negb (%s =? 0))' % s['rpos']   # an int is truthy iff non-zero
                else:
                    self.fail(st, 'return value outside subset')
                return self.result(s, truthy, st)
            self.fail(st, 'statement outside subset')
        return self.result(s, 'false', stmts[-1] if stmts else None)

    def result(self, s, truthy, node):
        if s.get('site') is None:
            self.fail(node, 'path ends without set_site')
        ds, strand, pos = s['site']
        found = truthy if self.kind == 'nla' else s['found']
        return '(%s, %s, %s, %s, %s, %s, %s)' % (ds, strand, pos, s['rz'], s['rr'], s['qc'], found)


def motif_expr(value):
    """R1.seq[:4] -> py_prefix 4 seq ; R1.seq[-4:] -> py_suffix 4 seq"""
    if isinstance(value, ast.Subscript) and ast.unparse(value.value) in ('R1.seq', 'R1.query_sequence') \
            and isinstance(value.slice, ast.Slice) and value.slice.step is None:
        lo, hi = value.slice.lower, value.slice.upper
        if lo is None and isinstance(hi, ast.Constant) and isinstance(hi.value, int) and hi.value > 0:
            return '(py_prefix %d seq)' % hi.value
        if hi is None and isinstance(lo, ast.UnaryOp) and isinstance(lo.op, ast.USub) \
                and isinstance(lo.operand, ast.Constant) and isinstance(lo.operand.value, int) and lo.operand.value > 0:
            return '(py_suffix %d seq)' % lo.operand.value
    raise Untranslatable('motif slice outside subset: %s' % ast.unparse(value))


def gen_site(kind, rel):
    path = os.path.join(fw.REPO, rel)
    src = open(path).read()
    tree = ast.parse(src)
    cls = 'NlaIIIFragment' if kind == 'nla' else 'CHICFragment'
    fn = py2coq.find_function(tree, cls + '.identify_site')
    body = list(fn.body)
    idx = [i for i, st in enumerate(body) if isinstance(st, ast.Assign) and len(st.targets) == 1
           and ast.unparse(st.targets[0]) == 'r1_start']
    if len(idx) != 1:
        raise Untranslatable('%s.identify_site: expected exactly one top-level assignment to r1_start' % cls)
    i0 = idx[0]
    ex = Extractor(kind)
    lets = []
    if kind == 'nla':
        # the motif variables: assigned in the else-arm of `if self.no_overhang:` (the only assignments)
        found = {}
        for n in ast.walk(fn):
            if isinstance(n, ast.Assign) and len(n.targets) == 1 and isinstance(n.targets[0], ast.Name) \
                    and n.targets[0].id in SiteTranslator.STR_VARS:
                if n.targets[0].id in found:
                    raise Untranslatable('motif variable assigned twice')
                found[n.targets[0].id] = motif_expr(n.value)
        if set(found) != set(SiteTranslator.STR_VARS):
            raise Untranslatable('motif variables not found')
        arm = [st for st in body[:i0] if isinstance(st, ast.If) and ast.unparse(st.test) == 'self.no_overhang']
        if len(arm) != 1 or sorted(ast.unparse(s.targets[0]) for s in arm[0].orelse if isinstance(s, ast.Assign)) \
                != sorted(SiteTranslator.STR_VARS) or len(arm[0].orelse) != 2:
            raise Untranslatable('motif variables are not assigned in the else-arm of `if self.no_overhang`')
        for v in SiteTranslator.STR_VARS:
            lets.append('let %s := %s in' % (v, found[v]))
    else:
        tr = [st for st in body[:i0] if isinstance(st, ast.Assign) and ast.unparse(st.targets[0]) == 'is_trimmed']
        if len(tr) != 1 or ast.unparse(tr[0].value) != "R1.has_tag('MX') and R1.get_tag('MX').startswith('scCHIC')":
            raise Untranslatable('is_trimmed definition changed: %s' % (ast.unparse(tr[0].value) if tr else None))
    tail = body[i0:]
    # r1_start = ... ; zero or more blocks that only update r1_start ; decision
    lets.append('let r1_start := %s in' % ex.tr.z(tail[0].value))
    k = 1
    while k < len(tail) - 1 and ex.only_updates([tail[k]], 'r1_start'):
        lets.append('let r1_start := %s in' % ex.value_after([tail[k]], 'r1_start'))
        k += 1
    st0 = {'rpos': None, 'rr': 'None', 'rz': 'None', 'qc': 'false', 'site': None, 'found': 'false'}
    res = ex.decide(tail[k:], st0)
    seg = '\n'.join(src.splitlines()[tail[0].lineno - 1:fn.end_lineno])
    sha = hashlib.sha256(seg.encode()).hexdigest()
    if kind == 'nla':
        params = '(no_umi_cigar_processing check_motif allow_cycle_shift : bool) (is_reverse : bool)\n' \
                 '  (reference_start reference_end first_op first_len last_op last_len : Z) (seq : str)'
    else:
        params = '(no_umi_cigar_processing invert_strand is_trimmed : bool) (is_reverse : bool)\n' \
                 '  (reference_start reference_end first_op first_len last_op last_len : Z)'
    text = ['(* source: %s lines %d-%d sha256 %s' % (rel, tail[0].lineno, fn.end_lineno, sha),
            '   result: (ds_set, site_strand, site_pos, rz, rr, reads_qcfail, found_valid_site) *)',
            'Definition %s_site_gen %s\n  : bool * bool * Z * option str * option str * bool * bool :=' % (kind, params)]
    text += ['  ' + l for l in lets]
    text.append('  ' + res + '.')
    return '\n'.join(text), {'source': rel, 'lines': [tail[0].lineno, fn.end_lineno], 'sha256': sha,
                             'coq': '%s_site_gen' % kind}


# ------------------------------------------------------------------------------- no_overhang branch
class RefTranslator(SiteTranslator):
    """SiteTranslator + the idioms of the reference-lookup branch: string variables, `self.reference.fetch(
    R1.reference_name, a, b)`, `<str>[::-1]`, `<str>.find(<literal>)`, `<literal> in <str>`"""

    def __init__(self, **kw):
        super().__init__(**kw)
        self.str_env = {}

    def sx(self, n):
        if isinstance(n, ast.Name) and n.id in self.str_env:
            return self.str_env[n.id]
        if isinstance(n, ast.Constant) and isinstance(n.value, str):
            return codes(n.value)
        if isinstance(n, ast.Subscript) and isinstance(n.slice, ast.Slice) and n.slice.lower is None \
                and n.slice.upper is None and n.slice.step is not None and ast.unparse(n.slice.step) == '-1':
            return '(py_reversed %s)' % self.sx(n.value)
        if isinstance(n, ast.Call) and ast.unparse(n.func) == 'self.reference.fetch' and not n.keywords \
                and len(n.args) == 3 and ast.unparse(n.args[0]) == 'R1.reference_name':
            return '(fetch %s %s)' % (self.z(n.args[1]), self.z(n.args[2]))
        self.fail(n, 'string expression outside subset')

    def is_strx(self, n):
        try:
            self.sx(n)
            return True
        except Untranslatable:
            return False

    def z(self, n):
        if isinstance(n, ast.Call) and isinstance(n.func, ast.Attribute) and n.func.attr == 'find' and not n.keywords \
                and len(n.args) == 1 and isinstance(n.args[0], ast.Constant) and isinstance(n.args[0].value, str):
            return '(py_find %s %s)' % (codes(n.args[0].value), self.sx(n.func.value))
        return super().z(n)

    def b(self, n):
        if isinstance(n, ast.Compare) and len(n.ops) == 1 and isinstance(n.ops[0], (ast.In, ast.NotIn)) \
                and isinstance(n.left, ast.Constant) and isinstance(n.left.value, str):
            e = '(py_contains %s %s)' % (codes(n.left.value), self.sx(n.comparators[0]))
            return e if isinstance(n.ops[0], ast.In) else '(negb %s)' % e
        return super().b(n)


class RefExtractor:
    """symbolic execution of the body of `if self.no_overhang:` in NlaIIIFragment.identify_site.
    Variables: integers (inlined), one optional integer (None | int: the site), strings (fetched windows)."""
    ENV = {'R1.is_reverse': 'is_reverse', 'R1.reference_start': 'reference_start', 'R1.reference_end': 'reference_end',
           'self.cut_location_offset': 'cut_location_offset'}

    def fail(self, node, why):
        raise Untranslatable('nla identify_site (no_overhang): %s at line %s: %s'
                             % (why, getattr(node, 'lineno', '?'), ast.unparse(node)[:160]))

    def tr(self, st):
        t = RefTranslator(env=dict(self.ENV), bool_names=('is_reverse',))
        t.bool_env = {'R1.is_reverse'}
        for v, (ty, e) in st.items():
            if ty == 'z':
                t.env[v] = e
            elif ty == 'str':
                t.str_env[v] = e
        return t

    def run(self, stmts, st):
        st = dict(st)
        for s in stmts:
            if isinstance(s, ast.Pass):
                continue
            if isinstance(s, ast.Assign) and len(s.targets) == 1 and isinstance(s.targets[0], ast.Name):
                v, t = s.targets[0].id, self.tr(st)
                if isinstance(s.value, ast.Constant) and s.value.value is None:
                    st[v] = ('optz', 'None')
                elif t.is_strx(s.value):
                    st[v] = ('str', t.sx(s.value))
                elif st.get(v, ('', ''))[0] == 'optz':
                    st[v] = ('optz', '(Some %s)' % t.z(s.value))
                else:
                    st[v] = ('z', t.z(s.value))
                continue
            if isinstance(s, ast.If):
                c = self.tr(st).b(s.test)
                a, b = self.run(s.body, st), self.run(s.orelse, st)
                merged = {}
                for v in a:
                    if v in b and a[v][0] == b[v][0]:
                        merged[v] = a[v] if a[v] == b[v] else (a[v][0], '(if %s then %s else %s)' % (c, a[v][1], b[v][1]))
                    elif v in st:
                        self.fail(s, 'variable %s changes type between branches' % v)
                for v in st:
                    if v not in merged:
                        self.fail(s, 'variable %s lost in a branch' % v)
                st = merged
                continue
            self.fail(s, 'statement outside subset')
        return st


def gen_no_overhang(rel):
    """the body of `if self.no_overhang:` -> nla_no_overhang_gen
       result: (site_set, ds_set, site_strand, site_pos, rz, rr, reads_qcfail, found_valid_site);
       site_set = set_site was called (RS, site_location, cut_site_strand exist)"""
    src = open(os.path.join(fw.REPO, rel)).read()
    fn = py2coq.find_function(ast.parse(src), 'NlaIIIFragment.identify_site')
    arms = [st for st in fn.body if isinstance(st, ast.If) and ast.unparse(st.test) == 'self.no_overhang']
    if len(arms) != 1:
        raise Untranslatable('identify_site: expected exactly one top-level `if self.no_overhang:`')
    body = list(arms[0].body)
    ex = RefExtractor()
    # leading part: everything up to the test on the optional site
    k = None
    for i, st in enumerate(body):
        if isinstance(st, ast.If) and isinstance(st.test, ast.Compare) and len(st.test.ops) == 1 \
                and isinstance(st.test.ops[0], ast.Is) and isinstance(st.test.left, ast.Name) \
                and ast.unparse(st.test.comparators[0]) == 'None':
            k = i
            break
    if k is None:
        raise Untranslatable('identify_site (no_overhang): no `if <site> is None:` rejection test')
    state = ex.run(body[:k], {})
    sv = body[k].test.left.id
    if state.get(sv, ('', ''))[0] != 'optz':
        ex.fail(body[k], 'tested variable is not the optional site')
    # rejection arm
    rej = body[k]
    if rej.orelse or len(rej.body) != 2 or not isinstance(rej.body[1], ast.Return) or \
            not (rej.body[1].value is None or (isinstance(rej.body[1].value, ast.Constant) and rej.body[1].value.value in (None, False))):
        ex.fail(rej, 'rejection arm is not [set_rejection_reason(...); return None]')
    hx = Extractor('nla')
    if not hx.is_call(rej.body[0], 'set_rejection_reason'):
        ex.fail(rej, 'rejection arm does not call set_rejection_reason')
    rr, qc = hx.reason_after([rej.body[0]])
    # accepting tail: set_site / set_recognized_sequence in any order, then return
    st2 = dict(state)
    st2[sv] = ('z', sv)            # bound by the match below
    t = ex.tr(st2)
    site, rz, found = None, 'None', None
    tail = body[k + 1:]
    for i, st in enumerate(tail):
        if hx.is_call(st, 'set_site'):
            if st.value.args or site is not None:
                ex.fail(st, 'set_site form')
            kw = {x.arg: x.value for x in st.value.keywords}
            if set(kw) - {'site_strand', 'site_chrom', 'site_pos', 'valid'} or not {'site_strand', 'site_chrom', 'site_pos'} <= set(kw) \
                    or ast.unparse(kw['site_chrom']) != 'R1.reference_name':
                ex.fail(st, 'set_site keywords')
            v = kw.get('valid')
            if v is not None and not (isinstance(v, ast.Constant) and isinstance(v.value, bool)):
                ex.fail(st, 'valid= is not a literal')
            site = ('true' if v is None or v.value else 'false', t.b(kw['site_strand']), t.z(kw['site_pos']))
        elif hx.is_call(st, 'set_recognized_sequence'):
            if len(st.value.args) != 1 or st.value.keywords:
                ex.fail(st, 'set_recognized_sequence form')
            rz = '(Some %s)' % t.sx(st.value.args[0])
        elif isinstance(st, ast.Return) and i == len(tail) - 1:
            v = st.value
            if v is None or (isinstance(v, ast.Constant) and v.value is None):
                found = 'false'
            elif isinstance(v, ast.Constant) and isinstance(v.value, bool):
                found = 'true' if v.value else 'false'
            elif isinstance(v, ast.Tuple) and len(v.elts) > 0:
                found = 'true'                               # a non-empty tuple is truthy
            else:
                found = '(negb (%s =? 0))' % t.z(v)          # an int is truthy iff non-zero
        else:
            ex.fail(st, 'statement outside subset')
    if site is None or found is None:
        ex.fail(arms[0], 'accepting path without set_site / return')
    seg = '\n'.join(src.splitlines()[arms[0].lineno - 1:arms[0].body[-1].end_lineno])
    sha = hashlib.sha256(seg.encode()).hexdigest()
    text = ('(* source: %s lines %d-%d sha256 %s\n'
            '   result: (site_set, ds_set, site_strand, site_pos, rz, rr, reads_qcfail, found_valid_site) *)\n'
            'Definition nla_no_overhang_gen (cut_location_offset : Z) (fetch : Z -> Z -> str) (is_reverse : bool)\n'
            '  (reference_start reference_end : Z)\n'
            '  : bool * bool * bool * Z * option str * option str * bool * bool :=\n'
            '  match %s with\n'
            '  | None => (false, false, false, 0, None, %s, %s, false)\n'
            '  | Some %s => (true, %s, %s, %s, %s, None, false, %s)\n'
            '  end.'
            % (rel, arms[0].lineno, arms[0].body[-1].end_lineno, sha, state[sv][1], rr, qc, sv, site[0], site[1], site[2], rz, found))
    return text, {'source': rel, 'lines': [arms[0].lineno, arms[0].body[-1].end_lineno], 'sha256': sha,
                  'coq': 'nla_no_overhang_gen'}


FRAG = 'singlecellmultiomics/fragment/fragment.py'


def gen_homopolymer():
    """Fragment.__init__: `if self.max_NUC_stretch is not None and (self.max_NUC_stretch*'A' in read.seq or ...)`
    -> the list of nucleotides the homopolymer filter tests; CHICFragment's max_NUC_stretch literal"""
    path = os.path.join(fw.REPO, FRAG)
    src = open(path).read()
    fn = py2coq.find_function(ast.parse(src), 'Fragment.__init__')
    ifs = [n for n in ast.walk(fn) if isinstance(n, ast.If) and 'max_NUC_stretch' in ast.unparse(n.test)]
    if len(ifs) != 1:
        raise Untranslatable('Fragment.__init__: expected exactly one test on max_NUC_stretch, found %d' % len(ifs))
    t = ifs[0].test
    if not (isinstance(t, ast.BoolOp) and isinstance(t.op, ast.And) and len(t.values) == 2
            and ast.unparse(t.values[0]) == 'self.max_NUC_stretch is not None'):
        raise Untranslatable('homopolymer test shape: %s' % ast.unparse(t)[:200])
    alts = t.values[1].values if isinstance(t.values[1], ast.BoolOp) and isinstance(t.values[1].op, ast.Or) else [t.values[1]]
    bases = []
    for a in alts:
        ok = isinstance(a, ast.Compare) and len(a.ops) == 1 and isinstance(a.ops[0], ast.In) \
            and ast.unparse(a.comparators[0]) in ('read.seq', 'read.query_sequence') \
            and isinstance(a.left, ast.BinOp) and isinstance(a.left.op, ast.Mult)
        if ok:
            l, r = a.left.left, a.left.right
            if ast.unparse(r) == 'self.max_NUC_stretch':
                l, r = r, l
            ok = ast.unparse(l) == 'self.max_NUC_stretch' and isinstance(r, ast.Constant) and isinstance(r.value, str) and len(r.value) == 1
        if not ok:
            raise Untranslatable('homopolymer alternative outside subset: %s' % ast.unparse(a))
        bases.append(ord(r.value))
    body = [ast.unparse(x) for x in ifs[0].body]
    if body != ["self.set_rejection_reason('HomoPolymer', set_qcfail=True)", 'self.qcfail = True', 'break']:
        raise Untranslatable('homopolymer branch body changed: %r' % body)
    # CHICFragment passes max_NUC_stretch = <literal> to Fragment.__init__
    csrc = open(os.path.join(fw.REPO, CHIC)).read()
    init = py2coq.find_function(ast.parse(csrc), 'CHICFragment.__init__')
    vals = [kw.value for n in ast.walk(init) if isinstance(n, ast.Call) and ast.unparse(n.func) == 'Fragment.__init__'
            for kw in n.keywords if kw.arg == 'max_NUC_stretch']
    if len(vals) != 1 or not (isinstance(vals[0], ast.Constant) and isinstance(vals[0].value, int) and vals[0].value > 0):
        raise Untranslatable('CHICFragment: max_NUC_stretch is not a positive literal')
    seg = ast.get_source_segment(src, t)
    sha = hashlib.sha256(seg.encode()).hexdigest()
    text = ('(* source: %s line %d-%d sha256 %s\n   %s *)\nDefinition nuc_stretch_bases : list Z := [%s].\n'
            '(* source: %s CHICFragment.__init__ max_NUC_stretch *)\nDefinition chic_max_nuc_stretch : nat := %d%%nat.'
            % (FRAG, t.lineno, t.end_lineno, sha, ' '.join(seg.split()), '; '.join(map(str, bases)), CHIC, vals[0].value))
    return text, {'source': FRAG, 'lines': [t.lineno, t.end_lineno], 'sha256': sha, 'coq': 'nuc_stretch_bases'}


# ------------------------------------------------------------------------------- fragment size rule
class SpanExtractor(RefExtractor):
    """Fragment.update_span: the bodies of the three guarded branches (pair / R1 only / R2 only) as (start, end)"""
    ENV = {'self.R1.is_reverse': 'r1_is_reverse', 'self.R2.is_reverse': 'r2_is_reverse',
           'self.R1.reference_start': 'r1_reference_start', 'self.R1.reference_end': 'r1_reference_end',
           'self.R2.reference_start': 'r2_reference_start', 'self.R2.reference_end': 'r2_reference_end'}
    IGNORED = ('contig', 'self.safe_span')

    def fail(self, node, why):
        raise Untranslatable('Fragment.update_span: %s at line %s: %s' % (why, getattr(node, 'lineno', '?'), ast.unparse(node)[:160]))

    def tr(self, st):
        t = RefTranslator(env=dict(self.ENV), bool_names=('r1_is_reverse', 'r2_is_reverse'))
        t.bool_env = {'self.R1.is_reverse', 'self.R2.is_reverse'}
        return t

    def run(self, stmts, st):
        st = dict(st)
        for s in stmts:
            if isinstance(s, ast.Assign) and len(s.targets) == 1:
                tg = s.targets[0]
                if ast.unparse(tg) in self.IGNORED:
                    continue
                t = self.tr(st)
                if isinstance(tg, ast.Tuple) and isinstance(s.value, ast.Tuple) and len(tg.elts) == len(s.value.elts) \
                        and all(isinstance(e, ast.Name) and e.id in ('start', 'end') for e in tg.elts):
                    vals = [t.z(v) for v in s.value.elts]      # right-hand sides never mention start / end (checked below)
                    if any(isinstance(n, ast.Name) and n.id in ('start', 'end') for v in s.value.elts for n in ast.walk(v)):
                        self.fail(s, 'right-hand side reads start/end')
                    for e, v in zip(tg.elts, vals):
                        st[e.id] = ('z', v)
                    continue
                if isinstance(tg, ast.Name) and tg.id in ('start', 'end'):
                    if any(isinstance(n, ast.Name) and n.id in ('start', 'end') for n in ast.walk(s.value)):
                        self.fail(s, 'right-hand side reads start/end')
                    st[tg.id] = ('z', t.z(s.value))
                    continue
                self.fail(s, 'assignment outside subset')
            if isinstance(s, ast.If):
                c = self.tr(st).b(s.test)
                a, b = self.run(s.body, st), self.run(s.orelse, st)
                if set(a) != set(b):
                    self.fail(s, 'branches assign different variables')
                st = {v: (a[v] if a[v] == b[v] else ('z', '(if %s then %s else %s)' % (c, a[v][1], b[v][1]))) for v in a}
                continue
            self.fail(s, 'statement outside subset')
        return st


SPAN_GUARDS = [
    ('pair', 'self.has_R1() and self.has_R2() and (self.R1.reference_start is not None) and (self.R1.reference_end is not None) '
             'and (self.R2.reference_start is not None) and (self.R2.reference_end is not None)'),
    ('r1', 'self.has_R1() and self.R1.reference_start is not None and (self.R1.reference_end is not None)'),
    ('r2', 'self.has_R2() and self.R2.reference_start is not None and (self.R2.reference_end is not None)'),
]
SPAN_ELSE = ("for read in self:\n    if read is None:\n        continue\n    if len(read.cigar) != 0:\n        raise NotImplementedError('Non implemented span')\n"
             "    if read.reference_start is not None:\n        start, end = (read.reference_start, read.reference_start)\n        contig = read.reference_name\n"
             "    else:\n        raise NotImplementedError('Non implemented span, undefined alignment, and not start coordinate')")


def norm_guard(test):
    """guard as a set of conjuncts (order and parenthesisation of an `and` chain do not matter)"""
    if isinstance(test, ast.BoolOp) and isinstance(test.op, ast.And):
        return frozenset(x for v in test.values for x in norm_guard(v))
    return frozenset([ast.unparse(test)])


class ValidExtractor:
    """<Class>.is_valid as a function of (qcfail, found_valid_site, max_fragment_size : option Z, fragment_size : option Z)
    -> (valid, rejection reason added, reads flagged qcfail).  fragment_size = None: the span is undefined,
    get_fragment_size() raises TypeError.  Continuation-passing symbolic execution of return / if / try / assignment
    of the size / set_rejection_reason; an unguarded get_fragment_size() (outside a try that swallows the TypeError,
    on a path where it can be None) is refused."""

    def __init__(self, cls):
        self.cls = cls

    def fail(self, node, why):
        raise Untranslatable('%s.is_valid: %s at line %s: %s' % (self.cls, why, getattr(node, 'lineno', '?'), ast.unparse(node)[:160]))

    def is_size(self, n, env):
        return (isinstance(n, ast.Call) and ast.unparse(n) == 'self.get_fragment_size()') or \
               (isinstance(n, ast.Name) and n.id in env.get('sizevars', ()))

    def zexpr(self, n, env):
        t = SiteTranslator(env={}, bool_names=())
        sub = {}
        if 'max' in env:
            sub['self.max_fragment_size'] = env['max']
        if 'size' in env:
            sub['self.get_fragment_size()'] = env['size']
            for v in env.get('sizevars', ()):
                sub[v] = env['size']
        def chk(x):
            u = ast.unparse(x)
            if u in sub:
                return
            if u in ('self.max_fragment_size', 'self.get_fragment_size()'):
                self.fail(n, '%s used where it may be None / may raise' % u)
            if isinstance(x, (ast.Attribute, ast.Name)) and not (isinstance(x, ast.Name) and u in ('abs', 'min', 'max')):
                self.fail(n, 'unbound name %s' % u)
            for ch in ast.iter_child_nodes(x):
                chk(ch)
        chk(n)
        t.env = sub
        return t.z(n)

    def cond(self, test, env, then_k, else_k, exc_k):
        """Coq expression; then_k / else_k : env -> str ; exc_k : (env -> str) | None"""
        if isinstance(test, ast.BoolOp) and isinstance(test.op, ast.And):
            first, rest = test.values[0], test.values[1:]
            nxt = (lambda e: self.cond(rest[0] if len(rest) == 1 else ast.BoolOp(op=ast.And(), values=rest), e, then_k, else_k, exc_k))
            return self.cond(first, env, nxt, else_k, exc_k)
        if isinstance(test, ast.UnaryOp) and isinstance(test.op, ast.Not):
            return self.cond(test.operand, env, else_k, then_k, exc_k)
        u = ast.unparse(test)
        if u == 'self.qcfail':
            return '(if qcfail then %s else %s)' % (then_k(env), else_k(env))
        if u == 'self.found_valid_site':
            return '(if found_valid_site then %s else %s)' % (then_k(env), else_k(env))
        if u in ('self.max_fragment_size is not None', 'self.max_fragment_size is None'):
            some, none = (then_k, else_k) if 'not' in u else (else_k, then_k)
            if 'max' in env:
                return some(env)
            e2 = dict(env, max='max_v')
            return '(match max_fragment_size with Some max_v => %s | None => %s end)' % (some(e2), none(env))
        if isinstance(test, ast.Compare) and len(test.ops) == 1:
            uses_size = any(self.is_size(x, env) for x in ast.walk(test))
            if uses_size and 'size' not in env:
                if exc_k is None:
                    self.fail(test, 'get_fragment_size() outside a try block')
                e2 = dict(env, size='size_v')
                inner = self.cond(test, e2, then_k, else_k, exc_k)
                return '(match fragment_size with Some size_v => %s | None => %s end)' % (inner, exc_k(env))
            t = SiteTranslator(env={}, bool_names=())
            l, r = self.zexpr(test.left, env), self.zexpr(test.comparators[0], env)
            table = {ast.Lt: '(%s <? %s)', ast.LtE: '(%s <=? %s)', ast.Gt: '(%s >? %s)', ast.GtE: '(%s >=? %s)',
                     ast.Eq: '(%s =? %s)', ast.NotEq: '(negb (%s =? %s))'}
            for k, fmt in table.items():
                if isinstance(test.ops[0], k):
                    return '(if %s then %s else %s)' % (fmt % (l, r), then_k(env), else_k(env))
        self.fail(test, 'test outside subset')

    def ev(self, stmts, env, st, after, exc_k):
        """st = (rr, qc) accumulated side effects; after : (env, st) -> str continuation when the block falls through"""
        if not stmts:
            return after(env, st)
        s, rest = stmts[0], stmts[1:]
        go = lambda e, st2=st: self.ev(rest, e, st2, after, exc_k)
        if isinstance(s, ast.Pass):
            return go(env)
        if isinstance(s, ast.Return):
            v = s.value
            if isinstance(v, ast.Constant) and isinstance(v.value, bool):
                val = 'true' if v.value else 'false'
            elif v is not None and ast.unparse(v) == 'self.found_valid_site':
                val = 'found_valid_site'
            else:
                self.fail(s, 'return value outside subset')
            return '(%s, %s, %s)' % (val, st[0], st[1])
        if isinstance(s, ast.Expr) and isinstance(s.value, ast.Call) and ast.unparse(s.value.func) == 'self.set_rejection_reason':
            rr, qc = Extractor('nla').reason_after([s])
            if st[0] != 'None':
                self.fail(s, 'two rejection reasons on one path')
            return self.ev(rest, env, (rr, qc), after, exc_k)
        if isinstance(s, ast.Assign) and len(s.targets) == 1 and isinstance(s.targets[0], ast.Name) \
                and ast.unparse(s.value) == 'self.get_fragment_size()':
            name = s.targets[0].id
            if 'size' in env:
                return go(dict(env, sizevars=tuple(env.get('sizevars', ())) + (name,)))
            if exc_k is None:
                self.fail(s, 'get_fragment_size() outside a try block')
            e2 = dict(env, size='size_v', sizevars=tuple(env.get('sizevars', ())) + (name,))
            return '(match fragment_size with Some size_v => %s | None => %s end)' % (go(e2), exc_k(env, st))
        if isinstance(s, ast.If):
            return self.cond(s.test, env,
                             lambda e: self.ev(list(s.body) + rest, e, st, after, exc_k),
                             lambda e: self.ev(list(s.orelse) + rest, e, st, after, exc_k),
                             None if exc_k is None else (lambda e: exc_k(e, st)))
        if isinstance(s, ast.Try):
            if s.orelse or s.finalbody or len(s.handlers) != 1:
                self.fail(s, 'try form')
            h = s.handlers[0]
            if not (h.type is None or ast.unparse(h.type) in ('TypeError', 'Exception')) or \
                    not all(isinstance(x, ast.Pass) for x in h.body):
                self.fail(s, 'handler is not `except TypeError/Exception: pass`')
            cont = lambda e, st2: self.ev(rest, {k: v for k, v in e.items() if k == 'max'}, st2, after, exc_k)
            return self.ev(list(s.body), env, st, cont, cont)
        self.fail(s, 'statement outside subset')


def gen_is_valid(cls, rel, coqname):
    src = open(os.path.join(fw.REPO, rel)).read()
    fn = py2coq.find_function(ast.parse(src), cls + '.is_valid')
    vx = ValidExtractor(cls)
    body = [st for st in fn.body if not (isinstance(st, ast.Expr) and isinstance(st.value, ast.Constant))]
    expr = vx.ev(body, {}, ('None', 'false'), lambda e, st: vx.fail(fn, 'falls off the end'), None)
    seg = '\n'.join(src.splitlines()[fn.lineno - 1:fn.end_lineno])
    sha = hashlib.sha256(seg.encode()).hexdigest()
    text = ('(* source: %s lines %d-%d sha256 %s\n   result: (is_valid, rejection reason added, reads flagged qcfail);'
            ' fragment_size = None: span undefined (get_fragment_size raises TypeError) *)\n'
            'Definition %s (qcfail found_valid_site : bool) (max_fragment_size fragment_size : option Z)\n'
            '  : bool * option str * bool :=\n  %s.' % (rel, fn.lineno, fn.end_lineno, sha, coqname, expr))
    return text, {'source': rel, 'lines': [fn.lineno, fn.end_lineno], 'sha256': sha, 'coq': coqname}


def gen_size():
    """Fragment.get_fragment_size, the three guarded branches of Fragment.update_span, NlaIIIFragment.is_valid,
    CHICFragment.is_valid"""
    chunks, meta = [], []
    src = open(os.path.join(fw.REPO, FRAG)).read()
    tree = ast.parse(src)
    # get_fragment_size
    fn = py2coq.find_function(tree, 'Fragment.get_fragment_size')
    body = [st for st in fn.body if not (isinstance(st, ast.Expr) and isinstance(st.value, ast.Constant))]
    if len(body) != 1 or not isinstance(body[0], ast.Return):
        raise Untranslatable('Fragment.get_fragment_size is not a single return')
    t = SiteTranslator(env={'self.span[1]': 'span_start', 'self.span[2]': 'span_end'}, bool_names=())
    if any(isinstance(n, ast.Name) and n.id not in ('abs', 'min', 'max', 'self') for n in ast.walk(body[0].value)):
        raise Untranslatable('Fragment.get_fragment_size: free name in %s' % ast.unparse(body[0].value))
    e = t.z(body[0].value)
    if 'self' in e:
        raise Untranslatable('Fragment.get_fragment_size: untranslated attribute in %s' % e)
    seg = '\n'.join(src.splitlines()[fn.lineno - 1:fn.end_lineno])
    sha = hashlib.sha256(seg.encode()).hexdigest()
    chunks.append('(* source: %s lines %d-%d sha256 %s *)\nDefinition fragment_size_gen (span_start span_end : Z) : Z :=\n  %s.'
                  % (FRAG, fn.lineno, fn.end_lineno, sha, e))
    meta.append({'source': FRAG, 'lines': [fn.lineno, fn.end_lineno], 'sha256': sha, 'coq': 'fragment_size_gen'})
    # update_span
    fn = py2coq.find_function(tree, 'Fragment.update_span')
    body = [st for st in fn.body if not (isinstance(st, ast.Expr) and isinstance(st.value, ast.Constant))]
    inits = sorted(ast.unparse(st) for st in body[:-2])
    if inits != ['contig = None', 'end = None', 'start = None'] or not isinstance(body[-2], ast.If) \
            or ast.unparse(body[-1]) != 'self.span = (contig, start, end)':
        raise Untranslatable('Fragment.update_span: outer shape changed')
    sx = SpanExtractor()
    node, defs = body[-2], []
    for name, guard in SPAN_GUARDS:
        if not isinstance(node, ast.If) or norm_guard(node.test) != norm_guard(ast.parse(guard, mode='eval').body):
            raise Untranslatable('Fragment.update_span: guard of the %s branch changed: %s'
                                 % (name, ast.unparse(node.test) if isinstance(node, ast.If) else type(node).__name__))
        st = sx.run(node.body, {})
        if set(st) != {'start', 'end'}:
            raise Untranslatable('Fragment.update_span: the %s branch does not assign start and end' % name)
        defs.append((name, st))
        if len(node.orelse) == 1 and isinstance(node.orelse[0], ast.If) and name != 'r2':
            node = node.orelse[0]
        elif name == 'r2':
            if '\n'.join(ast.unparse(x) for x in node.orelse) != SPAN_ELSE:
                raise Untranslatable('Fragment.update_span: the CIGAR-less fallback loop changed')
        else:
            raise Untranslatable('Fragment.update_span: elif chain changed')
    seg = '\n'.join(src.splitlines()[fn.lineno - 1:fn.end_lineno])
    sha = hashlib.sha256(seg.encode()).hexdigest()
    txt = ['(* source: %s lines %d-%d sha256 %s   (start, end) of self.span per guarded branch of update_span *)'
           % (FRAG, fn.lineno, fn.end_lineno, sha)]
    for name, st in defs:
        if name == 'pair':
            params = '(r1_is_reverse r2_is_reverse : bool) (r1_reference_start r1_reference_end r2_reference_start r2_reference_end : Z)'
        else:
            params = '(%s_reference_start %s_reference_end : Z)' % (name, name)
        used = st['start'][1] + ' ' + st['end'][1]
        allowed = set(params.replace('(', ' ').replace(')', ' ').replace(':', ' ').split())
        for w in set(__import__('re').findall(r'[A-Za-z_][A-Za-z_0-9.]*', used)):
            if w not in allowed and w not in ('if', 'then', 'else', 'negb', 'Z.min', 'Z.max', 'Z.abs'):
                raise Untranslatable('Fragment.update_span: the %s branch uses %s' % (name, w))
        txt.append('Definition span_%s_gen %s : Z * Z :=\n  (%s, %s).' % (name, params, st['start'][1], st['end'][1]))
    chunks.append('\n'.join(txt))
    meta.append({'source': FRAG, 'lines': [fn.lineno, fn.end_lineno], 'sha256': sha, 'coq': 'span_pair_gen span_r1_gen span_r2_gen'})
    for cls, rel, nm in (('NlaIIIFragment', NLA, 'nla_is_valid_gen'), ('CHICFragment', CHIC, 'chic_is_valid_gen')):
        t2, m2 = gen_is_valid(cls, rel, nm)
        chunks.append(t2)
        meta.append(m2)
    return chunks, meta


def regen_site():
    chunks, meta = [], []
    t, m = gen_homopolymer()
    chunks.append(t)
    meta.append(m)
    for kind, rel in (('nla', NLA), ('chic', CHIC)):
        t, m = gen_site(kind, rel)
        chunks.append(t)
        meta.append(m)
    t, m = gen_no_overhang(NLA)
    chunks.append(t)
    meta.append(m)
    c2, m2 = gen_size()
    chunks += c2
    meta += m2
    py2coq.write_gen(os.path.join(fw.COQ, 'Gen', 'GenSite.v'), 'From SCMO Require Import Lib.C09Str Lib.C09Ref.\n', chunks)
    return meta


# =============================================================================== ground truth (Python)
COMP = {'A': 'T', 'T': 'A', 'C': 'G', 'G': 'C'}
REF_CONSUMING = (0, 2, 3, 7, 8)
QUERY_CONSUMING = (0, 1, 4, 7, 8)


def revcomp(s):
    return ''.join(COMP.get(c, c) for c in reversed(s))


def ref_len(cigar):
    return sum(l for op, l in cigar if op in REF_CONSUMING)


def ref_span(cigar):
    return ref_len(cigar) or 1     # htslib bam_endpos


def softclip(k):
    return [[4, k]] if k else []


def place_read(cycles, mid, x, reverse, clip, tail, mx=None):
    """independent transcription of the ground truth: a read whose first sequenced cycle pairs with
    reference position x, first `clip` / last `tail` cycles soft-clipped"""
    if reverse:
        end = x - clip + 1                       # one past the right-most aligned base
        return {'start': end - ref_len(mid), 'cigar': softclip(tail) + [list(o) for o in mid] + softclip(clip),
                'rev': True, 'seq': revcomp(cycles), 'unmapped': False, 'qcfail': False, 'mx': mx, 'lh': None}
    return {'start': x + clip, 'cigar': softclip(clip) + [list(o) for o in mid] + softclip(tail),
            'rev': False, 'seq': cycles, 'unmapped': False, 'qcfail': False, 'mx': mx, 'lh': None}


def mirror_read(L, r):
    if r is None:
        return None
    m = dict(r)
    m['start'] = L - (r['start'] + ref_span(r['cigar']))
    m['cigar'] = [list(o) for o in reversed(r['cigar'])]
    m['rev'] = not r['rev']
    m['seq'] = revcomp(r['seq'])
    return m


CFG_KEYS = ('no_umi_cigar_processing', 'check_motif', 'allow_cycle_shift', 'invert_strand')


def cfg_kwargs(kind, c):
    """c = (nocigar, check_motif, allow_shift, invert) -> constructor kwargs (only non-defaults, like the tagger)"""
    kw = {}
    if c[0]:
        kw['no_umi_cigar_processing'] = True
    if c[3]:
        kw['invert_strand'] = True
    if kind == 'nla':
        if not c[1]:
            kw['check_motif'] = False
        if c[2]:
            kw['allow_cycle_shift'] = True
    return kw


def enc_read(r):
    if r is None:
        return []
    return [r['start'], r['cigar'], r['rev'], r['seq'], r['unmapped'], [] if r['mx'] is None else [r['mx']]]


def model_input(case):
    kind = 0 if case['kind'] == 'nla' else 1
    reads = case['reads']
    r1 = reads[0] if reads else None
    r2 = reads[1] if len(reads) > 1 else None
    pre = any(r is not None and r['qcfail'] for r in reads)
    return [kind, list(case['c']), len(reads) == 2, pre, enc_read(r1),
            [] if r2 is None else [r2['unmapped'], r2['rev']],
            [r['seq'] for r in reads if r is not None] if kind == 1 else []]


def opt(v, f=lambda x: x):
    return None if v == [] else f(v[0])


def rr_presence(v):
    """the statement asks that a read without the motif is rejected (no DS, not valid, qcfail), not for the wording of the
    RR reason: a non-empty reason is compared as present"""
    return 'rejected' if len(v) > 0 else ''


def decode_model(out):
    if out == [-1]:
        return 'raise'
    ds, rs, rz, rr, qc, valid, loc, cs = out
    return {'DS': opt(ds), 'RS': opt(rs, bool), 'RZ': opt(rz, fw.as_str), 'RR': opt(rr, rr_presence), 'qc': bool(qc),
            'valid': bool(valid), 'loc': opt(loc), 'cut_strand': opt(cs, bool)}


def canon_impl(case, res):
    """abstraction of the implementation's observation; returns (canonical, problems)"""
    if 'error' in res:
        t = res['error'].split(':')[0]
        return ('raise' if t in ('TypeError', 'ValueError') else 'error:' + res['error']), []
    problems = []
    obs = [o for o in res['reads'] if o is not None]
    ins = [r for r in case['reads'] if r is not None]
    first = obs[0]
    for o in obs[1:]:
        if any(o[t] != first[t] for t in ('DS', 'RS', 'RZ', 'RR')):
            problems.append('reads of one fragment carry different tags: %r vs %r' % (first, o))
    qc_set = [o['qcfail'] and not i['qcfail'] for o, i in zip(obs, ins)]
    if any(i['qcfail'] and not o['qcfail'] for o, i in zip(obs, ins)):
        problems.append('qcfail flag cleared')
    fresh = [q for q, i in zip(qc_set, ins) if not i['qcfail']]
    if fresh and len(set(fresh)) != 1:
        problems.append('qcfail set on some reads only: %r' % (qc_set,))
    qc = bool(fresh and fresh[0])
    loc = res['site_location']
    c = {'DS': first['DS'], 'RS': None if first['RS'] is None else bool(first['RS']), 'RZ': first['RZ'],
         'RR': None if first['RR'] is None else rr_presence(first['RR']), 'qc': qc, 'valid': res['valid'], 'loc': None if loc is None else loc[1],
         'cut_strand': res['cut_site_strand']}
    if res['strand'] != res['cut_site_strand']:
        problems.append('fragment.strand %r != cut_site_strand %r' % (res['strand'], res['cut_site_strand']))
    if (res['match_hash'] is None) == res['valid']:
        problems.append('match_hash %r inconsistent with is_valid %r' % (res['match_hash'], res['valid']))
    if res['match_hash'] is not None and (res['match_hash'][-2] != c['loc'] or res['match_hash'][-4] != c['cut_strand']):
        problems.append('match_hash %r does not carry the site' % (res['match_hash'],))
    if loc is not None and res['get_site_location'] != loc:
        problems.append('get_site_location differs from site_location')
    return c, problems


def mask_qc(case, m):
    """the model says `identify_site flags the reads`; when every read already carried the flag the
    implementation's observation cannot show it"""
    if isinstance(m, dict) and all(r['qcfail'] for r in case['reads'] if r is not None):
        m = dict(m)
        m['qc'] = False
    return m


# =============================================================================== extension: ground truth (Python)
def place_mate(cycles, mid, x2, reverse, clip, tail, mx=None):
    """the second read of a pair whose read 1 lies on strand `reverse`: first cycle at x2, opposite strand"""
    return place_read(cycles, mid, x2, not reverse, clip, tail, mx=mx)


def pair_extent(x1, clip1, x2, clip2, reverse):
    """reference bases from the first aligned base of read 1 to the first aligned base of its mate"""
    return (x1 - clip1) - (x2 + clip2) + 1 if reverse else (x2 - clip2) - (x1 + clip1) + 1


def read_end(r):
    """pysam reference_end: None for an unmapped read or a read without CIGAR"""
    if r is None or r['unmapped'] or not r['cigar']:
        return None
    return r['start'] + ref_span(r['cigar'])


def mate_ok(r1, r2):
    """hypothesis of the size-rule mirror theorems: the mate is absent, has no reference span, or lies on the other strand"""
    return r2 is None or read_end(r2) is None or r2['rev'] != r1['rev']


XKIND = {'nla': 0, 'chic': 1, 'nla_no': 2}


def x_model_input(cs):
    reads = cs['reads']
    r1 = reads[0] if reads else None
    r2 = reads[1] if len(reads) > 1 else None
    pre = any(r is not None and r['qcfail'] for r in reads)
    return [XKIND[cs['kind']], list(cs['c']), len(reads) == 2, pre, enc_read(r1), enc_read(r2),
            [r['seq'] for r in reads if r is not None] if cs['kind'] == 'chic' else [],
            [] if cs.get('ref') is None else [cs['ref']], [] if cs.get('maxfs') is None else [cs['maxfs']], -4]


def x_cfg_kwargs(cs):
    kw = cfg_kwargs('nla' if cs['kind'] == 'nla_no' else cs['kind'], cs['c'])
    if cs.get('maxfs') is not None:
        kw['max_fragment_size'] = cs['maxfs']
    return kw


def canon_rz(cs, rz):
    """no_overhang mode stores the whole scanned window as RZ; the statement asks for the coordinate of the
    recognised CATG, not for what is kept as `recognised sequence`: compared as `shows the motif`"""
    if cs['kind'] == 'nla_no' and rz is not None:
        return 'CATG' in rz
    return rz


def x_canon_impl(cs, res):
    if 'error' in res:
        t = res['error'].split(':')[0]
        return ('raise' if t in ('TypeError', 'ValueError', 'NotImplementedError') else 'error:' + res['error']), []
    r = dict(res)
    r.setdefault('get_site_location', r.get('site_location'))
    c, pr = canon_impl(cs, r)
    if isinstance(c, dict):
        c['RZ'] = canon_rz(cs, c['RZ'])
    return c, pr


def x_view(cs, d):
    """what the size rule leaves free: WHEN the reads of a fragment that is not valid get their qcfail flag and a reason
    (NlaIIIFragment does both inside is_valid, CHICFragment leaves it to write_tags) - the written BAM shows the
    flag either way and is compared through the command lines"""
    if isinstance(d, dict) and cs.get('maxfs') is not None and not d['valid']:
        d = dict(d, RR='free', qc='free')
    return d


def x_decode_model(cs, out):
    m = decode_model(out)
    if isinstance(m, dict):
        m['RZ'] = canon_rz(cs, m['RZ'])
    return m


# =============================================================================== the check
class Prop(fw.PropBase):
    ID = 'C09'
    PROPS = 'Props/C09.v'
    TRUSTED = [
        'tools/c09.py Extractor/SiteTranslator (statement-level extraction of identify_site into Gen/GenSite.v; '
        'fails closed on unrecognised statements; watched by K on every run)',
        'modelled not verified: pysam AlignedSegment (reference_end = reference_start + reference-consuming CIGAR '
        'lengths, cigartuples, seq slicing, tag storage) - K compares pysam\'s geometry with the harness on every case; '
        'Fragment.__init__ bookkeeping (sample, UMI, span), set_meta writing the same tag to every read',
        'tools/c09.py RefExtractor / SpanExtractor / ValidExtractor (extension): the body of `if self.no_overhang:`, '
        'Fragment.get_fragment_size, the three guarded branches of Fragment.update_span and both is_valid functions are '
        'regenerated into Gen/GenSite.v; which branch of update_span applies (pysam: reference_end is None for unmapped / '
        'CIGAR-less reads), its CIGAR-less fallback loop, the constructor checks of no_overhang mode and set_site are '
        'hand-written (Model/C09x.v) and compared in K',
        'modelled not verified: the reference handle - pysamiterators.CachedFasta.fetch(contig, a, b) is modelled as the '
        'Python slice contig[a:b] (negative bounds wrap, bounds beyond the end are clamped); K runs the real '
        'CachedFastaNoHandle on FASTA files written by the harness; pysam.FastaFile (raises on a negative bound) is not '
        'modelled; upper-case references only (the motif test is case sensitive)',
        'not modelled: Fragment.has_valid_span / write_tags (the FS reason and qcfail flag of a CHIC fragment rejected '
        'by size are only observed in the BAM written by the command line), cut_location_offset other than -4',
    ]
    ASSUMPTIONS = [
        'the aligner reports the read-start clipping as one soft-clip operation at the outer end of the CIGAR '
        '(no hard clip outside it) and the aligned part contains no clip operations',
        'with no_umi_cigar_processing the site theorems hold for unclipped read starts only (that flag switches the '
        'clip correction off by design)',
        'ground truth = the simulator simulate_nla / simulate_chic (first sequenced cycle pairs with the first base of '
        'the motif / with the ligated overhang base)',
        'no_overhang mode: ground truth = simulate_nla_no (first cycle = the base next to the CATG, which stays outside '
        'the read); DS = p is proved for 0..3 clipped cycles, reads lying on the contig, p > 0 and a forward window that '
        'starts inside the contig - the statement without these hypotheses is refuted (C09_nla_no_overhang_clip_refuted, '
        '_contig_start_refuted, _site_zero_refuted; findings D33/D34)',
        'max_fragment_size: fragment size = |end - start| of the span Fragment.update_span computes from the ALIGNED '
        'coordinates (soft-clipped cycles do not count); ground truth = pair_extent of the simulated pair; strand '
        'independence is proved for single reads and mates on opposite strands - for two mates on the same strand it is '
        'refuted (C09_size_rule_same_orientation_refuted; finding D35)',
    ]

    def regen(self):
        return regen_site()

    # ---------------------------------------------------------------- generators
    def rand_seq(self, n):
        while True:
            s = ''.join(self.rng.choice('ACGT') for _ in range(n))
            if not any(b * 12 in s for b in 'ACGT'):
                return s

    def rand_mid(self, qlen):
        """aligned part of a CIGAR consuming qlen query bases"""
        r = self.rng.random()
        if qlen < 6 or r < 0.6:
            return [[0, qlen]]
        a = self.rng.randint(1, qlen - 4)
        if r < 0.7:
            b = self.rng.randint(1, min(3, qlen - a - 1))
            return [[0, a], [1, b], [0, qlen - a - b]]
        if r < 0.8:
            return [[0, a], [2, self.rng.randint(1, 5)], [0, qlen - a]]
        if r < 0.9:
            return [[0, a], [3, self.rng.randint(20, 400)], [0, qlen - a]]
        b = self.rng.randint(1, qlen - a - 1)
        return [[7, a], [8, b], [7, qlen - a - b]] if qlen - a - b > 0 else [[7, a], [8, qlen - a]]

    MOTIFS = ['CATG', 'CATG', 'CATG', 'AATG', 'CTTG', 'CAGG', 'CATC', 'NATG', 'ATGC', 'ATGA', 'GCAT', 'TTTT', 'CAT', 'ATG', 'C', '']
    MX = ['scCHIC384C8U3', 'scCHIC384C8U3l', 'scCHIC', None, 'CS2C8U6', 'NLAIII384C8U3', 'scCHI', 'xscCHIC384']
    ALL_CFG = list(itertools.product((False, True), repeat=4))

    def partner(self, r1, how):
        """second read of the pair"""
        if how == 'none':
            return None
        n = self.rng.randint(8, 20)
        rev = (not r1['rev']) if how == 'opposite' else (r1['rev'] if how == 'same' else self.rng.random() < 0.5)
        start = max(0, r1['start'] + self.rng.randint(-60, 60))
        r2 = {'start': start, 'cigar': [[0, n]], 'rev': rev, 'seq': self.rand_seq(n), 'unmapped': False,
              'qcfail': False, 'mx': r1['mx'], 'lh': None}
        if how == 'unmapped':
            r2['unmapped'] = True
            r2['cigar'] = []
        return r2

    def nla_case(self, c, reverse, clip, tail, lost, motif, body_len, p, pair='none', qcfail=False, mid=None, two=True):
        cycles = motif + self.rand_seq(body_len)
        if self.rng.random() < 0.3:
            cycles = cycles + 'CATG'        # motif at the far end of the read (must not be used)
        stored = cycles[1:] if lost else cycles
        qlen = len(stored) - clip - tail
        if qlen < 1:
            return None
        mid = mid or self.rand_mid(qlen)
        d = 1 if lost else 0
        x = (p + 3 - d) if reverse else (p + d)
        r1 = place_read(stored, mid, x, reverse, clip, tail, mx='NLAIII384C8U3')
        r1['qcfail'] = qcfail
        reads = [r1, self.partner(r1, pair)] if two else [r1]
        return {'kind': 'nla', 'c': list(c), 'reads': reads,
                'truth': {'p': p, 'reverse': reverse, 'clip': clip, 'tail': tail, 'lost': lost, 'cycles': cycles}}

    def chic_case(self, c, reverse, clip, tail, mx, body_len, x, pair='absent', qcfail=False, mid=None):
        trimmed = mx is not None and mx.startswith('scCHIC')
        cycles = ('' if trimmed else self.rng.choice('TTTA')) + self.rand_seq(body_len)
        qlen = len(cycles) - clip - tail
        if qlen < 1:
            return None
        mid = mid or self.rand_mid(qlen)
        d = 1 if trimmed else 0
        r1 = place_read(cycles, mid, (x - d) if reverse else (x + d), reverse, clip, tail, mx=mx)
        r1['qcfail'] = qcfail
        reads = [r1] if pair == 'absent' else [r1, self.partner(r1, pair)]
        return {'kind': 'chic', 'c': list(c), 'reads': reads,
                'truth': {'x': x, 'reverse': reverse, 'clip': clip, 'tail': tail, 'trimmed': trimmed}}

    def edge_cases(self):
        out = []
        base = {'start': 500, 'cigar': [[0, 10]], 'rev': False, 'seq': 'CATGAAACCC', 'unmapped': False,
                'qcfail': False, 'mx': None, 'lh': None}

        def rd(**k):
            d = dict(base)
            d.update(k)
            return d
        for c in self.ALL_CFG:
            for kind in ('nla', 'chic'):
                for rev in (False, True):
                    seq = 'AAACCCCATG' if rev else 'CATGAAACCC'
                    out.append({'kind': kind, 'c': list(c), 'reads': [rd(cigar=[], rev=rev, seq=seq), None]})       # no CIGAR
                    out.append({'kind': kind, 'c': list(c), 'reads': [rd(cigar=[], unmapped=True, rev=rev), None]})  # unmapped
                    out.append({'kind': kind, 'c': list(c), 'reads': [None, rd(rev=rev, seq=seq)]})                  # R1 missing
                    out.append({'kind': kind, 'c': list(c), 'reads': [rd(cigar=[[5, 3], [4, 2], [0, 8], [4, 2], [5, 1]] if not rev
                                                                           else [[5, 1], [4, 2], [0, 8], [4, 2], [5, 3]], rev=rev, seq=seq + 'AA'), None]})
                    out.append({'kind': kind, 'c': list(c), 'reads': [rd(cigar=[[4, 10]], rev=rev, seq=seq), None]})  # clip only
                    for s in ('ATG', 'CAT', 'CATG', 'A', 'AT', 'TG', 'ATGC', 'GCAT'):
                        out.append({'kind': kind, 'c': list(c), 'reads': [rd(cigar=[[0, len(s)]], rev=rev, seq=s), None]})
                        if len(s) > 1:
                            out.append({'kind': kind, 'c': list(c), 'reads': [rd(cigar=[[4, 1], [0, len(s) - 1]] if not rev else
                                                                                   [[0, len(s) - 1], [4, 1]], rev=rev, seq=s), None]})
            out.append({'kind': 'nla', 'c': list(c), 'reads': [rd()]})          # one-element read list
            out.append({'kind': 'chic', 'c': list(c), 'reads': [rd()]})
        return out

    def make_cases(self):
        rng = self.rng
        quick = self.tier == 'quick'
        cases = []
        # 1. exhaustive small scope: every configuration x strand x clip 0..6 x lost x motif variant
        for c in self.ALL_CFG:
            for reverse in (False, True):
                for clip in range(0, 7):
                    for lost in (False, True):
                        for motif in self.MOTIFS:
                            for tail in ((0,) if quick else (0, 2)):
                                cs = self.nla_case(c, reverse, clip, tail, lost, motif, 8 + clip + tail, rng.randint(50, 90000))
                                if cs:
                                    cases.append(cs)
                    for mx in self.MX:
                        for tail in ((0,) if quick else (0, 2)):
                            cs = self.chic_case(c, reverse, clip, tail, mx, 9 + clip + tail, rng.randint(50, 90000))
                            if cs and (c[1], c[2]) == (True, False):   # check_motif / allow_shift do not exist for chic
                                cases.append(cs)
        # 1b. directed: motif / overhang at the very start of the contig (site coordinate 0); the mirrored run
        #     puts it at the contig end
        for c in self.ALL_CFG:
            for clip in range(0, 7):
                for lost in (False, True):
                    cs = self.nla_case(c, False, clip, 0, lost, 'CATG', 8 + clip, 0)
                    if cs:
                        cases.append(cs)
                    cs = self.nla_case(c, True, clip, 0, lost, 'CATG', 8 + clip, 100000 - 4)
                    if cs:
                        cases.append(cs)
                if (c[1], c[2]) == (True, False):
                    for mx in ('scCHIC384C8U3', None):
                        cases.append(self.chic_case(c, False, clip, 0, mx, 9 + clip, 1))
                        cases.append(self.chic_case(c, True, clip, 0, mx, 9 + clip, 100000 - 2))
        # 1c. directed: homopolymer runs of 17/18/19 of each nucleotide in R1 or R2 (CHIC filter, max_NUC_stretch 18);
        #     the mirrored run shows the complementary run
        for base in 'ACGT':
            other = {'A': 'C', 'C': 'A', 'G': 'T', 'T': 'G'}[base]
            for n in (17, 18, 19):
                for reverse in (False, True):
                    for target in (0, 1):
                        for kind in ('chic', 'nla'):
                            c = (False, True, False, False)
                            x = rng.randint(200, 90000)
                            cs = self.chic_case(c, reverse, rng.choice([0, 2]), 0, rng.choice(self.MX[:4]), 40, x, pair='opposite', mid=None) \
                                if kind == 'chic' else self.nla_case(c, reverse, rng.choice([0, 2]), 0, False, 'CATG', 40, x, pair='opposite')
                            r = cs['reads'][target]
                            if target == 1:
                                r['seq'] = self.rand_seq(36)
                                r['cigar'] = [[0, 36]]
                            q = r['seq']
                            k = 8
                            r['seq'] = q[:k - 1] + other + base * n + other + q[k + n + 1:]
                            assert len(r['seq']) == len(q)
                            if 'cycles' in cs['truth'] and target == 0:
                                cs['truth']['cycles'] = revcomp(r['seq']) if reverse else r['seq']
                            cases.append(cs)
        # 1d. directed: read 2 present but unmapped, with either strand flag (flags 133 / 149), both R1 strands
        for c in [c for c in self.ALL_CFG if (c[1], c[2]) == (True, False)]:
            for reverse in (False, True):
                for r2rev in (False, True):
                    for mx in ('scCHIC384C8U3', None):
                        cs = self.chic_case(c, reverse, rng.choice([0, 1, 3]), 0, mx, 20, rng.randint(200, 90000), pair='unmapped')
                        cs['reads'][1]['rev'] = r2rev
                        cases.append(cs)
                    cs = self.nla_case(c, reverse, rng.choice([0, 1, 3]), 0, False, 'CATG', 20, rng.randint(200, 90000), pair='unmapped')
                    cs['reads'][1]['rev'] = r2rev
                    cases.append(cs)
        n_exh = len(cases)
        # 2. random: longer reads, indel CIGARs, pairs, qcfail input, motif errors
        N = 3000 if quick else 150000
        for _ in range(N):
            c = rng.choice(self.ALL_CFG)
            reverse = rng.random() < 0.5
            clip = rng.choice([0, 0, 1, 2, 3, 4, 5, 6, rng.randint(0, 12)])
            tail = rng.choice([0, 0, 0, 1, 3, rng.randint(0, 8)])
            qc = rng.random() < 0.06
            if rng.random() < 0.55:
                pair = rng.choice(['none', 'none', 'opposite', 'opposite', 'same', 'unmapped'])
                cs = self.nla_case(c, reverse, clip, tail, rng.random() < 0.3, rng.choice(self.MOTIFS),
                                   rng.randint(4, 60), rng.randint(50, 90000), pair=pair, qcfail=qc)
            else:
                pair = rng.choice(['absent', 'none', 'opposite', 'opposite', 'same', 'unmapped'])
                cs = self.chic_case(c, reverse, clip, tail, rng.choice(self.MX), rng.randint(4, 60),
                                    rng.randint(50, 90000), pair=pair, qcfail=qc)
            if cs:
                if cs['reads'][-1] is not None and len(cs['reads']) > 1 and rng.random() < 0.1:
                    cs['reads'][1]['qcfail'] = True
                cases.append(cs)
        cases += self.edge_cases()
        # 2b. libraries that additionally go through a BAM file on disk and MoleculeIterator
        self.libs = []
        for li in range(4 if quick else 32):
            kind = 'nla' if li % 2 == 0 else 'chic'
            c = rng.choice([c for c in self.ALL_CFG if kind == 'nla' or (c[1], c[2]) == (True, False)])
            idxs = []
            for k in range(60):
                p = 500 + 1500 * k + rng.randint(0, 40)
                reverse, clip, tail = rng.random() < 0.5, rng.choice([0, 0, 1, 2, 3, 6]), rng.choice([0, 0, 2])
                pair = rng.choice(['none', 'opposite'])
                if kind == 'nla':
                    cs = self.nla_case(c, reverse, clip, tail, rng.random() < 0.3, rng.choice(self.MOTIFS[:12]),
                                       rng.randint(10, 40), p, pair=pair)
                else:
                    cs = self.chic_case(c, reverse, clip, tail, rng.choice(self.MX), rng.randint(10, 40), p, pair=pair)
                if cs:
                    idxs.append(len(cases))
                    cases.append(cs)
            self.libs.append({'id': li, 'kind': kind, 'c': list(c), 'idx': idxs})
        # 2b'. command line: bamtagmultiome.py -method nla|chic with each fragment-level flag
        FLAGS = {'--no_umi_cigar_processing': 0, '--no_restriction_motif_check': 1, '--allow_cycle_shift': 2}
        self.clis = []
        combos = [('nla', []), ('nla', ['--no_umi_cigar_processing']), ('nla', ['--no_restriction_motif_check']),
                  ('nla', ['--allow_cycle_shift']), ('nla', list(FLAGS)),
                  ('chic', []), ('chic', ['--no_umi_cigar_processing']), ('chic', ['--allow_cycle_shift']),
                  ('chic', ['--allow_cycle_shift', '--no_umi_cigar_processing'])]
        for li, (kind, flags) in enumerate(combos):
            c = [False, True, False, False]
            for f in flags:
                if kind == 'nla' or f == '--no_umi_cigar_processing':
                    c[FLAGS[f]] = (FLAGS[f] != 1)
            idxs = []
            for k in range(30 if quick else 120):
                p = 500 + 700 * k + rng.randint(0, 40)
                reverse, clip, tail = rng.random() < 0.5, rng.choice([0, 1, 2, 3, 6]), rng.choice([0, 0, 2])
                pair = rng.choice(['none', 'opposite'])
                if kind == 'nla':
                    cs = self.nla_case(c, reverse, clip, tail, rng.random() < 0.3, rng.choice(self.MOTIFS[:12]),
                                       rng.randint(10, 40), p, pair=pair)
                else:
                    cs = self.chic_case(c, reverse, clip, tail, rng.choice(self.MX), rng.randint(10, 40), p, pair=pair)
                if cs:
                    idxs.append(len(cases))
                    cases.append(cs)
            self.clis.append({'id': li, 'kind': kind, 'flags': flags, 'c': list(c), 'idx': idxs})
        # 2c. molecules: 2-4 fragments of one cut (ragged within the assignment radius for chic) plus an unrelated
        #     fragment, tagged through MoleculeIterator + write_tags, as given and mirrored
        self.mols = []
        for mi in range(60 if quick else 600):
            kind = 'chic' if mi % 4 else 'nla'
            c = rng.choice([c for c in self.ALL_CFG if kind == 'nla' or (c[1], c[2]) == (True, False)])
            radius = rng.choice([0, 1, 2, 3, 5]) if kind == 'chic' else None
            reverse = rng.random() < 0.5
            base = rng.randint(200, 90000)
            mx = rng.choice(self.MX)
            pair = rng.choice(['none', 'opposite'])
            idxs = []
            for k in range(rng.randint(2, 4)):
                clip = rng.choice([0, 0, 1, 2, 3]) if not c[0] else 0
                if kind == 'chic':
                    cs = self.chic_case(c, reverse, clip, rng.choice([0, 0, 2]), mx, rng.randint(12, 40),
                                        base + rng.randint(0, radius), pair=pair)
                else:
                    cs = self.nla_case(c, reverse, clip, rng.choice([0, 0, 2]), False, 'CATG', rng.randint(12, 40), base, pair=pair)
                idxs.append(len(cases))
                cases.append(cs)
            far = base + rng.choice([-1, 1]) * rng.randint(30, 60)
            cs = self.chic_case(c, reverse, 0, 0, mx, 20, far, pair=pair) if kind == 'chic' else \
                self.nla_case(c, reverse, 0, 0, False, 'CATG', 20, far, pair=pair)
            cs['reads'][0]['umi'] = 'TTT'
            idxs.append(len(cases))
            cases.append(cs)
            self.mols.append({'id': mi, 'kind': kind, 'c': list(c), 'radius': radius, 'idx': idxs})
        # 3. every case also mirrored onto the reverse-complemented reference
        L = 100000
        mirrored = []
        for k, cs in enumerate(cases):
            m = {'kind': cs['kind'], 'c': cs['c'], 'reads': [mirror_read(L, r) for r in cs['reads']], 'mirror_of': k}
            mirrored.append(m)
        return cases, mirrored, n_exh, L

    def load_corpus(self):
        d = os.path.join(fw.VERIF, 'corpus', 'C09')
        out = []
        if os.path.isdir(d):
            for f in sorted(os.listdir(d)):
                if f.endswith('.json'):
                    out.append(json.load(open(os.path.join(d, f))))
        return out

    def cli_payload(self, cases):
        return [{'id': l['id'], 'kind': l['kind'], 'flags': l['flags'],
                 'cases': [self.payload_case(cases[k]) for k in l['idx']]} for l in self.clis]

    def mol_payload(self, cases, mirrored):
        out = []
        for m in self.mols:
            cfg = cfg_kwargs(m['kind'], m['c'])
            if m['radius'] is not None:
                cfg['assignment_radius'] = m['radius']
            for src in (cases, mirrored):
                out.append({'kind': m['kind'], 'cfg': cfg, 'cases': [self.payload_case(src[k]) for k in m['idx']]})
        return out

    def payload_case(self, cs):
        return {'kind': cs['kind'], 'cfg': cfg_kwargs(cs['kind'], cs['c']), 'reads': cs['reads']}

    # ---------------------------------------------------------------- K
    def correspondence(self):
        corpus = self.load_corpus()
        cases, mirrored, n_exh, L = self.make_cases()
        allc = corpus + cases + mirrored
        off = len(corpus)
        self.L, self.off, self.n_plain = L, off, len(cases)
        bam_payload = [{'id': lib['id'], 'kind': lib['kind'], 'cfg': cfg_kwargs(lib['kind'], lib['c']),
                        'cases': [self.payload_case(cases[k]) for k in lib['idx']]} for lib in self.libs]
        self.make_xcases()
        out = fw.run_impl('impl_c09.py', {'cases': [self.payload_case(c) for c in allc], 'bam': bam_payload,
                                          'mol': self.mol_payload(cases, mirrored),
                                          'cli': self.cli_payload(cases) + self.xcli_payload(),
                                          'x': [self.x_payload(c) for c in self.xc]})
        res, self.bam_res, self.mol_res = out['cases'], out['bam'], out['mol']
        self.cli_res, self.xcli_res, self.xres = out['cli'][:len(self.clis)], out['cli'][len(self.clis):], out['x']
        self.ximpl = None
        self.allc, self.res = allc, res
        impl, problems = [], []
        for cs, r in zip(allc, res):
            c, pr = canon_impl(cs, r)
            impl.append(c)
            if pr:
                problems.append({'input': self.payload_case(cs), 'problems': pr})
            # pysam contract used by the model: reference_end = start + reference-consuming lengths
            if 'geo' in r:
                for spec, g in zip(cs['reads'], r['geo']):
                    if spec is None:
                        continue
                    exp_end = None if (spec['unmapped'] or not spec['cigar']) else spec['start'] + ref_span(spec['cigar'])
                    exp_ct = [list(x) for x in spec['cigar']] or None
                    if g['reference_end'] != exp_end or g['cigartuples'] != exp_ct or g['seq'] != spec['seq'] \
                            or g['reference_start'] != spec['start']:
                        problems.append({'input': spec, 'problems': ['pysam geometry differs from the model contract: %r' % (g,)]})
        self.impl = impl

        def nontrivial(cs):
            r1 = cs['reads'][0] if cs['reads'] else None
            return r1 is not None and not r1['unmapped'] and (r1['rev'] or any(op == 4 for op, _ in r1['cigar']))
        keys = set()
        for cs in allc:
            if nontrivial(cs):
                keys.add(fw.canon_hash([cs['kind'], cs['c'], [enc_read(r) for r in cs['reads']]]))
        truth = [cs for cs in cases if 'truth' in cs]
        hist_clip, hist_kind = {}, {}
        for cs in truth:
            hist_clip[cs['truth']['clip']] = hist_clip.get(cs['truth']['clip'], 0) + 1
            k = '%s/%s' % (cs['kind'], 'rev' if cs['truth']['reverse'] else 'fwd')
            hist_kind[k] = hist_kind.get(k, 0) + 1
        outcome_hist = {}
        for c in impl:
            k = c if isinstance(c, str) else ('site' if c['DS'] is not None else 'rejected:%s' % c['RR'])
            outcome_hist[k] = outcome_hist.get(k, 0) + 1
        self.cov.update({
            'evaluations': len(allc),
            'distinct_nontrivial': len(keys),
            'rule': 'one evaluation = one fragment built from in-memory pysam reads through NlaIIIFragment / CHICFragment; '
                    'non-trivial = R1 mapped and (reverse strand or soft-clipped); distinct by hash of (class, config, reads). '
                    'every case is also run mirrored onto the reverse-complemented reference',
            'exhaustive': False,
            'exhaustive_small_scope': 'all 16 configurations x strand x clip 0..6 x lost-cycle x %d motif variants (nla), x %d MX layouts (chic): %d cases'
                          % (len(self.MOTIFS), len(self.MX), n_exh),
            'corpus_cases': len(corpus), 'simulated': len(truth), 'mirrored': len(mirrored),
            'hist_clip': {str(k): v for k, v in sorted(hist_clip.items())}, 'hist_class_strand': hist_kind,
            'hist_outcome': outcome_hist,
            'samples': [{'input': self.payload_case(allc[i]), 'impl': impl[i]} for i in (off, off + n_exh // 2, off + len(cases) - 1)],
        })
        if problems:
            self.problems = problems
            raise fw.Broken('correspondence', 'implementation observation inconsistent: %r' % (problems[0],))
        if not self.model_ok:
            return
        self.raw_model = fw.run_model('C09', 0, [model_input(c) for c in allc])
        mout = [decode_model(o) for o in self.raw_model]
        dis = []
        for i, (cs, m, im) in enumerate(zip(allc, mout, impl)):
            if mask_qc(cs, m) != im:
                dis.append({'input': self.payload_case(cs), 'model': m, 'impl': im})
        # BAM round trip: tags written through MoleculeIterator(fragment_class_args=...) on reads read back from disk
        nbam = 0
        for lib, br in zip(self.libs, self.bam_res):
            if 'error' in br:
                dis.append({'what': 'BAM round trip raised', 'impl': br['error'], 'input': lib['c']})
                continue
            for n, k in enumerate(lib['idx']):
                m, got = mout[off + k], br.get('f%04d' % n)
                nbam += 1
                if isinstance(m, dict) and m['valid']:
                    exp = {'qcfail': False, 'DS': m['DS'], 'RS': int(m['RS']), 'RZ': m['RZ'], 'RR': m['RR']}
                    if got is None or any(v != exp for v in got.values()):
                        dis.append({'what': 'tags after BAM round trip + MoleculeIterator differ from the model',
                                    'input': self.payload_case(cases[k]), 'model': exp, 'impl': got})
                elif got is not None:
                    dis.append({'what': 'fragment the model rejects was emitted by MoleculeIterator',
                                'input': self.payload_case(cases[k]), 'model': m, 'impl': got})
        self.cov['bam_roundtrip_fragments'] = nbam
        # command line: tags in the BAM written by bamtagmultiome against the model under the configuration the flags mean
        ncli = 0
        for lib, cr in zip(self.clis, self.cli_res):
            if 'error' in cr:
                dis.append({'what': 'bamtagmultiome -method %s %s raised' % (lib['kind'], ' '.join(lib['flags'])), 'impl': cr['error']})
                continue
            for n, k in enumerate(lib['idx']):
                m, got = mout[off + k], cr.get('f%04d' % n)
                ncli += 1
                if not isinstance(m, dict):
                    continue
                exp = {'DS': m['DS'], 'RS': None if m['RS'] is None else int(m['RS']), 'RZ': m['RZ']}
                if got is None or any({t: v[t] for t in exp} != exp for v in got.values()):
                    dis.append({'what': 'tags written by `bamtagmultiome.py -method %s %s` differ from the model under configuration %r'
                                        % (lib['kind'], ' '.join(lib['flags']), dict(zip(CFG_KEYS, lib['c']))),
                                'input': self.payload_case(cases[k]), 'model': exp, 'impl': got})
        self.cov['command_line_fragments'] = ncli
        self.cov['command_lines'] = ['-method %s %s' % (l['kind'], ' '.join(l['flags'])) for l in self.clis]
        # molecules: DS of every fragment after write_tags, and the molecule's cut site, against the model
        # (the grouping and the order in which fragments were added are taken from the implementation)
        nmol, m3_in, m3_exp, m3_ctx = 0, [], [], []
        for j, mr in enumerate(self.mol_res):
            m = self.mols[j // 2]
            if 'error' in mr:
                dis.append({'what': 'molecule stream raised', 'impl': mr['error'], 'input': m})
                continue
            for mol in mr['molecules']:
                mem = [x for x in mol['members'] if x['site'] is not None]
                if len(mem) != len(mol['members']) or not mem:
                    continue
                nmol += 1
                frs = [[x['strand'], x['site']] for x in mem]
                ds = [mr['tags'][x['name']]['R1']['DS'] for x in mem]
                if m['kind'] == 'chic':
                    m3_in.append((3, [m['radius'], frs])); m3_exp.append(ds)
                else:
                    m3_in.append((3, [0, frs])); m3_exp.append(ds)
                m3_in.append((4, [0, frs])); m3_exp.append([] if mol['site'] is None else [mol['site']])
                m3_ctx += [(m, mol), (m, mol)]
        for mode in (3, 4):
            sel = [i for i, x in enumerate(m3_in) if x[0] == mode]
            outm = fw.run_model('C09', mode, [m3_in[i][1] for i in sel]) if sel else []
            for i, o in zip(sel, outm):
                if o != m3_exp[i]:
                    dis.append({'what': 'molecule-level DS after write_tags / molecule cut site differs from the model (mode %d)' % mode,
                                'input': {'scenario': m3_ctx[i][0], 'molecule': m3_ctx[i][1]}, 'model': o, 'impl': m3_exp[i]})
        self.cov['molecules_validated'] = nmol
        # the Coq simulator / mirror against the independent Python ones
        sim_in, sim_exp = [], []
        for cs in truth:
            t, r1 = cs['truth'], cs['reads'][0]
            mid = [o for o in r1['cigar'] if o[0] != 4]
            if cs['kind'] == 'nla':
                sim_in.append([0, t['cycles'], mid, t['p'], t['reverse'], t['clip'], t['tail'], t['lost'], []])
                e = dict(r1, mx=None)
            else:
                cyc = revcomp(r1['seq']) if r1['rev'] else r1['seq']
                sim_in.append([1, cyc, mid, t['x'], t['reverse'], t['clip'], t['tail'], t['trimmed'],
                               [] if r1['mx'] is None else [r1['mx']]])
                e = r1
            sim_exp.append(fw.to_val(enc_read(e)))
        sim_out = fw.run_model('C09', 1, sim_in)
        for a, b, cs in zip(sim_out, sim_exp, truth):
            if a != b:
                dis.append({'what': 'Coq simulator differs from the Python ground-truth simulator', 'input': cs['truth'],
                            'model': a, 'python': b})
        mir_idx = [k for k, cs in enumerate(cases) if cs['reads'] and cs['reads'][0] is not None]
        mir_out = fw.run_model('C09', 2, [[L, enc_read(cases[k]['reads'][0])] for k in mir_idx])
        for k, a in zip(mir_idx, mir_out):
            b = fw.to_val(enc_read(mirrored[k]['reads'][0]))
            if a != b:
                dis.append({'what': 'Coq mirror differs from the Python mirror', 'input': cases[k]['reads'][0], 'model': a, 'python': b})
        dis += self.correspondence_x()
        self.cov['traces_validated_against_impl'] = len(allc) + len(self.xc)
        self.cov['evaluations'] = len(allc) + len(self.xc)
        self.cov['simulator_crosschecked'] = len(sim_in)
        self.cov['mirror_crosschecked'] = len(mir_idx)
        self.cov['disagreements'] = len(dis)
        pre = sum(1 for cs in truth if self.in_scope(cs))
        self.cov['precondition_hit_rate'] = round(pre / max(1, len(truth)), 4)
        idx = sorted(self.rng.sample(range(len(allc)), 100))
        ok, nm, log = fw.vm_crosscheck('C09', 0, [(model_input(allc[i]), fw.to_val(self.raw_model[i])) for i in idx])
        self.cov['vm_compute_crosscheck'] = {'cases': len(idx), 'mismatches': nm}
        if not ok:
            raise fw.Broken('extraction', 'vm_compute and extracted model disagree: ' + log[-800:])
        if dis:
            self.dis = dis
            raise fw.Broken('correspondence', 'model and implementation disagree on %d cases; first: %r' % (len(dis), dis[0]))

    # ---------------------------------------------------------------- extension stream (no_overhang, max_fragment_size)
    def clean_ref(self, L):
        s = ''.join(self.rng.choice('ACGT') for _ in range(L))
        while 'CATG' in s:
            s = s.replace('CATG', 'CTTG')
        return s

    def small_mid(self, qlen):
        r = self.rng.random()
        if qlen < 5 or r < 0.6:
            return [[0, qlen]]
        a = self.rng.randint(1, qlen - 3)
        if r < 0.8:
            return [[0, a], [1, 1], [0, qlen - a - 1]]
        return [[0, a], [2, self.rng.randint(1, 3)], [0, qlen - a]]

    def x_mate(self, r1, x1, clip1, how, lo, hi, size_target=None):
        """-> (mate or None, truth size or None).  lo/hi: contig bounds for the mate"""
        rng = self.rng
        rev = r1['rev']
        own = ref_len([o for o in r1['cigar'] if o[0] != 4])
        if how == 'none':
            return None, own
        q2 = rng.randint(4, 12)
        clip2 = rng.choice([0, 0, 1, 2])
        mid2 = self.small_mid(q2)
        cyc2 = self.rand_seq(q2 + clip2)
        if how == 'unmapped':
            m = {'start': r1['start'], 'cigar': [], 'rev': rng.random() < 0.5, 'seq': cyc2, 'unmapped': True,
                 'qcfail': False, 'mx': r1['mx'], 'lh': None}
            return m, own
        if how == 'opposite':
            ext = size_target if size_target is not None else rng.randint(own, own + 60)
            x2 = (x1 - clip1) - ext + 1 - clip2 if rev else ext - 1 + (x1 + clip1) + clip2
            m = place_mate(cyc2, mid2, x2, rev, clip2, 0, mx=r1['mx'])
            if m['start'] < lo or m['start'] + ref_len(mid2) > hi:
                return None, own
            return m, abs(pair_extent(x1, clip1, x2, clip2, rev))
        # same strand as read 1: NlaIIIFragment accepts it, the span is then taken from the two start coordinates
        start2 = r1['start'] + rng.randint(-40, 40)
        if start2 < lo or start2 + ref_len(mid2) > hi:
            return None, own
        m = {'start': start2, 'cigar': [list(o) for o in mid2], 'rev': rev, 'seq': cyc2[:q2], 'unmapped': False,
             'qcfail': False, 'mx': r1['mx'], 'lh': None}
        return m, None

    def x_maxfs(self, size, r1, mate):
        rng = self.rng
        if size is None:      # same-strand mates: aim at the span the code computes from the start coordinates
            size = abs(r1['start'] - mate['start'])
        return rng.choice([None, None, size - 1, size, size + 1, size, size - 1, 0, size + rng.randint(2, 50), max(0, size - rng.randint(2, 20))])

    def x_no_case(self, forced=None):
        """one no_overhang case on its own small contig"""
        rng = self.rng
        f = forced or {}
        c = f.get('c') or [rng.random() < 0.2, rng.random() > 0.03, rng.random() < 0.3, rng.random() < 0.3]
        reverse = f.get('reverse', rng.random() < 0.5)
        clip = f.get('clip', rng.choice([0, 0, 0, 1, 2, 3, 3, 4, 5]))
        tail = rng.choice([0, 0, 0, 2])
        qlen = rng.randint(4, 14)
        mid = self.small_mid(qlen)
        rl = ref_len(mid)
        L = f.get('L') or rng.randint(rl + clip + 16, rl + clip + 80)
        lo_p = (clip + rl) if reverse else 0
        hi_p = (L - 4) if reverse else (L - 4 - clip - rl)
        if hi_p < lo_p:
            return None
        edge = f.get('edge', rng.random() < 0.3)
        if 'p' in f:
            p = f['p']
        elif edge:
            p = max(lo_p, hi_p - rng.randint(0, 8)) if reverse else min(hi_p, lo_p + rng.randint(0, 8))
        else:
            p = rng.randint(lo_p, hi_p)
        if not lo_p <= p <= hi_p:
            return None
        variant = f.get('variant') or rng.choice(['plain'] * 7 + ['none', 'decoy', 'gap'])
        ref = self.clean_ref(L)
        gap = 0
        if variant != 'none':
            ref = ref[:p] + 'CATG' + ref[p + 4:]
        if variant == 'decoy':      # a second CATG right behind the first, on the read side
            q = p - 4 if reverse else p + 4
            if 0 <= q <= L - 4:
                ref = ref[:q] + 'CATG' + ref[q + 4:]
        if variant == 'gap':        # the read starts 1..3 bases away from the motif without any clipping
            gap = rng.randint(1, 3)
        cycles = self.rand_seq(qlen + clip + tail)
        x = (p - 1 - gap) if reverse else (p + 4 + gap)
        r1 = place_read(cycles, mid, x, reverse, clip, tail, mx='NLAIII384C8U3')
        if r1['start'] < 0 or r1['start'] + rl > L:
            return None
        r1['qcfail'] = rng.random() < 0.05
        how = f.get('pair') or rng.choice(['none'] * 5 + ['opposite'] * 3 + ['same', 'unmapped'])
        mate, size = self.x_mate(r1, x, clip, how, 0, L)
        if mate is None and how not in ('none',):
            how, size = 'none', rl
        reads = [r1, mate]
        if rng.random() < 0.02:
            reads = [r1]
        maxfs = self.x_maxfs(size, r1, mate)
        has_ref = rng.random() > 0.02
        return {'kind': 'nla_no', 'c': c, 'reads': reads, 'ref': ref if has_ref else None, 'L': L, 'maxfs': maxfs,
                'truth': {'p': p, 'reverse': reverse, 'clip': clip, 'tail': tail, 'variant': variant, 'size': size,
                          'pair': how, 'x': x}}

    def x_size_case(self, kind, forced=None):
        """a simulated nla / chic fragment on the large contig with a placed mate and max_fragment_size near its size"""
        rng = self.rng
        f = forced or {}
        reverse = f.get('reverse', rng.random() < 0.5)
        clip = rng.choice([0, 0, 1, 2, 3, 6])
        tail = rng.choice([0, 0, 2])
        p = f.get('p') or rng.randint(2000, 90000)
        if kind == 'nla':
            c = f.get('c') or rng.choice(self.ALL_CFG)
            cs = self.nla_case(c, reverse, clip, tail, False, rng.choice(['CATG'] * 5 + ['CTTG']), rng.randint(6, 30), p, pair='none')
            x1 = (p + 3) if reverse else p
        else:
            c = f.get('c') or rng.choice([c for c in self.ALL_CFG if (c[1], c[2]) == (True, False)])
            mx = rng.choice(self.MX)
            cs = self.chic_case(c, reverse, clip, tail, mx, rng.randint(6, 30), p, pair='none')
            trimmed = mx is not None and mx.startswith('scCHIC')
            d = 1 if trimmed else 0
            x1 = (p - d) if reverse else (p + d)
        if cs is None:
            return None
        r1 = cs['reads'][0]
        r1['qcfail'] = rng.random() < 0.05
        how = f.get('pair') or rng.choice(['none'] * 3 + ['opposite'] * 5 + ['same', 'unmapped'])
        mate, size = self.x_mate(r1, x1, clip, how, 0, 100000)
        if mate is None and how != 'none':
            how, size = 'none', ref_len([o for o in r1['cigar'] if o[0] != 4])
        cs['reads'] = [r1, mate]
        if kind == 'chic' and mate is None and rng.random() < 0.3:
            cs['reads'] = [r1]
        cs['maxfs'] = f['maxfs'](size) if 'maxfs' in f else self.x_maxfs(size, r1, mate)
        cs['c'] = list(cs['c'])
        cs['truth'] = dict(cs['truth'], size=size, pair=how, x1=x1)
        cs['L'] = 100000
        return cs

    def make_xcases(self):
        rng = self.rng
        quick = self.tier == 'quick'
        xs = []
        # exhaustive small scope: strand x clip 0..5 x distance of the motif from the contig start / end 0..9
        for reverse in (False, True):
            for clip in range(0, 6):
                for d in range(0, 10):
                    for variant in ('plain', 'none'):
                        L = 60
                        p = (L - 4 - d) if reverse else d
                        cs = self.x_no_case({'reverse': reverse, 'clip': clip, 'p': p, 'L': L, 'variant': variant,
                                             'c': [False, True, False, False], 'pair': 'none'})
                        if cs:
                            xs.append(cs)
        n_exh = len(xs)
        for _ in range(700 if quick else 12000):
            cs = self.x_no_case()
            if cs:
                xs.append(cs)
        for _ in range(900 if quick else 16000):
            cs = self.x_size_case(rng.choice(['nla', 'chic']))
            if cs:
                xs.append(cs)
        # command lines: -max_fragment_size for both methods, -method nla_no_overhang -ref <fasta>
        self.xclis = []
        nfr = 30 if quick else 120
        for kind in ('nla', 'chic'):
            m = rng.choice([50, 60, 70])
            idxs = []
            for k in range(nfr):
                cs = self.x_size_case(kind, {'p': 2000 + 900 * k + rng.randint(0, 40), 'c': [False, True, False, False],
                                             'pair': rng.choice(['none', 'opposite', 'opposite']),
                                             'maxfs': lambda size, m=m: m})
                if cs:
                    if cs['reads'][0]['qcfail']:
                        cs['reads'][0]['qcfail'] = False
                    if cs['truth']['pair'] == 'opposite' and rng.random() < 0.8:
                        # re-place the mate so that the size lands on the boundary m-1 / m / m+1
                        r1, t = cs['reads'][0], cs['truth']
                        mate, size = self.x_mate(r1, t['x1'], t['clip'], 'opposite', 0, 100000, size_target=m + rng.choice([-1, 0, 1]))
                        if mate is not None:
                            cs['reads'][1] = mate
                            t['size'] = size
                    idxs.append(len(xs))
                    xs.append(cs)
            self.xclis.append({'kind': kind, 'method': kind, 'flags': ['-max_fragment_size', str(m)], 'idx': idxs, 'ref': None, 'L': None})
        Lc = 2000 + 600 * nfr
        ref = self.clean_ref(Lc)
        idxs, frs = [], []
        for k in range(nfr):
            reverse = rng.random() < 0.5
            clip, tail = rng.choice([0, 0, 1, 2, 3, 4]), rng.choice([0, 0, 2])
            qlen = rng.randint(8, 30)
            mid = self.small_mid(qlen)
            p = 1000 + 600 * k + rng.randint(0, 40)
            variant = rng.choice(['plain'] * 5 + ['none'])
            if variant == 'plain':
                ref = ref[:p] + 'CATG' + ref[p + 4:]
            x = (p - 1) if reverse else (p + 4)
            r1 = place_read(self.rand_seq(qlen + clip + tail), mid, x, reverse, clip, tail, mx='NLAIII384C8U3')
            mate, size = self.x_mate(r1, x, clip, rng.choice(['none', 'opposite']), p - 250, p + 250)
            frs.append((r1, mate, {'p': p, 'reverse': reverse, 'clip': clip, 'tail': tail, 'variant': variant, 'size': size,
                                   'pair': 'none' if mate is None else 'opposite', 'x': x}))
        for r1, mate, t in frs:
            idxs.append(len(xs))
            xs.append({'kind': 'nla_no', 'c': [False, True, False, False], 'reads': [r1, mate], 'ref': ref, 'L': Lc,
                       'maxfs': None, 'truth': t})
        self.xclis.append({'kind': 'nla_no', 'method': 'nla_no_overhang', 'flags': [], 'idx': idxs, 'ref': ref, 'L': Lc})
        # every case also mirrored onto the reverse-complemented contig
        mir = []
        for k, cs in enumerate(xs):
            mir.append({'kind': cs['kind'], 'c': cs['c'], 'reads': [mirror_read(cs['L'], r) for r in cs['reads']],
                        'ref': None if cs.get('ref') is None else revcomp(cs['ref']), 'L': cs['L'], 'maxfs': cs.get('maxfs'),
                        'mirror_of': k})
        self.xn, self.xn_exh = len(xs), n_exh
        self.xc = xs + mir
        return self.xc

    def x_payload(self, cs):
        return {'kind': cs['kind'], 'cfg': x_cfg_kwargs(cs), 'reads': cs['reads'], 'ref': cs.get('ref')}

    def xcli_payload(self):
        out = []
        for j, l in enumerate(self.xclis):
            out.append({'id': 100 + j, 'kind': l['method'], 'flags': l['flags'], 'ref': l['ref'], 'L': l['L'],
                        'cases': [{'kind': self.xc[k]['kind'], 'cfg': {}, 'reads': self.xc[k]['reads']} for k in l['idx']]})
        return out

    @staticmethod
    def x_expectation(cs):
        """direct Python transcription of the extension theorems for a simulated case ->
        {'site': p, 'RS':.., 'cut':.., 'RZ':.., 'valid': bool | None (not constrained)} | 'rejected' | None"""
        t = cs.get('truth')
        if t is None or len(cs['reads']) != 2 and cs['kind'] != 'chic':
            return None
        nocigar, cm, sh, inv = cs['c']
        rev = t['reverse']
        r1, r2 = cs['reads'][0], (cs['reads'][1] if len(cs['reads']) > 1 else None)
        pre = any(r is not None and r['qcfail'] for r in cs['reads'])
        m = cs.get('maxfs')
        if m is None:
            valid = not pre
        elif pre:
            valid = False
        elif t.get('size') is None:
            valid = None                       # same-strand mates: no ground truth for the size (see C09_size_rule_same_orientation_refuted)
        else:
            valid = not (m < t['size'])        # C09_*_size_rule + C09_fragment_size_simulated
        if cs['kind'] == 'nla_no':
            if cs.get('ref') is None or not cm:
                return None
            if t['variant'] == 'none':
                return 'rejected'                                              # C09_nla_no_overhang_reject
            if t['variant'] != 'plain' or not (0 <= t['clip'] <= 3) or t['p'] <= 0 or (not rev and t['p'] + t['clip'] < 3):
                return None                                                    # outside C09_nla_no_overhang_site_partial
            return {'site': t['p'], 'RS': rev != inv, 'cut': rev, 'RZ': True, 'valid': valid}
        e = Prop.expectation(cs)                                               # the base theorems (site / shift / rejection)
        if e is None:
            return None
        if e[0] == 'rejected':
            return 'rejected'
        return {'site': e[1], 'RS': e[2], 'cut': e[3], 'RZ': e[4], 'valid': valid}

    def x_mirror_applies(self, cs):
        """hypotheses of C09_nla_size_rule_mirror_partial / C09_chic_size_rule_mirror / C09_nla_no_overhang_mirror_partial"""
        r1 = cs['reads'][0] if cs['reads'] else None
        if r1 is None or r1['unmapped'] or not r1['cigar'] or (cs['kind'] != 'chic' and len(cs['reads']) != 2):
            return False
        r2 = cs['reads'][1] if len(cs['reads']) > 1 else None
        if not mate_ok(r1, r2):
            return False
        if cs['kind'] == 'nla_no':
            if cs.get('ref') is None:
                return False
            L, e = cs['L'], read_end(r1)
            fwd = (L - e) if r1['rev'] else r1['start']
            return 0 <= r1['start'] < e <= L and fwd >= 8
        return True

    def correspondence_x(self):
        """model (mode 5) against the real classes on the extension stream; returns disagreements"""
        dis, problems = [], []
        xc, xres = self.xc, self.xres
        live = list(range(len(xc)))
        self.ximpl = [None] * len(xc)
        for i in live:
            c, pr = x_canon_impl(xc[i], xres[i])
            self.ximpl[i] = c
            if pr:
                problems.append({'input': self.x_payload(xc[i]), 'problems': pr})
        hist = {}
        for i in live:
            cs = xc[i]
            if 'truth' in cs:
                k = '%s/%s/%s%s' % (cs['kind'], 'rev' if cs['truth']['reverse'] else 'fwd', cs['truth'].get('pair'),
                                    '' if cs.get('maxfs') is None else '/maxfs')
                hist[k] = hist.get(k, 0) + 1
        out_hist = {}
        for i in live:
            c = self.ximpl[i]
            k = c if isinstance(c, str) else ('valid' if c['valid'] else ('site, not valid' if c['DS'] is not None else 'rejected'))
            out_hist[k] = out_hist.get(k, 0) + 1
        nb = sum(1 for i in live if xc[i].get('maxfs') is not None and 'truth' in xc[i] and xc[i]['truth'].get('size') is not None
                 and abs(xc[i]['maxfs'] - xc[i]['truth']['size']) <= 1)
        pre_hit = sum(1 for i in live if 'truth' in xc[i] and self.x_expectation(xc[i]) is not None)
        self.cov['extension'] = {
            'evaluations': len(live), 'exhaustive_small_scope': 'no_overhang: strand x clip 0..5 x motif 0..9 bases from the contig start/end x motif present/absent: %d cases' % self.xn_exh,
            'mirrored': len([i for i in live if 'mirror_of' in xc[i]]),
            'hist_class_strand_mate': hist, 'hist_outcome': out_hist,
            'max_fragment_size_within_1_of_the_fragment_size': nb,
            'precondition_hit_rate': round(pre_hit / max(1, len([i for i in live if 'truth' in xc[i]])), 4),
            'command_lines': ['-method %s %s%s' % (l['method'], ' '.join(l['flags']), ' -ref <fasta>' if l['ref'] else '') for l in self.xclis],
        }
        if problems:
            self.problems = getattr(self, 'problems', []) + problems
            raise fw.Broken('correspondence', 'implementation observation inconsistent (extension stream): %r' % (problems[0],))
        if not self.model_ok:
            return dis
        self.xraw = fw.run_model('C09', 5, [x_model_input(cs) for cs in xc])
        self.xmodel = [x_decode_model(cs, o) for cs, o in zip(xc, self.xraw)]
        for i in live:
            m, im = x_view(xc[i], mask_qc(xc[i], self.xmodel[i])), x_view(xc[i], self.ximpl[i])
            if m != im:
                dis.append({'what': 'extension stream (%s%s): model and implementation differ'
                                    % (xc[i]['kind'], '' if xc[i].get('maxfs') is None else ', max_fragment_size=%d' % xc[i]['maxfs']),
                            'input': self.x_payload(xc[i]), 'model': m, 'impl': im})
        # command lines
        ncli = 0
        for l, cr in zip(self.xclis, self.xcli_res):
            cmd = 'bamtagmultiome.py -method %s %s%s' % (l['method'], ' '.join(l['flags']), ' -ref <fasta>' if l['ref'] else '')
            if 'error' in cr:
                dis.append({'what': cmd + ' raised', 'impl': cr['error']})
                continue
            for n, k in enumerate(l['idx']):
                m, got = self.xmodel[k], cr.get('f%04d' % n)
                ncli += 1
                if not isinstance(m, dict):
                    continue
                exp = {'DS': m['DS'], 'RS': None if m['RS'] is None else int(m['RS']), 'RZ': m['RZ'], 'qcfail': not m['valid']}
                seen = None if got is None else [{'DS': v['DS'], 'RS': v['RS'], 'RZ': canon_rz(xc[k], v['RZ']), 'qcfail': v['qcfail']} for v in got.values()]
                if seen is None or any(v != exp for v in seen):
                    dis.append({'what': 'tags written by `%s` differ from the model' % cmd, 'input': self.x_payload(xc[k]) if l['ref'] is None else
                                {'reads': xc[k]['reads'], 'truth': xc[k].get('truth')}, 'model': exp, 'impl': got})
        self.cov['extension']['command_line_fragments'] = ncli
        # Coq simulator (mode 6) against the Python one
        sim_in, sim_exp = [], []
        for i in live:
            cs = xc[i]
            t = cs.get('truth')
            if t is None:
                continue
            r1 = cs['reads'][0]
            mid = [o for o in r1['cigar'] if o[0] != 4]
            cyc = revcomp(r1['seq']) if r1['rev'] else r1['seq']
            if cs['kind'] == 'nla_no' and t['variant'] in ('plain', 'none', 'decoy'):
                sim_in.append([2, cyc, mid, t['p'], t['reverse'], t['clip'], t['tail']])
                sim_exp.append(fw.to_val(enc_read(dict(r1, mx=None))))
        sim_out = fw.run_model('C09', 6, sim_in) if sim_in else []
        for a, b, x in zip(sim_out, sim_exp, sim_in):
            if a != b:
                dis.append({'what': 'Coq no_overhang simulator differs from the Python ground-truth simulator', 'input': x, 'model': a, 'python': b})
        self.cov['extension']['simulator_crosschecked'] = len(sim_in)
        # vm_compute cross-check of the new modes on 100 cases with small contigs
        small = [i for i in live if xc[i].get('ref') is None or len(xc[i]['ref']) <= 200]
        idx = sorted(self.rng.sample(small, min(100, len(small))))
        ok, nm, log = fw.vm_crosscheck('C09', 5, [(x_model_input(xc[i]), fw.to_val(self.xraw[i])) for i in idx],
                                       run_name='run_C09x', require='Model.C09x')
        self.cov['extension']['vm_compute_crosscheck'] = {'cases': len(idx), 'mismatches': nm}
        if not ok:
            raise fw.Broken('extraction', 'vm_compute and extracted model disagree (extension modes): ' + log[-800:])
        return dis

    def search_x(self, offer):
        """the extension theorems evaluated on the implementation's outputs (no model needed)"""
        xc = getattr(self, 'xc', None)
        if xc is None or getattr(self, 'xres', None) is None:
            return
        if getattr(self, 'ximpl', None) is None or any(v is None for v in self.ximpl):
            self.ximpl = [x_canon_impl(cs, r)[0] for cs, r in zip(xc, self.xres)]

        def describe(cs):
            t = cs['truth']
            strand = 'rev' if t['reverse'] else 'fwd'
            if cs['kind'] == 'nla_no':
                return ('no_overhang fragment (%s strand, %d clipped cycles) next to the CATG at %d of a %d-base contig'
                        % (strand, t['clip'], t['p'], cs['L'])), strand
            return ('%s fragment (%s strand, mate: %s, size %r, max_fragment_size %r)'
                    % (cs['kind'], strand, t.get('pair'), t.get('size'), cs.get('maxfs'))), strand
        for i, cs in enumerate(xc):
            if 'truth' not in cs:
                continue
            e, im = self.x_expectation(cs), self.ximpl[i]
            if e is None:
                continue
            what, strand = describe(cs)
            pre = any(r is not None and r['qcfail'] for r in cs['reads'])
            allq = all(r['qcfail'] for r in cs['reads'] if r is not None)
            if e == 'rejected':
                ok = isinstance(im, dict) and im['DS'] is None and im['valid'] is False and im['RR'] is not None and (im['qc'] or allq)
                if not ok:
                    offer('x:%s:reject:%s' % (cs['kind'], strand), cs, what + ' without the motif was not rejected: %r' % (im,), im,
                          'DS absent, not valid, qcfail')
                continue
            bad = not isinstance(im, dict) or im['DS'] != e['site'] or im['loc'] != e['site'] or im['RS'] != e['RS'] \
                or im['cut_strand'] != e['cut'] or im['RZ'] != e['RZ']
            if bad:
                offer('x:%s:site:%s' % (cs['kind'], strand), cs, what + ': observed %r, expected site %r' % (im, e), im, e)
            elif e['valid'] is not None and im['valid'] != e['valid']:
                offer('x:%s:size:%s' % (cs['kind'], strand), cs,
                      what + ': is_valid() = %r, expected %r (rejected iff size > max_fragment_size)' % (im['valid'], e['valid']), im, e)
        # mirror relation
        n = self.xn
        for k in range(n):
            cs = xc[k]
            if not self.x_mirror_applies(cs):
                continue
            a, b = self.ximpl[k], self.ximpl[n + k]
            L, w = cs['L'], (1 if cs['kind'] == 'chic' else 4)
            if isinstance(a, dict):
                exp = {'DS': None if a['DS'] is None else L - w - a['DS'], 'RS': None if a['RS'] is None else not a['RS'],
                       'RZ': a['RZ'] if cs['kind'] == 'nla_no' or a['RZ'] is None else revcomp(a['RZ']), 'qc': a['qc'], 'valid': a['valid'],
                       'loc': None if a['loc'] is None else L - w - a['loc'],
                       'cut_strand': None if a['cut_strand'] is None else not a['cut_strand']}
                got = {x: b[x] for x in exp} if isinstance(b, dict) else b
            else:
                exp, got = a, b
            if cs.get('maxfs') is not None and isinstance(exp, dict) and isinstance(got, dict) and not exp['valid'] and not got['valid']:
                exp, got = dict(exp, qc='free'), dict(got, qc='free')
            if got != exp:
                offer('x:%s:mirror' % cs['kind'], cs,
                      '%s fragment%s and its mirror image on the reverse-complemented contig (L=%d) do not get mirrored sites / the same verdict: '
                      'original %r, mirrored %r, expected %r' % (cs['kind'], '' if cs.get('maxfs') is None else ' (max_fragment_size=%d)' % cs['maxfs'],
                                                                 L, a, got, exp), {'original': a, 'mirrored': got}, exp)
        # command lines
        for l, cr in zip(getattr(self, 'xclis', []), getattr(self, 'xcli_res', [])):
            cmd = 'bamtagmultiome.py -method %s %s%s' % (l['method'], ' '.join(l['flags']), ' -ref <fasta>' if l['ref'] else '')
            if 'error' in cr:
                self.witnesses.append({'key': 'xcli:error', 'what': cmd + ' raised ' + cr['error'], 'input': l['flags']})
                continue
            for nn, k in enumerate(l['idx']):
                cs = xc[k]
                e, got = self.x_expectation(cs), cr.get('f%04d' % nn)
                if e is None:
                    continue
                if e == 'rejected':
                    if got is None or any(v['DS'] is not None or not v['qcfail'] for v in got.values()):
                        offer('xcli:%s:reject' % l['method'], cs, '`%s` did not reject a fragment without the motif: %r' % (cmd, got), got, None)
                    continue
                exp = {'DS': e['site'], 'RS': int(e['RS']), 'RZ': e['RZ']}
                seen = None if got is None else [{'DS': v['DS'], 'RS': v['RS'], 'RZ': canon_rz(cs, v['RZ'])} for v in got.values()]
                if seen is None or any(v != exp for v in seen):
                    offer('xcli:%s:site' % l['method'], cs, '`%s` tagged the reads %r, expected %r' % (cmd, got, exp), got, exp)
                elif e['valid'] is not None and any(v['qcfail'] != (not e['valid']) for v in got.values()):
                    offer('xcli:%s:size' % l['method'], cs, '`%s`: fragment of size %r written with qcfail=%r, expected qcfail=%r'
                          % (cmd, cs['truth'].get('size'), [v['qcfail'] for v in got.values()], not e['valid']), got, exp)

    def in_scope(self, cs):
        """the simulated case satisfies the hypotheses of one of the theorems (site / shift / rejection)"""
        return self.expectation(cs) is not None

    # ---------------------------------------------------------------- search (specification on the implementation)
    @staticmethod
    def expectation(cs):
        """direct Python transcription of the theorem statements (Props/C09.v) for a simulated case:
        ('site', pos, RS, cut_strand, RZ) | ('rejected',) | None when no theorem speaks about the case"""
        t = cs.get('truth')
        if t is None:
            return None
        nocigar, cm, sh, inv = cs['c']
        rev = t['reverse']
        shift = ((-t['clip']) if rev else t['clip']) if nocigar else 0      # clip_shift
        if cs['kind'] == 'nla':
            if len(cs['reads']) != 2:
                return None
            stored = t['cycles'][1:] if t['lost'] else t['cycles']
            first4 = stored[:4]
            if not t['lost'] and first4 == 'CATG':
                return ('site', t['p'] + shift, rev != inv, rev, 'CATG')                    # C09_nla_site(_any_config)
            if cm and first4 != 'CATG' and (not sh or not first4.startswith('ATG')):
                return ('rejected',)                                                        # C09_nla_reject(_simulated), _shift_off
            if t['lost'] and t['cycles'][:4] == 'CATG' and cm and sh:
                return ('site', t['p'] + shift, rev != inv, rev, 'CAT' if rev else 'ATG')   # C09_nla_shift(_any_config)
            return None
        r2 = cs['reads'][1] if len(cs['reads']) > 1 else None
        if r2 is not None and not r2['unmapped'] and r2['rev'] == rev:
            return None
        if any(b * 18 in r['seq'] for r in cs['reads'] if r is not None for b in 'ACGT'):
            return None      # C09_chic_homopolymer_rejected: the mirror relation below covers these
        return ('site', (t['x'] + 1 if rev else t['x'] - 1) + shift, rev != inv, rev != inv, None)  # C09_chic_site_any_config

    def search(self):
        if getattr(self, 'res', None) is None:
            corpus = self.load_corpus()
            cases, mirrored, n_exh, L = self.make_cases()
            self.allc = corpus + cases + mirrored
            self.L, self.off, self.n_plain = L, len(corpus), len(cases)
            bam_payload = [{'id': lib['id'], 'kind': lib['kind'], 'cfg': cfg_kwargs(lib['kind'], lib['c']),
                            'cases': [self.payload_case(cases[k]) for k in lib['idx']]} for lib in self.libs]
            self.make_xcases()
            out = fw.run_impl('impl_c09.py', {'cases': [self.payload_case(c) for c in self.allc], 'bam': bam_payload,
                                              'mol': self.mol_payload(cases, mirrored),
                                              'cli': self.cli_payload(cases) + self.xcli_payload(),
                                              'x': [self.x_payload(c) for c in self.xc]})
            self.res, self.bam_res, self.mol_res = out['cases'], out['bam'], out['mol']
            self.cli_res, self.xcli_res, self.xres = out['cli'][:len(self.clis)], out['cli'][len(self.clis):], out['x']
            self.ximpl = None
        if getattr(self, 'impl', None) is None:
            self.impl = [canon_impl(cs, r)[0] for cs, r in zip(self.allc, self.res)]
        best = {}

        def size(cs):
            r1 = cs['reads'][0]
            return (len(r1['seq']) + sum(l for _, l in r1['cigar'] if _ == 4) * 3 + len(r1['cigar'])) if r1 else 0

        def offer(key, cs, what, im, exp):
            w = {'key': key, 'what': what, 'input': self.payload_case(cs), 'truth': cs.get('truth'), 'impl': im, 'expected': exp}
            if key not in best or size(cs) < best[key][0]:
                best[key] = (size(cs), w)
        for cs, im in zip(self.allc, self.impl):
            e = self.expectation(cs)
            if e is None:
                continue
            t = cs['truth']
            strand = 'rev' if t['reverse'] else 'fwd'
            pre = any(r is not None and r['qcfail'] for r in cs['reads'])
            allq = all(r['qcfail'] for r in cs['reads'] if r is not None)
            if e[0] == 'site':
                exp = {'DS': e[1], 'RS': e[2], 'RZ': e[4], 'RR': None, 'qc': False, 'valid': not pre, 'loc': e[1], 'cut_strand': e[3]}
                if im != exp:
                    kind = 'shift' if t.get('lost') else 'site'
                    lay = ('' if cs['kind'] == 'nla' else (':trimmed' if t['trimmed'] else ':untrimmed'))
                    where = ('the CATG at %d' % t['p']) if cs['kind'] == 'nla' else ('the overhang base at %d' % t['x'])
                    offer('%s:%s:%s%s' % (cs['kind'], kind, strand, lay), cs,
                          '%s fragment simulated from %s (%s strand, %d clipped cycles at the read start, %d at its end%s): observed %r, expected %r'
                          % (cs['kind'], where, strand, t['clip'], t['tail'], ', first cycle lost' if t.get('lost') else '', im, exp), im, exp)
            else:
                ok = isinstance(im, dict) and im['DS'] is None and im['valid'] is False and im['RZ'] is None \
                    and im['RR'] is not None and (im['qc'] or allq)
                if not ok:
                    offer('nla:reject:%s' % strand, cs,
                          'nla fragment whose first cycles are %r (no CATG) was not rejected: %r' % (t['cycles'][:5], im), im,
                          'DS absent, not valid, qcfail')
        # mirror relation between the two runs of every case
        L, off, n = self.L, self.off, self.n_plain
        for k in range(n):
            cs = self.allc[off + k]
            r1 = cs['reads'][0] if cs['reads'] else None
            if r1 is None or r1['unmapped'] or not r1['cigar'] or (cs['kind'] == 'nla' and len(cs['reads']) != 2):
                continue
            a, b = self.impl[off + k], self.impl[off + n + k]
            w = 4 if cs['kind'] == 'nla' else 1
            if isinstance(a, dict):
                exp = {'DS': None if a['DS'] is None else L - w - a['DS'], 'RS': None if a['RS'] is None else not a['RS'],
                       'RZ': None if a['RZ'] is None else revcomp(a['RZ']), 'qc': a['qc'], 'valid': a['valid'],
                       'loc': None if a['loc'] is None else L - w - a['loc'],
                       'cut_strand': None if a['cut_strand'] is None else not a['cut_strand']}
                got = {x: b[x] for x in exp} if isinstance(b, dict) else b
            else:
                exp, got = a, b
            if got != exp:
                offer('%s:mirror' % cs['kind'], cs,
                      '%s fragment and its mirror image on the reverse-complemented reference (L=%d) are not assigned mirrored '
                      'sites: original %r, mirrored %r, expected %r' % (cs['kind'], L, a, got, exp),
                      {'original': a, 'mirrored': got}, exp)
        # BAM round trip against the specification
        for lib, br in zip(getattr(self, 'libs', []), getattr(self, 'bam_res', [])):
            if 'error' in br:
                self.witnesses.append({'key': 'bam:error', 'what': 'BAM round trip raised ' + br['error'], 'input': lib['c']})
                continue
            for nn, k in enumerate(lib['idx']):
                cs = self.allc[off + k]
                e, got = self.expectation(cs), br.get('f%04d' % nn)
                if e is None:
                    continue
                if e[0] == 'site':
                    exp = {'qcfail': False, 'DS': e[1], 'RS': int(e[2]), 'RZ': e[4], 'RR': None}
                    if got is None or any(v != exp for v in got.values()):
                        offer('bam:%s:site' % cs['kind'], cs, 'after a BAM round trip through MoleculeIterator the reads carry %r, expected %r'
                              % (got, exp), got, exp)
                elif got is not None:
                    offer('bam:%s:reject' % cs['kind'], cs, 'fragment without CATG at its start was emitted with tags %r' % (got,), got, None)
        # command line against the specification (the flags select the configuration the theorems speak about)
        for lib, cr in zip(getattr(self, 'clis', []), getattr(self, 'cli_res', [])):
            cmd = 'bamtagmultiome.py -method %s %s' % (lib['kind'], ' '.join(lib['flags']))
            if 'error' in cr:
                self.witnesses.append({'key': 'cli:error', 'what': cmd + ' raised ' + cr['error'], 'input': lib['flags']})
                continue
            for nn, k in enumerate(lib['idx']):
                cs = self.allc[off + k]
                e, got = self.expectation(cs), cr.get('f%04d' % nn)
                if e is None:
                    continue
                if e[0] == 'site':
                    exp = {'DS': e[1], 'RS': int(e[2]), 'RZ': e[4]}
                    if got is None or any({t: v[t] for t in exp} != exp for v in got.values()):
                        offer('cli:%s:%s' % (lib['kind'], '+'.join(f.strip('-') for f in lib['flags']) or 'default'), cs,
                              '`%s` tagged the reads %r, expected %r (configuration %r)'
                              % (cmd, got, exp, dict(zip(CFG_KEYS, lib['c']))), got, exp)
                elif got is None or any(v['DS'] is not None for v in got.values()):
                    offer('cli:%s:reject' % lib['kind'], cs, '`%s` assigned a site to a fragment without CATG at its start: %r' % (cmd, got), got, None)
        # molecule-level mirror relation: the same fragment set and its mirror image through
        # MoleculeIterator + write_tags must give mirrored DS / flipped RS on every read and as many molecules
        mres = getattr(self, 'mol_res', [])
        for j in range(0, len(mres) - 1, 2):
            m, a, b = self.mols[j // 2], mres[j], mres[j + 1]
            w = 4 if m['kind'] == 'nla' else 1
            cases_in = [self.payload_case(self.allc[off + k]) for k in m['idx']]
            inp = {'kind': m['kind'], 'assignment_radius': m['radius'], 'cfg': cfg_kwargs(m['kind'], m['c']),
                   'fragments': cases_in, 'mirror_L': L}
            sz = sum(len(c['reads'][0]['seq']) for c in cases_in)
            key = 'mol:%s:mirror' % m['kind']
            bad = None
            if 'error' in a or 'error' in b:
                bad = 'molecule tagging raised: %r / %r' % (a.get('error'), b.get('error'))
            elif len(a['molecules']) != len(b['molecules']):
                bad = 'the two orientations deduplicate differently: %d vs %d molecules' % (len(a['molecules']), len(b['molecules']))
            else:
                for name in sorted(a['tags']):
                    for rd, oa in a['tags'][name].items():
                        ob = b['tags'].get(name, {}).get(rd)
                        exp_ds = None if oa['DS'] is None else L - w - oa['DS']
                        exp_rs = None if oa['RS'] is None else 1 - oa['RS']
                        if ob is None or ob['DS'] != exp_ds or ob['RS'] != exp_rs:
                            bad = ('%s molecule set tagged through MoleculeIterator + write_tags (assignment_radius=%r): read %s/%s has DS=%r RS=%r, '
                                   'its mirror image has DS=%r RS=%r, expected the mirrored DS=%r RS=%r'
                                   % (m['kind'], m['radius'], name, rd, oa['DS'], oa['RS'], None if ob is None else ob['DS'],
                                      None if ob is None else ob['RS'], exp_ds, exp_rs))
                            break
                    if bad:
                        break
            if bad and (key not in best or sz < best[key][0]):
                best[key] = (sz, {'key': key, 'what': bad, 'input': inp,
                                  'impl': {'original': a.get('tags'), 'mirrored': b.get('tags')}})
        def xoffer(key, cs, what, im, exp):
            w = {'key': key, 'what': what, 'input': self.x_payload(cs), 'truth': cs.get('truth'), 'impl': im, 'expected': exp}
            sz = size(cs) + (len(cs['ref']) if cs.get('ref') else 0) // 10
            if key not in best or sz < best[key][0]:
                best[key] = (sz, w)
        self.search_x(xoffer)
        for p in getattr(self, 'problems', [])[:1]:
            self.witnesses.append({'key': 'observation', 'what': '; '.join(p['problems']), 'input': p['input']})
        for key in sorted(best):
            self.witnesses.append(best[key][1])
