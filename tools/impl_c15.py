"""runs the REAL majority-consensus writer (Molecule.deduplicate_majority / write_pysam(consensus=True) and the
bamtagmultiome --consensus command line) for C15 and lets pysam re-parse every produced record."""
import os, sys, io, contextlib, traceback
import fw

CONTIG, CONTIG_LEN = 'chr1', 200000
# API cases: the reads carry IN_CONTIGS' header; the consensus is requested for target files whose headers
# order the contigs differently, have an extra contig, or lack contigs the molecule does not use
IN_CONTIGS = ['chr1', 'chr2', 'chr10', 'chrX']
TARGET_CONTIGS = [['chr1', 'chr2', 'chr10', 'chrX'], ['chrM', 'chr10', 'chrX', 'chr2', 'chr1'], ['chr2', 'chr10']]


class Ref:
    """stand-in for pysam.FastaFile / CachedFasta: .fetch(contig, start, end); `other` = {contig: sequence} for the
    contigs that do not carry the default sequence"""
    def __init__(self, seq, other=None):
        self.seq = seq
        self.other = other or {}

    def fetch(self, contig=None, start=None, end=None, **kw):
        return self.other.get(contig, self.seq)[start:end]


def mk_read(hdr, name, r, sample, umi, bc, mx, is_r2, paired, contig=CONTIG):
    import pysam
    from array import array
    a = pysam.AlignedSegment(hdr)
    a.query_name = name
    a.query_sequence = r['seq']
    a.query_qualities = array('B', r['qual'])
    a.flag = 0
    contig = r.get('contig', contig)      # a read of a chimeric pair / of a merged molecule names its own contig
    if r.get('unplaced'):
        a.is_unmapped = True               # no contig, no coordinate: the fragment's span has no contig either
        a.mapping_quality = 0
    elif r.get('unmapped'):
        a.is_unmapped = True
        a.reference_id = hdr.get_tid(contig)
        a.reference_start = r['pos']
        a.mapping_quality = 0
    else:
        a.reference_id = hdr.get_tid(contig)
        a.reference_start = r['pos']
        a.cigartuples = [tuple(x) for x in r['cigar']]
        a.mapping_quality = r['mapq']
        a.is_reverse = bool(r['rev'])
    if paired:
        a.is_paired = True
        a.is_read2 = bool(is_r2)
        a.is_read1 = not is_r2
    a.set_tag('SM', sample)
    if umi is not None:
        a.set_tag('RX', umi)
    a.set_tag('BC', bc)
    a.set_tag('MX', mx)
    return a


def classes(klass):
    from singlecellmultiomics.molecule import Molecule, NlaIIIMolecule, CHICMolecule
    from singlecellmultiomics.fragment import Fragment, NlaIIIFragment, CHICFragment
    if klass == 'nla':
        return NlaIIIMolecule, NlaIIIFragment, {}, 'NLAIII384C8U3'
    if klass == 'chic':
        return CHICMolecule, CHICFragment, {}, 'scCHIC384C8U3'
    return Molecule, Fragment, {'assignment_radius': 100000}, 'X'


def rec_info(rec, refseq):
    """what pysam reads back from a produced record"""
    d = {'name': rec.query_name, 'start': rec.reference_start, 'cigar': [list(x) for x in (rec.cigartuples or [])],
         'seq': rec.query_sequence or '', 'nqual': len(rec.query_qualities) if rec.query_qualities is not None else -1,
         'qual': list(rec.query_qualities) if rec.query_qualities is not None else [],
         'flag': rec.flag, 'mapq': rec.mapping_quality, 'contig': rec.reference_name,
         'tags': {k: (v if isinstance(v, (int, str)) else str(v)) for k, v in rec.get_tags()},
         'blocks': [list(b) for b in rec.get_blocks()],
         'infer_query_length': rec.infer_query_length(), 'reference_end': rec.reference_end}
    try:
        # htslib/pysam rebuild the reference from MD in C; an MD tag that does not describe as many columns as the CIGAR
        # aligns can corrupt memory there instead of raising - refuse it here
        import re
        md = rec.get_tag('MD') if rec.has_tag('MD') else None
        if md is not None:
            cols = sum(int(x) for x in re.findall(r'[0-9]+', md)) + len(re.findall(r'[A-Za-z]', re.sub(r'\^[A-Za-z]+', '', md)))
            want = sum(n for op, n in (rec.cigartuples or []) if op in (0, 7, 8))
            if cols != want:
                raise ValueError('MD tag %s describes %d aligned columns, the CIGAR has %d' % (md[:40], cols, want))
        ap = rec.get_aligned_pairs(matches_only=True, with_seq=True)
        d['md_ref'] = ''.join(b.upper() for _, _, b in ap)
        d['md_pos'] = [p for _, p, _ in ap]
        d['md_bad'] = [p for _, p, b in ap if b.upper() != refseq[p].upper()]
    except Exception as e:  # pysam refuses an MD that does not fit the CIGAR
        d['md_error'] = '%s: %s' % (type(e).__name__, e)
    return d


def run_api(cases, scratch):
    import pysam
    mkh = lambda names: pysam.AlignmentHeader.from_dict({'HD': {'VN': '1.6'}, 'SQ': [{'SN': n, 'LN': CONTIG_LEN} for n in names]})
    hdr = mkh(IN_CONTIGS)
    paths = [os.path.join(scratch, 'api%d.bam' % t) for t in range(len(TARGET_CONTIGS))]
    outs = [pysam.AlignmentFile(pth, 'wb', header=mkh(names)) for pth, names in zip(paths, TARGET_CONTIGS)]
    res = []
    refs = {}
    for ci, c in enumerate(cases):
        info = {}
        res.append(info)
        try:
            MolC, FragC, fargs, mx = classes(c['klass'])
            ref = Ref(c['ref'], c.get('other_refs'))
            refs[ci] = c.get('chrom_ref', c['ref'])
            contig = c.get('contig', CONTIG)
            out = outs[c.get('target', 0)]
            frags, pairs = [], []
            for fi, f in enumerate(c['fragments']):
                rs = []
                paired = f['reads'][1] is not None
                for k, r in enumerate(f['reads']):
                    if r is None:
                        rs.append(None)
                        continue
                    a = mk_read(hdr, 'c%d_f%d' % (ci, fi), r, c['sample'], f.get('umi', c['umi']), c['bc'], mx, k == 1, paired, contig)
                    rs.append(a)
                    pairs.append([list(x) for x in a.get_aligned_pairs(matches_only=True)])
                frags.append(FragC(rs, **fargs))
            info['pysam_pairs'] = pairs
            margs = {'reference': ref} if c.get('reference', True) else {}
            if c.get('max_fragments') is not None:
                margs['max_associated_fragments'] = c['max_fragments']
            mol = MolC(frags[0], **margs)
            added = 1
            merge_from = c.get('merge_from')
            for f in frags[1:merge_from]:
                try:
                    if mol.add_fragment(f):
                        added += 1
                except OverflowError:
                    pass
            if merge_from is not None:
                # fragments on another contig never associate through add_fragment; they arrive by merging molecules
                for f in frags[merge_from:]:
                    mol.add_molecule(MolC(f, **margs))
                    added += 1
            info['added'] = added
            info['chromosome'] = mol.chromosome
            refs[ci] = ref.other.get(mol.chromosome, c['ref'])     # the sequence of the contig the records go to
            info['overflow'] = mol.overflow_fragments
            info['umi'] = mol.umi
            info['strand'] = mol.strand
            cs = mol.get_cut_site()
            info['site'] = None if cs is None else cs[1]
            name = 'cons%d' % ci
            if c['path'] == 'dedup':
                mol.write_tags()
                reads = mol.deduplicate_majority(out, name, max_N_span=c['max_N_span'])
                info['returned'] = len(reads)
                for r in reads:
                    out.write(r)
            else:
                mol.write_tags()
                seen = []
                mol.write_pysam(out, consensus=True, no_source_reads=c['no_source'], consensus_name=name,
                                consensus_read_callback=lambda reads: seen.append(len(reads)))
                info['returned'] = seen[0] if seen else -1
        except BaseException as e:
            info['error'] = '%s: %s' % (type(e).__name__, e)
            info['trace'] = traceback.format_exc()[-1500:]
    for out in outs:
        out.close()
    for info in res:
        info['records'] = []
        info['source'] = []
    for path in paths:
        with pysam.AlignmentFile(path, 'rb', check_sq=False) as f:
            for rec in f:
                n = rec.query_name
                if n.startswith('cons'):
                    ci = int(n[4:])
                    res[ci]['records'].append(rec_info(rec, refs[ci]))
                else:
                    ci = int(n[1:].split('_')[0])
                    res[ci]['source'].append({'name': n, 'flag': rec.flag, 'start': rec.reference_start,
                                              'dup': rec.is_duplicate})
    return res


def run_hist(hists, scratch):
    """histories on ONE molecule object: consensus requests interleaved with add_fragment / add_molecule"""
    import pysam
    hdr = pysam.AlignmentHeader.from_dict({'HD': {'VN': '1.6'}, 'SQ': [{'SN': CONTIG, 'LN': CONTIG_LEN}]})
    path = os.path.join(scratch, 'hist.bam')
    out = pysam.AlignmentFile(path, 'wb', header=hdr)
    res = []
    for hi, h in enumerate(hists):
        info = {'steps': []}
        res.append(info)
        try:
            MolC, FragC, fargs, mx = classes(h['klass'])
            ref = Ref(h['ref'])
            counter = [0]

            def mkfrag(f):
                counter[0] += 1
                rs = []
                paired = f['reads'][1] is not None
                for k, r in enumerate(f['reads']):
                    rs.append(None if r is None else mk_read(hdr, 'S%d_f%d' % (hi, counter[0]), r, h['sample'],
                                                             f.get('umi', h['umi']), h['bc'], mx, k == 1, paired))
                return FragC(rs, **fargs)
            mol = MolC(mkfrag(h['initial'][0]), reference=ref)
            for f in h['initial'][1:]:
                mol.add_fragment(mkfrag(f))
            for k, op in enumerate(h['ops']):
                st = {'op': op['op']}
                info['steps'].append(st)
                try:
                    if op['op'] == 'add_fragment':
                        st['added'] = bool(mol.add_fragment(mkfrag(op['fragment'])))
                    elif op['op'] == 'add_molecule':
                        other = MolC(mkfrag(op['fragments'][0]), reference=ref)
                        for f in op['fragments'][1:]:
                            other.add_fragment(mkfrag(f))
                        st['other_len'] = len(other.fragments)
                        mol.add_molecule(other)
                    else:
                        name = 'H%d_%d' % (hi, k)
                        st['held'] = len(mol.fragments)
                        mol.write_tags()
                        if op['path'] == 'dedup':
                            reads = mol.deduplicate_majority(out, name, max_N_span=op['max_N_span'])
                            st['returned'] = len(reads)
                            for r in reads:
                                out.write(r)
                        else:
                            seen = []
                            mol.write_pysam(out, consensus=True, no_source_reads=op['no_source'], consensus_name=name,
                                            consensus_read_callback=lambda reads: seen.append(len(reads)))
                            st['returned'] = seen[0] if seen else -1
                except BaseException as e:
                    st['error'] = '%s: %s' % (type(e).__name__, e)
                    st['trace'] = traceback.format_exc()[-1200:]
        except BaseException as e:
            info['error'] = '%s: %s' % (type(e).__name__, e)
            info['trace'] = traceback.format_exc()[-1200:]
    out.close()
    with pysam.AlignmentFile(path, 'rb', check_sq=False) as f:
        for rec in f:
            n = rec.query_name
            if n.startswith('H'):
                hi, k = [int(x) for x in n[1:].split('_')]
                res[hi]['steps'][k].setdefault('records', []).append(rec_info(rec, hists[hi]['ref']))
    return res


def run_cli(libs, scratch):
    """bamtagmultiome -method nla|chic --consensus --multiprocess on synthetic sorted+indexed BAMs"""
    import pysam
    from singlecellmultiomics.universalBamTagger import bamtagmultiome
    res = []
    for li, lib in enumerate(libs):
        info = {}
        res.append(info)
        try:
            d = os.path.join(scratch, 'cli%d' % li)
            os.makedirs(d + '/tmp', exist_ok=True)
            fa = os.path.join(d, 'ref.fa')
            with open(fa, 'w') as o:
                o.write('>%s\n' % CONTIG)
                s = lib['ref']
                for i in range(0, len(s), 60):
                    o.write(s[i:i + 60] + '\n')
            pysam.faidx(fa)
            hdr = pysam.AlignmentHeader.from_dict({'HD': {'VN': '1.6', 'SO': 'coordinate'},
                                                   'SQ': [{'SN': CONTIG, 'LN': len(lib['ref'])}]})
            mx = 'NLAIII384C8U3' if lib['klass'] == 'nla' else 'scCHIC384C8U3'
            recs = []
            for mi, m in enumerate(lib['molecules']):
                for fi, f in enumerate(m['fragments']):
                    paired = f['reads'][1] is not None
                    segs = []
                    for k, r in enumerate(f['reads']):
                        if r is None:
                            continue
                        a = mk_read(hdr, 'm%d_f%d' % (mi, fi), r, m['sample'], f.get('umi', m['umi']), m['bc'], mx, k == 1, paired)
                        segs.append(a)
                    if len(segs) == 2:
                        for a, b in ((segs[0], segs[1]), (segs[1], segs[0])):
                            a.next_reference_id = 0
                            a.next_reference_start = b.reference_start
                            a.mate_is_reverse = b.is_reverse
                            a.is_proper_pair = True
                    recs += segs
            recs.sort(key=lambda a: a.reference_start)
            bam = os.path.join(d, 'in.bam')
            with pysam.AlignmentFile(bam, 'wb', header=hdr) as o:
                for a in recs:
                    o.write(a)
            pysam.index(bam)
            outp = os.path.join(d, 'out.bam')
            argv = [bam, '-o', outp, '-method', lib['klass'], '--consensus', '--multiprocess', '-ref', fa,
                    '-temp_folder', d + '/tmp', '-tagthreads', '2']
            if lib.get('no_source'):
                argv.append('--no_source_reads')
            buf = io.StringIO()
            old_argv = sys.argv
            sys.argv = ['bamtagmultiome.py'] + argv
            try:
                with contextlib.redirect_stdout(buf), contextlib.redirect_stderr(buf):
                    bamtagmultiome.run_multiome_tagging_cmd(argv)
            finally:
                sys.argv = old_argv
            info['records'], info['source'] = [], 0
            with pysam.AlignmentFile(outp, 'rb') as f:
                for rec in f:
                    if rec.query_name.startswith('molecule_'):
                        info['records'].append(rec_info(rec, lib['ref']))
                    else:
                        info['source'] += 1
        except BaseException as e:
            info['error'] = '%s: %s' % (type(e).__name__, e)
            info['trace'] = traceback.format_exc()[-2500:]
    return res


def run_phred(probs):
    """the REAL Molecule.extract_stretch_from_dict on a base-call dictionary holding the given probabilities (floats, given as
    exact [numerator, denominator]); returns the phred scores it derives (or the error)"""
    from singlecellmultiomics.molecule import Molecule

    class Stub:
        chromosome = 'chr1'
    out, out_default = [], None
    for k in range(0, len(probs), 500):
        chunk = probs[k:k + 500]
        try:
            d = {('chr1', i): ('A', n / dn) for i, (n, dn) in enumerate(chunk)}
            seq, ph = Molecule.extract_stretch_from_dict(Stub(), d, 0, len(chunk) + 1)     # one position beyond: the default
            out += [int(x) for x in ph[:len(chunk)]]
            if k == 0:
                out_default = [seq[-1], int(ph[-1])]
        except BaseException as e:
            return {'error': '%s: %s' % (type(e).__name__, e)}
    return {'phred': out, 'default': out_default if probs else None}


def handler(p):
    scratch = os.environ.get('SCMO_SCRATCH', '.')
    devnull = open(os.devnull, 'w')
    out = {}
    import warnings
    warnings.simplefilter('ignore')
    with contextlib.redirect_stdout(devnull):
        out['api'] = run_api(p.get('api', []), scratch)
        out['cli'] = run_cli(p.get('cli', []), scratch)
        out['hist'] = run_hist(p.get('hist', []), scratch)
        out['phred'] = run_phred(p.get('phred', []))
        # the float table the implementation uses: 1 - np.power(10, -q/10), as exact fractions over 2^60
        import numpy as np
        tab = []
        for q in range(0, 94):
            v = float(1 - np.power(10, -q / 10))
            n, dnm = v.as_integer_ratio()
            assert (n << 60) % dnm == 0
            tab.append((n << 60) // dnm)
        out['ptab'] = tab
    return out


fw.impl_main(handler)
