"""Confirm a seeded mutation and run our check against it.
usage: seedtest.py <dir with patch.diff demo.py meta.json> [--no-tests] [--tier quick]
Creates a scratch worktree of /repo HEAD under /tmp, applies the patch, runs: demo on original (expect 0),
demo on mutated (expect !=0), the test-suite on the mutated tree (expect all pass), and
SCMO_REPO=<worktree> ./check <property> (expect exit 1 with a VIOLATION line). Removes the worktree."""
import json, os, subprocess, sys, tempfile, shutil, time
V = os.path.dirname(os.path.dirname(os.path.abspath(__file__)))
d = os.path.abspath(sys.argv[1])
notests = '--no-tests' in sys.argv
tier = 'thorough' if '--thorough' in sys.argv else 'quick'
meta = json.load(open(os.path.join(d, 'meta.json')))
pid = meta['property']
for i, a in enumerate(sys.argv):
    if a == '--prop':
        pid = sys.argv[i + 1]
wt = tempfile.mkdtemp(prefix='seedwt_%s_' % pid, dir='/tmp')
os.rmdir(wt)


def run(cmd, env=None, cwd=None, timeout=3600):
    e = dict(os.environ); e.update(env or {})
    p = subprocess.run(cmd, shell=True, capture_output=True, text=True, env=e, cwd=cwd, timeout=timeout)
    return p.returncode, (p.stdout + p.stderr)


res = {'dir': d, 'property': pid}
try:
    rc, out = run('git -C /repo worktree add -q --detach %s HEAD' % wt)
    assert rc == 0, out
    rc, out = run('git -C %s apply %s' % (wt, os.path.join(d, 'patch.diff')))
    res['applies'] = rc == 0
    if rc != 0:
        res['apply_error'] = out[-500:]
    else:
        env0 = {'PYTHONPATH': '/repo', 'PYTHONHASHSEED': '0'}
        env1 = {'PYTHONPATH': wt, 'PYTHONHASHSEED': '0'}
        rc0, o0 = run('/venv/bin/python %s' % os.path.join(d, 'demo.py'), env0, cwd=tempfile.gettempdir())
        rc1, o1 = run('/venv/bin/python %s' % os.path.join(d, 'demo.py'), env1, cwd=tempfile.gettempdir())
        res['demo_original_rc'], res['demo_mutated_rc'] = rc0, rc1
        res['demo_mutated_tail'] = o1.strip().splitlines()[-3:]
        if not notests:
            rct, ot = run('/venv/bin/python -m pytest -q -p no:cacheprovider --timeout=900', env1, cwd=wt)
            res['tests_rc'] = rct
            res['tests_tail'] = ot.strip().splitlines()[-1:]
        t = time.time()
        rcc, oc = run('./check %s --tier %s' % (pid, tier), {'SCMO_REPO': wt}, cwd=V)
        res['check_rc'] = rcc
        res['check_wall_s'] = round(time.time() - t, 1)
        res['check_lines'] = [l for l in oc.splitlines() if l.startswith(('VIOLATION', 'KNOWN-FINDING', pid + ' '))]
        res['caught'] = rcc == 1 and any(l.startswith('VIOLATION property=%s' % pid) for l in oc.splitlines())
        res['with_failing_input'] = res['caught'] and not any('no-failing-input-found' in l for l in res['check_lines'] if l.startswith('VIOLATION'))
finally:
    run('git -C /repo worktree remove --force %s' % wt)
    shutil.rmtree(wt, ignore_errors=True)
    # restore the Gen files / evidence for the real tree
print(json.dumps(res, indent=1))
