#!/bin/bash
# usage: seedbatch2.sh C11 ... : round-2 seeds from /tmp/seedwork_<id>r3/m1..3 -> /verif/seeded/<id>-5..7
cd /verif
run() { d=$1; /venv/bin/python tools/seedtest.py $d > $d/confirm.json 2>&1; echo "$(basename $d) $(grep -E '"(applies|demo_original_rc|demo_mutated_rc|tests_rc|caught|with_failing_input)"' $d/confirm.json | tr -d ' \n')"; }
for p in "$@"; do
  ( for k in 1 2 3; do n=$((k+7)); d=/verif/seeded/$p-$n; [ -d /tmp/seedwork_${p}r3/m$k ] || continue; mkdir -p $d; cp /tmp/seedwork_${p}r3/m$k/{patch.diff,demo.py,meta.json} $d/; run $d; done ) &
done
wait
