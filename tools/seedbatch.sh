#!/bin/bash
# usage: seedbatch.sh C11 C18 ...  : copy /tmp/seedwork_<id>/m1..4 to /verif/seeded/<id>-k and run seedtest (properties in parallel)
cd /verif
run() { d=$1; /venv/bin/python tools/seedtest.py $d > $d/confirm.json 2>&1; echo "$(basename $d) $(grep -E '"(applies|demo_original_rc|demo_mutated_rc|tests_rc|caught|with_failing_input)"' $d/confirm.json | tr -d ' \n')"; }
for p in "$@"; do
  ( for k in 1 2 3 4; do d=/verif/seeded/$p-$k; [ -d /tmp/seedwork_$p/m$k ] || continue; mkdir -p $d; cp /tmp/seedwork_$p/m$k/{patch.diff,demo.py,meta.json} $d/; run $d; done ) &
done
wait
