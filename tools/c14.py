"""C14 - TAPS methylation calls reflect reference context and observed conversion."""
import ast, hashlib, itertools, json, os, collections
import fw, py2coq

TAPS_PY = 'singlecellmultiomics/molecule/taps.py'
CORPUS = os.path.join(fw.VERIF, 'corpus', 'C14')


# ============================================================================== T: the context tables
def _const_str(n):
    if isinstance(n, ast.Constant) and isinstance(n.value, str):
        return n.value
    raise py2coq.Untranslatable('expected a string literal, got %s' % ast.unparse(n))


def _is_cm_sub(n, which):
    """n is  self.context_mapping[<which>]"""
    return (isinstance(n, ast.Subscript) and isinstance(n.value, ast.Attribute) and n.value.attr == 'context_mapping'
            and isinstance(n.value.value, ast.Name) and n.value.value.id == 'self'
            and isinstance(n.slice, ast.Constant) and n.slice.value is which)


def ast_tables(path):
    """Statically evaluate the statements of TAPS.__init__ that build context_mapping.  Accepts exactly the
    construction present in the source (dict literal of string literals; upper-cased copy; loop over
    itertools.product(<literal>, repeat=<literal>) adding  <literal prefix> + x  keys with literal letters) and
    refuses anything else (fail closed).  Returns ({False: {...}, True: {...}}, (first line, last line))."""
    src = open(path).read()
    tree = ast.parse(src)
    cls = [n for n in tree.body if isinstance(n, ast.ClassDef) and n.name == 'TAPS']
    if len(cls) != 1:
        raise py2coq.Untranslatable('class TAPS not found exactly once')
    init = [n for n in cls[0].body if isinstance(n, ast.FunctionDef) and n.name == '__init__']
    if len(init) != 1:
        raise py2coq.Untranslatable('TAPS.__init__ not found exactly once')
    # nothing else in the file may write the tables
    for node in ast.walk(tree):
        if isinstance(node, ast.Attribute) and node.attr == 'context_mapping' and isinstance(node.ctx, (ast.Store, ast.Del)):
            inside = any(node is x for x in ast.walk(init[0]))
            if not inside:
                raise py2coq.Untranslatable('context_mapping assigned outside TAPS.__init__ (line %d)' % node.lineno)
    for node in ast.walk(tree):
        if isinstance(node, (ast.Assign, ast.AugAssign, ast.Delete)) and not any(node is x for x in ast.walk(init[0])):
            tg = node.targets if hasattr(node, 'targets') else [node.target]
            for t in tg:
                if 'context_mapping' in ast.unparse(t):
                    raise py2coq.Untranslatable('context_mapping modified outside TAPS.__init__ (line %d)' % node.lineno)
        if isinstance(node, ast.Call) and isinstance(node.func, ast.Attribute) and \
                node.func.attr in ('update', 'pop', 'setdefault', 'clear', 'popitem', '__setitem__') and \
                'context_mapping' in ast.unparse(node.func.value):
            raise py2coq.Untranslatable('context_mapping mutated by .%s() (line %d)' % (node.func.attr, node.lineno))
    stmts = [s for s in init[0].body if 'context_mapping' in ast.unparse(s)]
    tabs = None
    lines = [stmts[0].lineno, stmts[-1].end_lineno] if stmts else [0, 0]
    for s in stmts:
        u = ast.unparse(s)
        if isinstance(s, ast.Assign) and len(s.targets) == 1:
            t, v = s.targets[0], s.value
            if isinstance(t, ast.Attribute) and t.attr == 'context_mapping':
                if ast.unparse(v) not in ('dict()', '{}'):
                    raise py2coq.Untranslatable('context_mapping initialised by ' + ast.unparse(v))
                tabs = {}
                continue
            if tabs is not None and _is_cm_sub(t, False) and isinstance(v, ast.Dict):
                d = {}
                for k, val in zip(v.keys, v.values):
                    if k is None:
                        raise py2coq.Untranslatable('dict unpacking in the context table')
                    ks = _const_str(k)
                    if ks in d:
                        raise py2coq.Untranslatable('duplicate key %r in the literal' % ks)
                    d[ks] = _const_str(val)
                tabs[False] = d
                continue
            if tabs is not None and _is_cm_sub(t, True) and isinstance(v, ast.DictComp) and False in tabs and \
                    ast.unparse(v) == ast.unparse(ast.parse(
                        '{context: letter.upper() for context, letter in self.context_mapping[False].items()}', mode='eval').body):
                tabs[True] = {k: x.upper() for k, x in tabs[False].items()}
                continue
        if isinstance(s, ast.For) and tabs is not None and False in tabs and True in tabs and not s.orelse \
                and isinstance(s.target, ast.Name):
            it = s.iter
            if isinstance(it, ast.Call) and ast.unparse(it.func) == 'list' and len(it.args) == 1:
                it = it.args[0]
            if not (isinstance(it, ast.Call) and ast.unparse(it.func) in ('itertools.product', 'product')
                    and len(it.args) == 1 and len(it.keywords) == 1 and it.keywords[0].arg == 'repeat'
                    and isinstance(it.keywords[0].value, ast.Constant) and isinstance(it.keywords[0].value.value, int)):
                raise py2coq.Untranslatable('unsupported loop over ' + ast.unparse(s.iter))
            alphabet, rep = _const_str(it.args[0]), it.keywords[0].value.value
            var = s.target.id
            for b in s.body:
                ok = False
                if isinstance(b, ast.Assign) and len(b.targets) == 1 and isinstance(b.targets[0], ast.Subscript):
                    tt = b.targets[0]
                    for which in (False, True):
                        if _is_cm_sub(tt.value, which):
                            key = tt.slice
                            # ''.join([<lit>] + list(x))
                            if (isinstance(key, ast.Call) and ast.unparse(key.func) == "''.join" and len(key.args) == 1
                                    and isinstance(key.args[0], ast.BinOp) and isinstance(key.args[0].op, ast.Add)
                                    and isinstance(key.args[0].left, ast.List) and len(key.args[0].left.elts) == 1
                                    and ast.unparse(key.args[0].right) == 'list(%s)' % var):
                                prefix = _const_str(key.args[0].left.elts[0])
                                letter = _const_str(b.value)
                                for x in itertools.product(alphabet, repeat=rep):
                                    tabs[which][prefix + ''.join(x)] = letter
                                ok = True
                if not ok:
                    raise py2coq.Untranslatable('unsupported statement in the context loop: ' + ast.unparse(b))
            continue
        raise py2coq.Untranslatable('unsupported statement building context_mapping: ' + u[:120])
    if tabs is None or set(tabs) != {False, True}:
        raise py2coq.Untranslatable('context_mapping[False]/[True] not both built in TAPS.__init__')
    return tabs, lines


def coq_codes(s):
    return '[' + '; '.join(str(ord(c)) for c in s) + ']'


def regen_taps(holder=None):
    """reflection dump of the live tables -> coq/Gen/GenTaps.v ; then the static (AST) evaluation of TAPS.__init__ must
    give the same tables, otherwise Untranslatable (fail closed; the Gen file then still holds the live tables so
    that the search for a failing input runs against what the code really uses)"""
    path = os.path.join(fw.REPO, TAPS_PY)
    live = fw.run_impl('impl_c14.py', {'table': True})['table']
    if holder is not None:
        holder.live_table = live
    if not live['types_ok'] or live['keys'] != ['False', 'True']:
        raise py2coq.Untranslatable('live TAPS().context_mapping is not {False: {str: str}, True: {str: str}}: %r' % (live,))
    chunks = []
    for name, which in (('ctx_unmeth', 'False'), ('ctx_meth', 'True')):
        ent = live[which]
        for k, v in ent:
            if len(v) != 1 or any(ord(c) > 127 for c in k + v):
                raise py2coq.Untranslatable('table entry %r: %r is not (ascii string -> one ascii character)' % (k, v))
        chunks.append('Definition %s : list (list Z * Z) :=\n  [%s].' % (
            name, ';\n   '.join('(%s, %d) (* %s -> %s *)' % (coq_codes(k), ord(v), k, v) for k, v in ent)))
    src = open(path).read()
    sha = hashlib.sha256(src.encode()).hexdigest()
    head = '(* source: %s sha256 %s ; tables dumped from the live TAPS() object (reflection) and\n' \
           '   compared with the static evaluation of the literals in TAPS.__init__ *)' % (TAPS_PY, sha)
    text = '(* GENERATED by tools/c14.py from /repo\'s working tree on every run. Do not edit. *)\n' \
           'From Coq Require Import ZArith List.\nImport ListNotations.\nOpen Scope Z_scope.\n\n' + head + '\n' + \
           '\n\n'.join(chunks) + '\n'
    gp = os.path.join(fw.COQ, 'Gen', 'GenTaps.v')
    old = open(gp).read() if os.path.exists(gp) else None
    if old != text:
        with open(gp, 'w') as f:
            f.write(text)
    static, lines = ast_tables(path)
    for name, which in (('ctx_unmeth', 'False'), ('ctx_meth', 'True')):
        st = static[which == 'True']
        if [list(e) for e in live[which]] != [[k, v] for k, v in st.items()]:
            raise py2coq.Untranslatable('the table read from the live TAPS() object differs from the static evaluation of '
                                        'TAPS.__init__ (%s): live %r static %r' % (name, live[which], list(st.items())))
    return [{'source': TAPS_PY, 'lines': lines, 'sha256': sha, 'coq': 'ctx_unmeth, ctx_meth',
             'entries': [len(live['False']), len(live['True'])]}], live


# ============================================================================== simulation of molecules
def gen_ref(rng, L):
    style = rng.random()
    s = []
    while len(s) < L:
        r = rng.random()
        if r < 0.22:
            s += list('CG')
        elif r < 0.30:
            s += list(rng.choice(['CAG', 'CCG', 'CTG', 'CC', 'GG', 'CNG', 'GC']))
        elif r < 0.34 and style < 0.6:
            s.append('N')
        elif r < 0.35 and style < 0.2:
            s.append(rng.choice('RYKM'))
        else:
            s.append(rng.choice('ACGT'))
    s = s[:L]
    if rng.random() < 0.3:   # soft-masked stretch
        a = rng.randrange(L); b = min(L, a + rng.randint(1, 8))
        s[a:b] = [c.lower() for c in s[a:b]]
    return ''.join(s)


def make_read(rng, ref, meth, conv_base, s, e, rev, fancy=False, qchoices=(2, 12, 20, 30, 37, 40), err=0.04, g=None):
    """a read aligned to ref[s:e); methylated conv_base positions are read as converted (C>T / G>A)"""
    g = g or rng          # g draws the geometry (cigar), rng the bases
    L = len(ref)
    s = max(0, min(s, L - 1)); e = max(s + 1, min(e, L))
    n = e - s
    cigar = [[0, n]]
    if fancy and n >= 4:
        k = g.randint(1, n - 2)
        r = g.random()
        if r < 0.4:
            cigar = [[0, k], [1, g.randint(1, 2)], [0, n - k]]
        elif r < 0.8:
            d = g.randint(1, min(2, n - k - 1))
            cigar = [[0, k], [2, d], [0, n - k - d]]
        else:
            cigar = [[0, k], [3, 1], [0, n - k - 1]]
        if g.random() < 0.5:
            cigar = [[4, g.randint(1, 3)]] + cigar
        if g.random() < 0.5:
            cigar = cigar + [[4, g.randint(1, 3)]]
    seq = []
    rp = s
    for op, ln in cigar:
        if op == 0:
            for _ in range(ln):
                b = ref[rp].upper()
                if b not in 'ACGT':
                    b = rng.choice('ACGTN')
                if b == conv_base and rp in meth:
                    b = 'T' if conv_base == 'C' else 'A'
                x = rng.random()
                if x < err:
                    b = rng.choice('ACGT')
                elif x < err * 1.25:
                    b = 'N'
                seq.append(b)
                rp += 1
        elif op in (1, 4):
            seq += [rng.choice('ACGT') for _ in range(ln)]
        else:
            rp += ln
    return {'start': s, 'cigar': cigar, 'seq': ''.join(seq), 'qual': [rng.choice(qchoices) for _ in seq],
            'rev': rev, 'md': True}


def gen_case(rng, Lchoices=(3, 4, 5, 6, 8, 12, 20, 40, 80), ref=None, g=None, nfr=None):
    """one simulated molecule.  g (default rng) draws everything that fixes the GEOMETRY and configuration (classes,
    strand convention, coordinates, cigars); rng draws reference, methylation, bases and qualities: two calls with
    equally seeded g on two contigs of the same length give molecules at the same coordinates"""
    g = g or rng
    if ref is None:
        ref = gen_ref(rng, rng.choice(Lchoices))
    L = len(ref)
    mrate = rng.choice([0, 0.3, 0.8, 1])
    meth = set(i for i in range(L) if rng.random() < mrate)
    klass = g.choice(['chic', 'nla'])
    taps_strand = g.choice(['F', 'R', None])
    invert = g.random() < 0.25
    unsafe = g.random() < 0.25
    kw = None
    if g.random() < 0.3:
        kw = {'dove_R1_distance': g.randint(0, 3), 'dove_R2_distance': g.randint(0, 3),
              'min_phred_score': g.choice([None, 13, 30])}
    r1rev = g.random() < 0.5
    strand = (not r1rev) if invert else r1rev
    ts = taps_strand or 'R'
    conv = ('G' if strand else 'C') if ts == 'F' else ('C' if strand else 'G')
    if rng.random() < 0.1:
        conv = 'C' if conv == 'G' else 'G'   # chemistry on the unexpected strand
    nfr = nfr or g.choice([1, 1, 2, 2, 3, 4])
    qch = rng.choice([(2, 12, 20, 30, 37, 40), (30,), (20, 30)])
    err = rng.choice([0, 0.04, 0.15])
    frags = []
    a0 = g.choice([0, 0, 1, 2, g.randrange(L)])
    b0 = g.choice([L, L, L - 1, L - 2, g.randint(1, L)])
    for i in range(nfr):
        a = g.choice([0, 0, 1, 2, g.randrange(L)])
        b = g.choice([L, L, L - 1, L - 2, g.randint(1, L)])
        if g.random() < 0.8:      # same R1 anchor: the fragments join one molecule
            if r1rev:
                b = b0
            else:
                a = a0
        a = max(0, min(a, L - 1)); b = max(a + 1, min(b, L))
        layout = g.choice(['inward', 'inward', 'inward', 'dove', 'single', 'r1none', 'same'])
        if i == 0 and layout == 'r1none' and g.random() < 0.7:
            layout = 'inward'
        nl = g.randint(1, b - a); nr = g.randint(1, b - a)
        fancy = g.random() < 0.2
        rv = r1rev if g.random() > 0.08 else (not r1rev)
        left, right = (a, a + nl), (b - nr, b)          # forward mate left, reverse mate right
        if layout == 'dove':                            # the reverse mate starts before the forward mate
            sh = g.randint(1, 4)
            left = (min(L - 1, a + sh), min(L, a + sh + nl))
            right = (max(0, a - g.randint(0, 2)), max(left[0] + 1, b - g.randint(0, 3)))
        fw_read = make_read(rng, ref, meth, conv, left[0], left[1], False, fancy, qch, err, g)
        rv_read = make_read(rng, ref, meth, conv, right[0], right[1], True, fancy, qch, err, g)
        r1, r2 = (rv_read, fw_read) if rv else (fw_read, rv_read)
        r1['md'] = g.random() > 0.03; r2['md'] = g.random() > 0.03
        if layout == 'single':
            r2 = None
        elif layout == 'r1none':
            r1 = None
        elif layout == 'same':
            r2['rev'] = r1['rev']
        frags.append([r1, r2])
    return {'ref': ref, 'refkind': g.choice(['pysam', 'cached', 'cachednh']), 'klass': klass, 'taps_strand': taps_strand,
            'unsafe': unsafe, 'invert': invert, 'kw': kw, 'frags': frags, 'meth': sorted(meth), 'conv': conv,
            'force': g.random() < 0.5}


def gen_history(rng):
    """2-6 molecules on a reference of 2-3 contigs of equal length and different sequence, to be called by ONE TAPS
    object: most molecules share their geometry (same coordinates on different contigs, and on the same contig again)"""
    import random as _random
    L = rng.choice([5, 6, 8, 12, 20, 40, 80])
    c0 = gen_ref(rng, L)
    c1 = gen_ref(rng, L)
    contigs = [c0, c1]
    if rng.random() < 0.5:       # a third contig: the first with a quarter of its bases replaced
        contigs.append(''.join(rng.choice('ACGT') if rng.random() < 0.25 else b for b in c0))
    seeds = [rng.getrandbits(32) for _ in range(2)]
    nm = rng.randint(2, 6)
    order = [rng.randrange(len(contigs)) for _ in range(nm)]
    if len(set(order)) == 1:
        order[-1] = (order[0] + 1) % len(contigs)
    mols = []
    for k in range(nm):
        gs = seeds[0] if rng.random() < 0.7 else (seeds[1] if rng.random() < 0.5 else rng.getrandbits(32))
        m = gen_case(rng, ref=contigs[order[k]], g=_random.Random(gs))
        m['contig'] = order[k]
        del m['ref'], m['refkind']
        mols.append(m)
    return {'contigs': contigs, 'refkind': rng.choice(['pysam', 'cached', 'cachednh']), 'mols': mols}


def gen_mhist(rng):
    """a history on ONE molecule object: constructor, then growth by add_fragment / add_molecule / _add_fragment with a
    __finalise__ after (most) steps; the fragments overlap (same anchor) and carry read errors, so later fragments
    out-vote earlier ones and cover new positions"""
    c = gen_case(rng, Lchoices=(5, 6, 8, 12, 20, 40), nfr=rng.randint(2, 7))
    pool = c.pop('frags')
    if pool[0][0] is None:                    # the constructor gets a fragment with an R1 (a strand)
        pool.sort(key=lambda f: f[0] is None)
    if rng.random() < 0.7:                    # read-out errors in the first fragment, to be out-voted later
        flip = {'C': 'T', 'T': 'C', 'G': 'A', 'A': 'G'}
        for r in pool[0]:
            if r is not None:
                r['seq'] = ''.join(flip.get(ch, ch) if rng.random() < 0.3 else ch for ch in r['seq'])
    ops = [['add', pool[0]]]
    if rng.random() < 0.85:
        ops.append(['fin'])
    i = 1
    while i < len(pool):
        r = rng.random()
        if r < 0.45:
            n = rng.randint(1, min(3, len(pool) - i))
            ops.append(['mol', pool[i:i + n], rng.random() < 0.3]); i += n
        elif r < 0.8:
            ops.append(['add', pool[i]]); i += 1
        else:
            ops.append(['raw', pool[i]]); i += 1
        if rng.random() < 0.7:
            ops.append(['fin'])
    if ops[-1] != ['fin']:
        ops.append(['fin'])
    c['ops'] = ops
    return c


def make_twins(case, rng):
    """metamorphic twins of a single-molecule case (statements of C14_fragment_permutation / C14_mate_swap evaluated on
    the implementation): the same molecule with every fragment attached (force), the same with the fragments in another
    order, and the same with the mates of every fragment swapped (R2's alignment becomes read 1), the dove distances
    swapped with them and invert_strand toggled so that molecule.strand can stay what it was"""
    import copy
    base = copy.deepcopy(case); base['force'] = True
    perm = copy.deepcopy(base)
    if len(perm['frags']) >= 2:
        k = rng.randrange(1, len(perm['frags']))
        perm['frags'] = perm['frags'][k:] + perm['frags'][:k]
        if rng.random() < 0.5:
            perm['frags'].reverse()
    swap = copy.deepcopy(base)
    swap['frags'] = [[b, a] for a, b in swap['frags']]
    swap['invert'] = not swap['invert']
    if swap.get('kw'):
        kw = dict(swap['kw'])
        kw['dove_R1_distance'], kw['dove_R2_distance'] = kw.get('dove_R2_distance', 0), kw.get('dove_R1_distance', 0)
        swap['kw'] = kw
    return base, perm, swap


def twin_compare(kind, rb, rt):
    """None = not comparable (different strand / fragments held); '' = same outcome; text = difference"""
    if any('harness_error' in r for r in (rb, rt)):
        return None
    if rb['strand'] != rt['strand'] or rb['taps_strand_used'] != rt['taps_strand_used']:
        return None
    hb = sorted(json.dumps(f) for f in rb['raw'])
    ht = sorted(json.dumps([f[1], f[0]] if kind == 'swap' else f) for f in rt['raw'])
    if hb != ht:
        return None
    ob, ot = canon_impl(rb), canon_impl(rt)
    if ob == [-1] or ot == [-1]:
        return '' if ob == ot else 'one raises AssertionError, the other does not'
    if not (isinstance(ob[0], list) and isinstance(ot[0], list)) or len(ob) != 2 or len(ot) != 2:
        return None
    if ob[0] != ot[0]:
        d = [e for e in ob[0] if e not in ot[0]] + [e for e in ot[0] if e not in ob[0]]
        return 'call dictionaries differ at [pos, consensus, letter, cov] %r' % (d[:4],)
    if sorted(json.dumps(t) for t in ob[1]) != sorted(json.dumps(t) for t in ot[1]):
        return 'the XM / total tags written to the reads differ'
    return ''


def history_case(h, k):
    """molecule k of history h as a stand-alone case (its own contig as the reference)"""
    c = dict(h['mols'][k]); c['ref'] = h['contigs'][c['contig']]; c['refkind'] = h['refkind']
    return c


def deep_cases(rng):
    """deep molecules: 255 / 256 / 257 / 300 / 520 fragments supporting one base at every C/G position plus 1-3
    dissenting fragments (per-position fragment counts beyond 8 and 9 bits; the model counts in unbounded Z)"""
    out = []
    for k, n in enumerate((255, 256, 257, 300, 520)):
        for variant in (0, 1):
            ref = rng.choice(['ACGTCAGCCA', 'TTCGACTGGCATG', 'GACGCCTGAACG', 'CCGGCAGTCGA'])
            L = len(ref)
            r1rev = (k + variant) % 2 == 1
            ts = rng.choice(['F', 'R'])
            base = ('G' if r1rev else 'C') if ts == 'F' else ('C' if r1rev else 'G')
            conv = 'T' if base == 'C' else 'A'
            majority_converted = variant == 0
            def pair(converted):
                seq = ''.join(conv if (c == base and converted) else c for c in ref)
                rd = lambda rev: {'start': 0, 'cigar': [[0, L]], 'seq': seq, 'qual': [30] * L, 'rev': rev, 'md': True}
                return [rd(r1rev), rd(not r1rev)]
            d = rng.randint(1, 3)
            frags = [pair(majority_converted) for _ in range(n)] + [pair(not majority_converted) for _ in range(d)]
            rng.shuffle(frags)
            out.append({'ref': ref, 'refkind': rng.choice(['pysam', 'cachednh']), 'klass': 'chic', 'taps_strand': ts,
                        'unsafe': False, 'invert': False, 'kw': None, 'frags': frags, 'meth': [], 'conv': base,
                        'force': True, 'deep': [n, d]})
    return out


def exhaustive_small_cases(alphabet='ACGTN', n=3):
    """every reference of length n over the alphabet x R1 orientation x taps_strand x (unconverted | fully
    converted), covered end to end by one mate pair: every context at both contig ends"""
    out = []
    for ref in itertools.product(alphabet, repeat=n):
        ref = ''.join(ref)
        for r1rev in (False, True):
            for ts in ('F', 'R'):
                for converted in (False, True):
                    strand = r1rev
                    conv = ('G' if strand else 'C') if ts == 'F' else ('C' if strand else 'G')
                    seq = ''.join((('T' if conv == 'C' else 'A') if (c == conv and converted) else (c if c != 'N' else 'A'))
                                  for c in ref)
                    rd = lambda rev: {'start': 0, 'cigar': [[0, n]], 'seq': seq, 'qual': [30] * n, 'rev': rev, 'md': True}
                    out.append({'ref': ref, 'refkind': 'pysam' if converted else 'cachednh', 'klass': 'chic', 'taps_strand': ts,
                                'unsafe': False, 'invert': False, 'kw': None,
                                'frags': [[rd(r1rev), rd(not r1rev)]], 'meth': [], 'conv': conv})
    return out


# ============================================================================== abstraction / oracle
def model_input(case, res):
    """the model's input from what the implementation run reports about the real objects"""
    kw = case.get('kw') or {}
    ts = res['taps_strand_used']
    strand = 2 if res['strand'] is None else res['strand']
    minq = kw.get('min_phred_score')
    return [0 if case['refkind'] == 'pysam' else 1, strand, 1 if ts == 'F' else 0, 1 if case['unsafe'] else 0,
            kw.get('dove_R1_distance', 0), kw.get('dove_R2_distance', 0), [] if minq is None else [minq],
            [ord(c) for c in case['ref']],
            [[[] if a is None else a, [] if b is None else b] for a, b in res['abstract']]]


def raw_input(case, res):
    """the input of the model of the molecule abstraction (mode 6): same configuration fields, field 8 = the fragments
    as pysam gives them (raw aligned pairs incl. soft clips / insertions / deletions / skips)"""
    i = model_input(case, res)
    i[8] = [[[] if a is None else a, [] if b is None else b] for a, b in res['raw']]
    return i


def outcome(o):
    """canonical implementation outcome -> what specb (mode 2) decodes: [-1] or [[pos, cons, letter, cov] ...]"""
    if o == [-1]:
        return [-1]
    if isinstance(o, list) and o and isinstance(o[0], list):
        return o[0]
    return None


def canon_impl(res):
    """implementation result in the model's output format"""
    if 'error' in res:
        return [-1] if res['error'].startswith('AssertionError') else ['error', res['error']]
    if res['calls'] is None:
        return ['none']
    calls = sorted([c[0], ord(c[1]), ord(c[2]) if len(c[2]) == 1 else -1, c[3]] for c in res['calls'])
    tags = [None if t is None else [[ord(x) for x in t[0]]] + t[1:] for t in res['tags']]
    return [calls, tags]


def canon_model(mv):
    if mv in ([-1], [-2]):
        return mv
    return [sorted(mv[0]), mv[1]]


COMP = {'A': 'T', 'T': 'A', 'G': 'C', 'C': 'G'}


def spec_letter(ref, pos, base, cons):
    """the property statement, written directly (independent of the model and of position_to_context):
    letter for a consensus base `cons` over reference position pos when calls are made on `base` (C or G)"""
    ref = ref.upper()
    if pos < 0 or pos >= len(ref) or ref[pos] != base:
        return '.'
    if base == 'C':
        if pos + 2 >= len(ref):
            return '.'
        n1, n2 = ref[pos + 1], ref[pos + 2]
    else:
        if pos - 2 < 0:
            return '.'
        n1, n2 = COMP.get(ref[pos - 1], '?'), COMP.get(ref[pos - 2], '?')
    if n1 not in 'ACGT' or n2 not in 'ACGT':
        return '.'
    letter = 'z' if n1 == 'G' else ('x' if n2 == 'G' else 'h')
    conv = 'T' if base == 'C' else 'A'
    if cons == conv:
        return letter.upper()
    if cons == base:
        return letter
    return '.'


def spec_violations(case, res):
    """evaluate the statement of C14 on the implementation's own output; returns list of (key, text)"""
    out = []
    if 'error' in res or res.get('calls') is None:
        return out
    ts = res['taps_strand_used']
    strand = bool(res['strand'])
    base = ('G' if strand else 'C') if ts == 'F' else ('C' if strand else 'G')
    ref = case['ref']
    kw = case.get('kw') or {}
    d1, d2, minq = kw.get('dove_R1_distance', 0), kw.get('dove_R2_distance', 0), kw.get('min_phred_score')
    # positions that may be called: inside the mate-overlap-safe span of a fragment, aligned, MD base = base
    allowed = set()
    votes = collections.defaultdict(collections.Counter)
    for a, b in res['abstract']:
        r1 = a[0] if a is not None else None; r2 = b[0] if b is not None else None
        if case['unsafe']:
            lo, hi = None, None
        else:
            if r1 is None or r2 is None:
                continue
            if r1[0] and not r2[0]:
                lo, hi = r2[1] + d2, r1[2] - d1 - 1
            elif not r1[0] and r2[0]:
                lo, hi = r1[1] + d1, r2[2] - d2 - 1
            else:
                continue
        if any(r is not None and not r[3] for r in (r1, r2)):
            continue                      # a mate without MD tag: the fragment contributes nothing
        per = []
        for r in (r1, r2):
            d = {}
            if r is not None:
                for pos, qb, q, rb in r[4]:
                    if (lo is None or lo <= pos <= hi) and chr(rb).upper() == base and (minq is None or q >= minq):
                        allowed.add(pos)
                        d[pos] = (chr(qb), q)
            per.append(d)
        for pos in set(per[0]) | set(per[1]):      # the better mate votes; equal quality, different base: no vote
            c1, c2 = per[0].get(pos), per[1].get(pos)
            if c1 is None or c2 is None:
                b = (c1 or c2)[0]
            elif c1[1] > c2[1]:
                b = c1[0]
            elif c2[1] > c1[1]:
                b = c2[0]
            else:
                b = c1[0] if c1[0] == c2[0] else 'N'
            if b != 'N':
                votes[pos][b] += 1
    # the consensus of the fragments held NOW: strict majority of the fragment votes
    exp_cons = {}
    for pos, v in votes.items():
        top = max(v.values())
        win = [b for b in v if v[b] == top]
        if len(win) == 1:
            exp_cons[pos] = (win[0], top)
    got_cons = {c[0]: (c[1], c[3]) for c in res['calls']}
    for pos in sorted(set(exp_cons) | set(got_cons)):
        if pos not in got_cons:
            out.append(('consensus-missing', 'position %d: the fragments held vote %s (%d) but the call dictionary has no '
                        'entry' % ((pos,) + exp_cons[pos])))
        elif pos not in exp_cons:
            if pos in allowed:
                out.append(('consensus', 'position %d: dictionary entry with consensus %r, but the fragments held have no '
                            'strict majority there (votes %r)' % (pos, got_cons[pos][0], dict(votes.get(pos, {})))))
        elif exp_cons[pos] != got_cons[pos]:
            out.append(('consensus', 'position %d: dictionary entry says consensus %r (cov %d), the fragments held at this '
                        'finalise vote %r (cov %d)' % ((pos,) + got_cons[pos] + exp_cons[pos])))
    seen = set()
    cnt = collections.Counter()
    for pos, cons, letter, cov, refbase, same_contig in res['calls']:
        what, kind = None, 'call'
        if pos in seen:
            what = 'position %d listed twice' % pos
        seen.add(pos)
        exp = spec_letter(ref, pos, base, cons)
        if len(letter) != 1:
            what = 'call %r at %d is not a single character' % (letter, pos)
        elif letter != exp:
            what = 'call at %d is %r, the reference context / consensus %r require %r' % (pos, letter, cons, exp)
            if letter == '.':
                kind = 'call-missing'
        elif pos not in allowed:
            what = 'position %d is in the call dictionary but outside the safe, aligned, %s-reference positions' % (pos, base)
        elif refbase != base or not same_contig:
            what = 'reference_base/contig of entry %d is %r' % (pos, refbase)
        if what:
            out.append((kind, what))
        cnt[letter] += 1
    letters = {c[0]: c[2] for c in res['calls']}
    reads = [r[0] for fr in res['abstract'] for r in fr if r is not None]
    exp_tot = [cnt['Z'] + cnt['X'] + cnt['H'], cnt['z'] + cnt['x'] + cnt['h'], cnt['Z'], cnt['z'], cnt['X'], cnt['x'],
               cnt['H'], cnt['h']]
    if len(reads) != len(res['tags']):
        out.append(('tags', 'number of tagged reads %d differs from reads %d' % (len(res['tags']), len(reads))))
    for r, t in zip(reads, res['tags']):
        if t is None:
            out.append(('tags', 'read without XM tag'))
            continue
        exp_xm = ''.join(letters.get(p[0], '.') for p in r[4])
        if len(t[0]) != len(r[4]):
            out.append(('xm_length', 'XM %r has %d characters for %d aligned bases' % (t[0], len(t[0]), len(r[4]))))
        elif t[0] != exp_xm:
            out.append(('xm', 'XM %r differs from the calls at the aligned positions %r' % (t[0], exp_xm)))
        if t[1:] != exp_tot:
            out.append(('totals', 'MC,uC,sZ,sz,sX,sx,sH,sh = %r but the call dictionary holds %r' % (t[1:], exp_tot)))
    return out


SPEC16 = {'CG' + c: 'z' for c in 'ACGT'}
SPEC16.update({'C' + a + 'G': 'x' for a in 'ACT'})
SPEC16.update({'C' + a + b: 'h' for a in 'ACT' for b in 'ACT'})


def table_violations(live):
    out = []
    for which, f in (('False', lambda s: s), ('True', lambda s: s.upper())):
        got = dict(tuple(e) for e in live[which])
        exp = {k: f(v) for k, v in SPEC16.items()}
        if got != exp:
            diff = sorted(set(got.items()) ^ set(exp.items()))
            out.append(('table', 'context_mapping[%s] differs from CG*->z, C[ACT]G->x, C[ACT][ACT]->h at %r' % (which, diff[:6])))
    return out


def vm_crosscheck_multi(groups):
    """fw.vm_crosscheck for several modes in ONE coqc run: groups = [(mode, [(input, extracted output) ...]) ...].
    Every group is re-evaluated inside Coq by vm_compute with run_C14x (= run_C14 on the old modes).
    returns (ok, mismatches, cases, log)"""
    import re
    d = os.path.join(fw.BUILD, 'vm', 'C14')
    os.makedirs(d, exist_ok=True)
    body = ['From Coq Require Import ZArith List.', 'Import ListNotations.',
            'From SCMO Require Import Lib.Val Model.C14 Model.C14x.', 'Open Scope Z_scope.']
    groups = [(m, ps) for m, ps in groups if ps]
    for k, (mode, pairs) in enumerate(groups):
        body.append('Definition cases%d : list (Val * Val) := [' % k)
        body.append(';\n'.join('  (%s, %s)' % (fw.coq_val(fw.to_val(i)), fw.coq_val(fw.to_val(o))) for i, o in pairs))
        body.append('].')
        body.append('Eval vm_compute in (length (mismatches (run_C14x %d) cases%d), length cases%d).' % (mode, k, k))
    with open(os.path.join(d, 'cases.v'), 'w') as f:
        f.write('\n'.join(body) + '\n')
    rc, out = fw.sh('ulimit -s unlimited 2>/dev/null; timeout 900 coqc -Q %s SCMO cases.v' % fw.COQ, cwd=d, timeout=960)
    if rc != 0:
        return False, -1, 0, out
    res = re.findall(r'=\s*\((\d+)(?:%nat)?,\s*(\d+)(?:%nat)?\)', out)
    if len(res) != len(groups):
        return False, -1, 0, out
    nm = sum(int(a) for a, b in res)
    n = sum(int(b) for a, b in res)
    ok = nm == 0 and all(int(b) == len(ps) for (a, b), (m, ps) in zip(res, groups))
    return ok, nm, n, out


class Prop(fw.PropBase):
    ID = 'C14'
    PROPS = 'Props/C14.v'
    TRUSTED = [
        'modelled not verified: pysam (AlignedSegment.get_aligned_pairs(with_seq=True) = the raw entries the model starts '
        'from: CIGAR + MD decoding, query_sequence / query_qualities, is_reverse, has_tag(MD); FastaFile.fetch: ValueError '
        'for start<0, truncation at the contig end), pysamiterators.CachedFasta.fetch (python slice), numpy argmax/tie test '
        'of Molecule.get_consensus, python dict/Counter/set semantics (iteration order is abstracted: the call dictionary '
        'is compared as a set of entries)',
        'the matches_only view, reference_start and reference_end are DERIVED in Coq from the raw entries (Model/C14x.v '
        'matched / ref_start / ref_end, theorems C14_matches_only_view, C14_reference_span); that pysam reports the same '
        '(reference_end = one past the last covered reference position, deletions and skips included) is checked on every '
        'generated read (mode 8 against abstract_read of tools/impl_c14.py), not proved',
        'tools/impl_c14.py raw_read / abstract_read copy what pysam reports for the reads the molecule holds (no computation '
        'of its own beyond None -> -1 and character codes)',
        'molecule.strand and the taps_strand in use are read from the molecule object at finalise (Fragment.strand / site '
        'identification belong to C09): the mate-order theorems hold for a fixed strand',
        'tools/c14.py ast_tables + reflection dump of TAPS().context_mapping generate coq/Gen/GenTaps.v (both must agree)',
        'qual (mean phred, a float), XR/XG and YC tags are outside the property and not compared',
        'fragment counts per position are unbounded integers (Z) in the model; the implementation accumulates them in a '
        'numpy vector (float64 on HEAD) -- watched by K with molecules of 255..523 fragments, not proved for the dtype',
    ]
    ASSUMPTIONS = [
        'fragments hold [R1, R2] (either may be None), mapped reads with ACGTN query bases, all reads of one molecule on one '
        'contig (different molecules of a history on different contigs); '
        'skip_first/last_n_cycles consensus options are left at None',
        'reference characters are ASCII (str.upper modelled on a-z)',
        'rwf (hypothesis of the raw-level theorems; measured hit rate in the evidence): per read the aligned bases have '
        'reference positions >= 0, query bases in ACGTN, phred >= 0, no reference position twice, covered reference '
        'positions strictly increasing -- what every pysam alignment satisfies',
    ]

    def regen(self):
        meta, self.live_table = regen_taps(self)
        return meta

    # ---------------------------------------------------------------- generators
    def gen_cases(self):
        quick = self.tier == 'quick'
        cases = []
        if os.path.isdir(CORPUS):
            for fn in sorted(os.listdir(CORPUS)):
                if fn.endswith('.json'):
                    d = json.load(open(os.path.join(CORPUS, fn)))
                    if 'case' in d:
                        cases.append(d['case'])
        self.n_corpus = len(cases)
        ex = exhaustive_small_cases('ACGTN', 3)
        if not quick:
            ex += exhaustive_small_cases('ACGTN', 4) + exhaustive_small_cases('ACGT', 5)
        cases += ex
        self.n_exhaustive = len(ex)
        dc = deep_cases(self.rng)
        cases += dc
        self.n_deep = len(dc)
        n = 2000 if quick else 60000
        for _ in range(n):
            cases.append(gen_case(self.rng))
        # metamorphic twins (fragment order, mate order) of some of them; they are ordinary cases too
        nt = 250 if quick else 5000
        pool = [c for c in cases[-n:] if len(c['frags']) >= 2][:nt]
        self.twins = []
        for c in pool:
            base, perm, swap = make_twins(c, self.rng)
            k = len(cases)
            cases += [base, perm, swap]
            self.twins.append((k, k + 1, k + 2))
        return cases

    def gen_histories(self):
        n = 300 if self.tier == 'quick' else 8000
        hs = []
        if os.path.isdir(CORPUS):
            for fn in sorted(os.listdir(CORPUS)):
                if fn.endswith('.json'):
                    d = json.load(open(os.path.join(CORPUS, fn)))
                    if 'history' in d:
                        hs.append(d['history'])
        return hs + [gen_history(self.rng) for _ in range(n)]

    def gen_mhists(self):
        n = 350 if self.tier == 'quick' else 8000
        ms = []
        if os.path.isdir(CORPUS):
            for fn in sorted(os.listdir(CORPUS)):
                if fn.endswith('.json'):
                    d = json.load(open(os.path.join(CORPUS, fn)))
                    if 'mhist' in d:
                        ms.append(d['mhist'])
        return ms + [gen_mhist(self.rng) for _ in range(n)]

    def run_impl_batched(self, cases, hists=(), mhists=()):
        res, hres, mres = [], [], []
        B = 4000
        for i in range(0, len(cases), B):
            res += fw.run_impl('impl_c14.py', {'cases': cases[i:i + B]})['cases']
        for i in range(0, len(hists), 1000):
            hres += fw.run_impl('impl_c14.py', {'histories': hists[i:i + 1000]})['histories']
        for i in range(0, len(mhists), 1500):
            mres += fw.run_impl('impl_c14.py', {'mhists': mhists[i:i + 1500]})['mhists']
        return res, hres, mres

    def flatten(self, cases, res, hists, hres, mhists=(), mres=()):
        """history molecules and the finalises of single-molecule histories appended to the single-molecule stream as
        stand-alone cases, annotated with where they come from"""
        cases, res = list(cases), list(res)
        self.n_single = len(cases)
        for hi, (h, rs) in enumerate(zip(hists, hres)):
            for k, r in enumerate(rs):
                c = history_case(h, k)
                c['_hist'] = [hi, k]
                cases.append(c); res.append(r)
        self.n_hist_end = len(cases)
        self.mh_inputs = []          # model mode 5 inputs, one per single-molecule history
        for mi, (m, rs) in enumerate(zip(mhists, mres)):
            if isinstance(rs, dict):
                raise fw.Broken('correspondence', 'harness could not run a molecule history: %s' % rs.get('harness_error'))
            base = {k: v for k, v in m.items() if k != 'ops'}
            held, mops, nf = [], [], 0
            for oi, (op, r) in enumerate(zip(m['ops'], rs)):
                if op[0] == 'fin':
                    fin = r['fin']
                    if fin['abstract'] != held:
                        raise fw.Broken('correspondence', 'harness: fragments gained by the operations differ from the '
                                                          'fragments the molecule holds at finalise (history %d)' % mi)
                    c = dict(base); c['_mhist'] = [mi, oi, nf]; c['frags'] = []
                    nf += 1
                    cases.append(c); res.append(fin)
                    mops.append([3, model_input(c, fin)[:7]])
                else:
                    held = held + r['gained']
                    kind = {'add': 0, 'mol': 1, 'raw': 2}[op[0]]
                    mops.append([kind, [[[] if a is None else a, [] if b is None else b] for a, b in r['gained']]])
            self.mh_inputs.append([[ord(ch) for ch in m['ref']], mops])
        return cases, res

    def eval_twins(self, res):
        """statements of C14_fragment_permutation / C14_mate_swap on the implementation's outcomes"""
        self.twin_fail = []
        tw = collections.Counter()
        for b, p_, s_ in getattr(self, 'twins', []):
            for kind, t in (('perm', p_), ('swap', s_)):
                d = twin_compare(kind, res[b], res[t])
                tw[kind + ('_not_comparable' if d is None else '_same_outcome' if d == '' else '_DIFFERENT')] += 1
                if d:
                    self.twin_fail.append((kind, b, t, d))
        self.cov['metamorphic_on_implementation'] = dict(tw)

    def eval_specb(self, cases, res):
        """the Coq specification specb (mode 2; C14_specb_iff, C14_run_specb) on the implementation's outcomes"""
        sp_in, sp_idx = [], []
        for k, (c, r) in enumerate(zip(cases, res)):
            if 'harness_error' in r:
                continue
            oc = outcome(canon_impl(r))
            if oc is not None:
                sp_in.append([raw_input(c, r), oc]); sp_idx.append(k)
        sp_out = fw.run_model('C14', 2, sp_in) if sp_in else []
        self.specb_fail = [k for k, v in zip(sp_idx, sp_out) if v == 0]
        self.cov['specb_evaluated_on_impl_outcomes'] = sum(1 for v in sp_out if v in (0, 1))
        self.cov['specb_false_on_impl_outcomes'] = len(self.specb_fail)
        return sp_in, sp_out

    def measure_raw(self, cases, res, hist):
        """what the generated molecules exercise of the molecule abstraction (measured on the raw aligned pairs)"""
        for c, r in zip(cases, res):
            kw = c.get('kw') or {}
            d1, d2 = kw.get('dove_R1_distance', 0), kw.get('dove_R2_distance', 0)
            if d1 != d2:
                hist['raw_dove_distances_differ'] += 1
            hist['raw_molecules_fragments>=2'] += len(r['raw']) >= 2
            for a, b in r['raw']:
                ws = [x[0] if x is not None else None for x in (a, b)]
                for w in ws:
                    if w is None:
                        continue
                    ap = w[4]
                    lead = 0
                    while lead < len(ap) and ap[lead][1] < 0:
                        lead += 1
                    inner = ap[lead:]
                    while inner and inner[-1][1] < 0:
                        inner = inner[:-1]
                    hist['raw_reads'] += 1
                    hist['raw_reads_soft_clipped'] += len(inner) != len(ap)
                    hist['raw_reads_insertion'] += any(e[1] < 0 for e in inner)
                    hist['raw_reads_deletion'] += any(e[0] < 0 and e[2] != 0 for e in inner)
                    hist['raw_reads_ref_skip'] += any(e[0] < 0 and e[1] >= 0 and e[2] == 0 for e in inner) and bool(w[1])
                    hist['raw_reads_without_MD'] += not w[1]
                if ws[0] is None or ws[1] is None:
                    hist['raw_fragments_single_mate'] += 1
                    continue
                if ws[0][0] == ws[1][0]:
                    hist['raw_fragments_same_orientation'] += 1
                    continue
                f, v = (ws[1], ws[0]) if ws[0][0] else (ws[0], ws[1])       # forward mate, reverse mate
                fp = [e[1] for e in f[4] if e[1] >= 0]; vp = [e[1] for e in v[4] if e[1] >= 0]
                if not fp or not vp:
                    continue
                df, dv = (d2, d1) if ws[0][0] else (d1, d2)
                lo, hi = fp[0] + df, vp[-1] + 1 - dv - 1
                hist['raw_fragments_inward_pair'] += 1
                dove = vp[0] < fp[0] or fp[-1] > vp[-1]
                hist['raw_fragments_dove_tailed'] += dove
                hist['raw_fragments_mates_overlap'] += bool(set(fp) & set(vp))
                hist['raw_fragments_empty_safe_span'] += lo > hi
                if not c['unsafe']:
                    out = sum(1 for w in (f, v) for e in w[4] if e[0] >= 0 and e[1] >= 0 and not (lo <= e[1] <= hi))
                    hist['raw_aligned_bases_outside_safe_span'] += out
                    hist['raw_fragments_with_bases_outside_safe_span'] += out > 0
                fq = {e[1]: (f[2][e[0]], f[3][e[0]]) for e in f[4] if e[0] >= 0 and e[1] >= 0}
                vq = {e[1]: (v[2][e[0]], v[3][e[0]]) for e in v[4] if e[0] >= 0 and e[1] >= 0}
                both = [p for p in fq if p in vq]
                hist['raw_overlap_positions_mates_disagree'] += sum(1 for p in both if fq[p][0] != vq[p][0])
                hist['raw_overlap_positions_equal_phred_different_base'] += sum(
                    1 for p in both if fq[p][0] != vq[p][0] and fq[p][1] == vq[p][1])

    # ---------------------------------------------------------------- K
    def correspondence(self):
        singles = self.gen_cases()
        hists = self.gen_histories()
        mhists = self.gen_mhists()
        res, hres, mres = self.run_impl_batched(singles, hists, mhists)
        cases, res = self.flatten(singles, res, hists, hres, mhists, mres)
        self.cases, self.res, self.hists, self.mhists = cases, res, hists, mhists
        herr = [r['harness_error'] for r in res if 'harness_error' in r]
        if herr:
            raise fw.Broken('correspondence', 'harness could not build %d molecules; first: %s' % (len(herr), herr[0]))
        inputs = [model_input(c, r) for c, r in zip(cases, res)]
        impl = [canon_impl(r) for r in res]
        hist = collections.Counter()
        nontrivial = set()
        letters = collections.Counter()
        for c, r, i, o in zip(cases, res, inputs, impl):
            hist['refkind=' + c['refkind']] += 1
            hist['klass=' + c['klass']] += 1
            hist['taps_strand=' + str(r['taps_strand_used'])] += 1
            hist['strand=' + str(r['strand'])] += 1
            hist['unsafe' if c['unsafe'] else 'dove_safe'] += 1
            hist['fragments=%d' % r['n_frags'] if r['n_frags'] <= 8 else 'fragments>=255' if r['n_frags'] >= 255 else 'fragments=9..254'] += 1
            hist['ref_has_N'] += 'N' in c['ref'].upper()
            hist['ref_lowercase'] += c['ref'] != c['ref'].upper()
            if o == [-1]:
                hist['AssertionError(strand None)'] += 1
            elif isinstance(o[0], list):
                ls = [chr(k[2]) for k in o[0]]
                for l in ls:
                    letters[l] += 1
                L = len(c['ref'])
                if any(l != '.' for l in ls):
                    nontrivial.add(fw.canon_hash(i))
                ends = sum(1 for k in o[0] if k[0] <= 1 or k[0] >= L - 2)
                hist['entries_within_2_of_contig_end'] += ends
        seen = {}
        for c, o in zip(cases, impl):
            if '_hist' not in c or not isinstance(o[0], list) or o == [-1]:
                continue
            hi, k = c['_hist']
            d = seen.setdefault(hi, {})
            for e in o[0]:
                prev = d.setdefault(e[0], [])
                if any(pc != c['contig'] for pc in prev):
                    hist['history_entries_at_coordinate_called_before_on_other_contig'] += 1
                if any(pc == c['contig'] for pc in prev):
                    hist['history_entries_at_coordinate_called_before_on_same_contig'] += 1
                prev.append(c['contig'])
        hist['histories'] = len(hists)
        hist['molecule_histories'] = len(mhists)
        hist['molecule_history_finalises'] = len(cases) - self.n_hist_end
        prev = {}
        for c, o in zip(cases, impl):
            if '_mhist' in c:
                mi = c['_mhist'][0]
                if mi in prev and prev[mi] != o and isinstance(o[0], list) and isinstance(prev[mi][0], list):
                    pd = {e[0]: e for e in prev[mi][0]}
                    hist['refinalise_entries_changed_consensus_or_letter'] += sum(
                        1 for e in o[0] if e[0] in pd and pd[e[0]][1:3] != e[1:3])
                    hist['refinalise_entries_new_position'] += sum(1 for e in o[0] if e[0] not in pd)
                prev[mi] = o
        for m in mhists:
            for op in m['ops']:
                hist['op_' + op[0]] += 1
        hist['history_molecules'] = self.n_hist_end - self.n_single
        self.cov.update({
            'evaluations': len(cases),
            'distinct_nontrivial': len(nontrivial),
            'rule': 'MOLECULE ABSTRACTION: every molecule is ALSO run through the model from the raw get_aligned_pairs(with_seq=True) entries of the reads it holds (mode 6: soft clips / insertions / deletions / skips, overlapping and dove-tailed mates, single mates, missing MD; the raw_* histogram entries are measured on these), the Coq abstraction (matches_only view, reference_start/end; mode 8) is compared with what pysam reports, the Coq specification specb (mode 2) is evaluated on the implementation outcome, and 250 (thorough 5000) molecules are re-run with their fragments in another order and with their mates swapped (metamorphic_on_implementation); DEEP molecules (255/256/257/300/520 fragments for one base + 1-3 dissenting); HISTORIES ON ONE MOLECULE OBJECT (constructor, growth by add_fragment / add_molecule / _add_fragment, '
                    '__finalise__ after most steps; every finalise compared with the calls from all fragments held then; '
                    'model mode 5, theorem C14_molecule_history); HISTORIES of 2-6 molecules on 2-3 contigs of different sequence called by ONE TAPS object (same '
                    'coordinates on different contigs and on the same contig again; model mode 4 = history through one '
                    'object, theorem C14_history_stateless) and single molecules with a fresh object: '
                    'molecules of 1-4 fragments simulated on random references (length 3-80, CpG enriched, N / IUPAC / '
                    'soft-masked bases, random methylation, conversion noise, sequencing errors, indels/soft clips, '
                    'dove-tailed / single-end / same-orientation mates, missing MD) through the real TAPSCHICMolecule / '
                    'TAPSNlaIIIMolecule.__finalise__ with pysam.FastaFile / CachedFasta references, plus every reference of '
                    'length 3 over ACGTN (thorough: also length 4 over ACGTN, 5 over ACGT) x strand x taps_strand x converted; compared: methylation_call_dict (position, '
                    'consensus, context letter, cov) and XM/MC/uC/sZ/sz/sX/sx/sH/sh of every read. non-trivial = at least '
                    'one z/x/h/Z/X/H call; distinct by hash of the model input',
            'histogram': dict(hist), 'letters': dict(letters),
            'corpus_cases': self.n_corpus, 'deep_molecules_255_to_523_fragments': self.n_deep, 'exhaustive_small_reference_cases': self.n_exhaustive,
            'exhaustive': False,
            'samples': [{'case': {k: cases[i][k] for k in ('ref', 'refkind', 'klass', 'taps_strand', 'unsafe', 'invert', 'force', 'kw', 'frags', 'contig', '_hist', '_mhist') if k in cases[i]},
                         'impl_calls': res[i].get('calls'), 'impl_tags': res[i].get('tags')}
                        for i in (self.n_corpus + 77, len(cases) - 1)],
        })
        # the statement evaluated directly on the implementation's output (also used by search)
        sv = 0
        for c, r in zip(cases, res):
            if spec_violations(c, r):
                sv += 1
        self.eval_twins(res)
        if self.twin_fail:
            self.breaks.append(('specification', '%d molecules get different calls from the implementation when their '
                                                 'fragments are listed in another order / their mates are swapped '
                                                 '(theorems C14_fragment_permutation, C14_mate_swap)' % len(self.twin_fail)))
        tv = table_violations(self.live_table) if getattr(self, 'live_table', None) else []
        self.cov['statement_violations_on_impl_output'] = sv + len(tv)
        if sv or tv:
            self.breaks.append(('specification', '%d molecules / %d table entries violate the statement of C14 evaluated '
                                                 'directly on the implementation output' % (sv, len(tv))))
        if not self.model_ok:
            return
        ns = self.n_single
        mout = fw.run_model('C14', 0, inputs[:ns])
        hin, pos = [], ns
        for h in hists:
            hin.append(inputs[pos:pos + len(h['mols'])]); pos += len(h['mols'])
        for hi_, hv in zip(hin, fw.run_model('C14', 4, hin) if hin else []):
            mout += hv if hv != [-2] else [[-2]] * len(hi_)
        fins = collections.Counter(c['_mhist'][0] for c in cases if '_mhist' in c)
        for mi, mv in enumerate(fw.run_model('C14', 5, self.mh_inputs) if self.mh_inputs else []):
            mout += mv if mv != [-2] else [[-2]] * fins[mi]
        if len(mout) != len(inputs):
            raise fw.Broken('model', 'history mode returned %d results for %d molecules' % (len(mout), len(inputs)))
        mpre = fw.run_model('C14', 1, inputs)
        self.cov['precondition_hit_rate'] = round(sum(1 for x in mpre if x == 1) / len(mpre), 4)
        dis = []
        for k, (c, i, o, m) in enumerate(zip(cases, inputs, impl, mout)):
            if canon_model(m) != o:
                dis.append({'index': k, 'case': c, 'model': canon_model(m), 'impl': o})
        # ---- the molecule abstraction: the model run from the RAW aligned pairs (mode 6) against the same real objects,
        # the abstraction itself (mode 8) against what pysam reports (reference_start/end, matches_only view), and the
        # Coq specification specb (mode 2) evaluated on the implementation's outcome
        rinputs = [raw_input(c, r) for c, r in zip(cases, res)]
        self.rinputs = rinputs
        from concurrent.futures import ThreadPoolExecutor
        with ThreadPoolExecutor(max_workers=3) as ex:          # three passes of the extracted binary, side by side
            f6, f8, f7 = [ex.submit(fw.run_model, 'C14', m, rinputs) for m in (6, 8, 7)]
            rout, rabs, rpre = f6.result(), f8.result(), f7.result()
        self.cov['raw_precondition_hit_rate'] = round(sum(1 for x in rpre if x == 1) / len(rpre), 4)
        nabs = 0
        for k, (i, ra) in enumerate(zip(inputs, rabs)):
            if ra != i[8]:
                nabs += 1
                if nabs == 1:
                    first_abs = {'index': k, 'model_abstraction': ra, 'pysam': i[8]}
        if nabs:
            raise fw.Broken('correspondence', 'pysam model: the abstraction computed in Coq from get_aligned_pairs(with_seq=True) '
                            '(matches_only view, reference_start, reference_end) differs from what pysam reports for %d '
                            'molecules; first: %s' % (nabs, json.dumps(first_abs)[:1200]))
        for k, (c, o, m) in enumerate(zip(cases, impl, rout)):
            if canon_model(m) != o:
                dis.append({'index': k, 'case': c, 'model': canon_model(m), 'impl': o, 'from': 'raw aligned pairs (mode 6)'})
        sp_in, sp_out = self.eval_specb(cases, res)
        if self.specb_fail:
            self.breaks.append(('specification', 'the Coq specification specb (theorem C14_specb_iff) is false on the '
                                                 'implementation outcome of %d molecules' % len(self.specb_fail)))
        self.measure_raw(cases, res, hist)
        self.cov['histogram'] = dict(hist)
        self.cov['traces_validated_against_impl'] = len(cases)
        self.cov['disagreements'] = len(dis)
        # the generated table through the extracted model, all 125 contexts + truncated ones
        tk = [''.join(x) for n in (0, 1, 2, 3) for x in itertools.product('ACGTN', repeat=n)]
        tm = fw.run_model('C14', 3, [[ord(c) for c in k] for k in tk])
        live = getattr(self, 'live_table', None) or {'False': [], 'True': []}
        lt = {w: dict(tuple(e) for e in live[w]) for w in ('False', 'True')}
        for k, m in zip(tk, tm):
            exp = [ord(lt['False'].get(k, '\0')), ord(lt['True'].get(k, '\0'))]
            if m != exp:
                dis.append({'index': -1, 'case': {'table_key': k}, 'model': m, 'impl': exp})
        # vm_compute cross-check of the extracted model, all modes in one coqc run (run_C14x = run_C14 on the old modes)
        idx = sorted(self.rng.sample(range(ns), 60))
        hidx = sorted(self.rng.sample(range(len(hin)), min(8, len(hin))))
        hm = fw.run_model('C14', 4, [hin[i] for i in hidx]) if hidx else []
        midx = sorted(self.rng.sample(range(len(self.mh_inputs)), min(8, len(self.mh_inputs)))) if self.mh_inputs else []
        mm = fw.run_model('C14', 5, [self.mh_inputs[i] for i in midx]) if midx else []
        ridx = sorted(self.rng.sample(range(len(rinputs)), min(40, len(rinputs))))
        sidx = sorted(self.rng.sample(range(len(sp_in)), min(20, len(sp_in)))) if sp_in else []
        ok, nm, ncases, log = vm_crosscheck_multi([
            (0, [(inputs[i], mout[i]) for i in idx]),
            (4, [(hin[i], o) for i, o in zip(hidx, hm)]),
            (5, [(self.mh_inputs[i], o) for i, o in zip(midx, mm)]),
            (6, [(rinputs[i], rout[i]) for i in ridx]),            # the caller from the raw aligned pairs
            (8, [(rinputs[i], rabs[i]) for i in ridx[:10]]),       # the abstraction
            (2, [(sp_in[i], sp_out[i]) for i in sidx])])           # specb on implementation outcomes
        idx = list(range(ncases))
        self.cov['vm_compute_crosscheck'] = {'cases': len(idx), 'mismatches': nm}
        if not ok:
            raise fw.Broken('extraction', 'vm_compute and extracted model disagree: ' + log[-800:])
        if dis:
            self.dis = dis
            d = min(dis, key=lambda d: len(json.dumps(d['case'])))
            raise fw.Broken('correspondence', 'model and implementation disagree on %d cases; smallest: %s'
                            % (len(dis), json.dumps(d)[:1500]))

    # ---------------------------------------------------------------- search
    def search(self):
        """The statement of C14 transcribed in python (spec_violations / table_violations above: independent of the
        Coq model and of position_to_context) evaluated on the implementation's outputs; smallest witness per kind."""
        if getattr(self, 'res', None) is None:
            singles, self.hists, self.mhists = self.gen_cases(), self.gen_histories(), self.gen_mhists()
            res, hres, mres = self.run_impl_batched(singles, self.hists, self.mhists)
            self.cases, self.res = self.flatten(singles, res, self.hists, hres, self.mhists, mres)
        live = getattr(self, 'live_table', None)
        if live is None:
            try:
                live = fw.run_impl('impl_c14.py', {'table': True})['table']
            except Exception as e:
                self.notes.append('table dump failed: %r' % (e,))
        if live:
            for key, what in table_violations(live):
                self.witnesses.append({'key': 'table', 'what': what, 'input': 'TAPS().context_mapping',
                                       'impl': live, 'expected': SPEC16})
        best = {}
        for c, r in zip(self.cases, self.res):
            if 'harness_error' in r:
                continue
            if 'error' in r and not (r['error'].startswith('AssertionError') and r['strand'] is None):
                v = [('error', '__finalise__ raised ' + r['error'])]
            else:
                v = spec_violations(c, r)
            keys = ('ref', 'refkind', 'klass', 'taps_strand', 'unsafe', 'invert', 'force', 'kw', 'frags')
            if '_hist' in c:
                hi, k = c['_hist']
                h = self.hists[hi]
                winput = {'one TAPS() object calls these molecules in order; the violation is on the last':
                          {'contigs': h['contigs'], 'refkind': h['refkind'],
                           'mols': [{x: m[x] for x in ('contig',) + keys if x in m} for m in h['mols'][:k + 1]]}}
                size = len(json.dumps(winput))
                prefix = 'history:' if k > 0 else ''
            elif '_mhist' in c:
                mi, oi, nf = c['_mhist']
                m = self.mhists[mi]
                winput = {'operations on ONE molecule object, in order; the violation is at the last __finalise__':
                          dict({x: m[x] for x in keys if x in m and x != 'frags'}, ops=m['ops'][:oi + 1])}
                size = len(json.dumps(winput))
                prefix = 'refinalise:' if nf > 0 else ''
            else:
                winput = {x: c[x] for x in keys if x in c}
                size = len(json.dumps(c['frags'])) + len(c['ref'])
                prefix = ''
            for key, what in v:
                key = prefix + key
                if key not in best or size < best[key][0]:
                    best[key] = (size, {'key': key, 'what': what,
                                        'input': winput,
                                        'impl': {'calls': r.get('calls'), 'tags': r.get('tags'), 'strand': r.get('strand'),
                                                 'error': r.get('error')},
                                        'expected': 'see what'})
        for key in sorted(best):
            self.witnesses.append(best[key][1])
        keys = ('ref', 'refkind', 'klass', 'taps_strand', 'unsafe', 'invert', 'force', 'kw', 'frags')
        # fragment order / mate order (C14_fragment_permutation, C14_mate_swap) on the implementation
        if getattr(self, 'twin_fail', None) is None and getattr(self, 'twins', None):
            self.eval_twins(self.res)
        seen_kind = set()
        for kind, b, t, d in sorted(getattr(self, 'twin_fail', None) or [], key=lambda x: len(json.dumps(self.cases[x[1]]['frags']))):
            if kind in seen_kind:
                continue
            seen_kind.add(kind)
            self.witnesses.append({
                'key': 'metamorphic:' + kind,
                'what': ('the same fragments in another order' if kind == 'perm' else
                         'the same fragments with the mates of every fragment swapped (dove distances swapped with them, '
                         'molecule.strand unchanged)') + ': ' + d,
                'input': {'molecule': {x: self.cases[b][x] for x in keys if x in self.cases[b]},
                          'twin': {x: self.cases[t][x] for x in keys if x in self.cases[t]}},
                'impl': {'molecule': self.res[b].get('calls'), 'twin': self.res[t].get('calls')},
                'expected': 'the same call dictionary and tags'})
        # the Coq specification specb on the implementation's outcomes, where the transcription above found nothing
        if getattr(self, 'specb_fail', None) is None and getattr(self, 'model_ok', False):
            try:
                self.eval_specb(self.cases, self.res)
            except Exception as e:
                self.notes.append('specb could not be evaluated: %r' % (e,))
        if not self.witnesses:
            for k in sorted(getattr(self, 'specb_fail', None) or [], key=lambda k: len(json.dumps(self.res[k].get('raw'))))[:1]:
                c, r = self.cases[k], self.res[k]
                self.witnesses.append({
                    'key': 'specb',
                    'what': 'the outcome of obtain_methylation_calls does not satisfy the specification Spec (Coq, theorem '
                            'C14_specb_iff): the call dictionary is not exactly the set of strict-majority positions of the '
                            'fragments held, with cov = number of calling fragments and the specified letter',
                    'input': {x: c[x] for x in keys if x in c} if c.get('frags') else
                             {'configuration': {x: c[x] for x in keys if x in c and x != 'frags'}, 'fragments_held_raw': r.get('raw')},
                    'impl': {'calls': r.get('calls'), 'strand': r.get('strand'), 'error': r.get('error')},
                    'expected': 'specb = true'})
